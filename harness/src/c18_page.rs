//! C18, paged executions: `page <n|start/step> <exec>+<exec>+...`
//!
//! ONE real driver connection (`verif_hooks::connection::VerifConn`; the COUNTING generator `start, start+step, ...`
//! in its configuration, or none) against one scripted node. Executions run one after another; each is a statement
//! fetched PAGE BY PAGE, every page being a call of its own of the connection-level function, with the paging state the
//! node returned for the previous page - or RESUMED from a saved paging state (the first request already carries a
//! non-start state, the way `Session::query_single_page(stmt, (), saved_state)` is used after a restart):
//!   exec = `<k>:<ts>:<from>:<r0.r1....>`
//!   k    `q` a `Statement` without values, `Connection::query_raw_with_consistency` per page (QUERY frames)
//!        `e` a `PreparedStatement`, `Connection::execute_raw_with_consistency` per page (EXECUTE frames)
//!        `p` `Connection::prepare(&statement)` first (the way `Session::query_*` sends a statement WITH VALUES), then as `e`
//!        `i` `Connection::execute_iter` - the driver's OWN single-connection pager (pager.rs) fetches the pages
//!   ts   `n` or the explicit `set_timestamp(Some(ts))`
//!   from `s` = `PagingState::start()`, or the number of the saved page the execution resumes from
//!   r_j  per page: 1 = the node has forgotten the prepared statement when the page's EXECUTE arrives (UNPREPARED ->
//!        re-prepare -> the frame is RE-SENT), 0 = answered at once. The list's length is the number of pages.
//! The node answers page j of an execution with one row and - unless it is the last - the paging state `[exec, j+1]`.
//!
//! Output (compared with `Timestamp.pagedExecs`, frame by frame): per exec `<ts|n>@<s|page>,...#<generator calls>`.
//!
//! ORACLE (C18 "a timestamp set explicitly on a statement is sent unchanged in preference to a generated one"), on
//! EVERY frame of EVERY page the node received:
//!  * explicit timestamp: each frame carries exactly it, and the generator was not asked during the execution;
//!  * otherwise, with a generator: each frame carries a value the generator handed out DURING this execution, later
//!    pages carry later values, no value is shared with another execution; without a generator: no timestamp;
//!  * the execution fetched all its pages (a page request the node never saw = the execution was cut short).
use crate::e2e::common::*;
use crate::mockcluster::rows_body;
use crate::mocknode::*;
use crate::rng::Rng;
use crate::{Ctx, Tier};
use scylla::policies::timestamp_generator::TimestampGenerator;
use scylla::response::PagingState;
use scylla::statement::unprepared::Statement;
use scylla::verif_hooks::connection::{VerifConn, VerifConnOptions};
use scylla_cql_core::frame::response::result::{ColumnType, NativeType};
use scylla_cql_core::serialize::row::SerializedValues;
use std::collections::HashSet;
use std::ops::ControlFlow;
use std::sync::atomic::{AtomicI64, Ordering};
use std::sync::{Arc, Mutex};

pub fn generate(rng: &mut Rng, tier: Tier, emit: &mut dyn FnMut(String)) {
    // fixed: the shapes of interest, once each
    emit("page 100/10 q:-5:s:0.0.0+q:n:s:0.0+e:7:s:0.1.0+i:9:s:0.0.0".into());
    emit("page n q:-5:3:0.0+q:n:s:0.0+e:n:2:0.0".into());
    emit("page 0/1 q:9223372036854775807:2:0+q:n:7:0.0.0+p:-9223372036854775808:s:1.1+i:n:s:0.1.0".into());
    let n = if tier == Tier::Quick { 400 } else { 4000 };
    for i in 0..n {
        let gen_word = match i % 5 {
            4 => "n".to_owned(),
            _ => format!("{}/{}", rng.pick(&[0i64, 1, -1000, 1_700_000_000_000_000, i64::MAX / 2]), 1 + rng.below(1000)),
        };
        let n_exec = 1 + rng.below(5);
        let mut execs = Vec::new();
        for _ in 0..n_exec {
            // QUERY (the path without values) twice as often as each of the others
            let k = *rng.pick(&["q", "q", "e", "p", "i"]);
            let ts = if rng.chance(3, 5) { rng.i64_boundary().to_string() } else { "n".to_owned() };
            let far = rng.bool();
            let from = if k == "i" || rng.chance(1, 2) { "s".to_owned() } else { (1 + rng.below(if far { 200 } else { 3 })).to_string() };
            let pages = 1 + rng.below(5) as usize;
            let rs: Vec<String> = (0..pages).map(|_| if k != "q" && rng.chance(1, 4) { "1".to_owned() } else { "0".to_owned() }).collect();
            execs.push(format!("{}:{}:{}:{}", k, ts, from, rs.join(".")));
        }
        emit(format!("page {} {}", gen_word, execs.join("+")));
    }
}

struct CountingGenerator {
    next: AtomicI64,
    step: i64,
    handed: Mutex<Vec<i64>>,
}

impl TimestampGenerator for CountingGenerator {
    fn next_timestamp(&self) -> i64 {
        let v = self.next.fetch_add(self.step, Ordering::SeqCst);
        self.handed.lock().unwrap().push(v);
        v
    }
}

#[derive(Clone)]
struct Exec {
    kind: char,
    ts: Option<i64>,
    from: Option<u32>,
    resends: Vec<u8>,
}

impl Exec {
    fn base(&self) -> u32 {
        self.from.unwrap_or(0)
    }
}

fn parse_exec(w: &str) -> Option<Exec> {
    let f: Vec<&str> = w.split(':').collect();
    if f.len() != 4 || !["q", "e", "p", "i"].contains(&f[0]) {
        return None;
    }
    let kind = f[0].chars().next()?;
    let ts = if f[1] == "n" { None } else { Some(f[1].parse::<i64>().ok()?) };
    let from = if f[2] == "s" { None } else { Some(f[2].parse::<u32>().ok().filter(|v| *v < 1_000_000)?) };
    let resends: Vec<u8> = f[3].split('.').map(|r| r.parse::<u8>().ok().filter(|r| *r <= 1)).collect::<Option<_>>()?;
    if resends.is_empty() || resends.len() > 64 || (kind == 'q' && resends.iter().any(|r| *r != 0)) || (kind == 'i' && from.is_some()) {
        return None;
    }
    Some(Exec { kind, ts, from, resends })
}

fn key_of(exec: usize) -> Vec<u8> {
    vec![0xC9, (exec >> 8) as u8, exec as u8]
}

fn state_bytes(exec: usize, page: u32) -> Vec<u8> {
    let mut b = vec![0x50, (exec >> 8) as u8, exec as u8];
    b.extend_from_slice(&page.to_be_bytes());
    b
}

fn page_of_state(b: &[u8]) -> Option<(usize, u32)> {
    (b.len() == 7 && b[0] == 0x50).then(|| (((b[1] as usize) << 8) | b[2] as usize, u32::from_be_bytes([b[3], b[4], b[5], b[6]])))
}

fn text_of(exec: usize) -> String {
    format!("SELECT pk, v FROM ks.t WHERE pk = 0x{}", crate::util::hex(&key_of(exec)))
}

pub fn run(w: &[&str], ctx: &mut Ctx) -> String {
    if w.len() != 3 {
        return "bad-case".into();
    }
    let generator_cfg: Option<(i64, i64)> = if w[1] == "n" {
        None
    } else {
        let Some((a, b)) = w[1].split_once('/') else { return "bad-case".into() };
        let (Ok(a), Ok(b)) = (a.parse::<i64>(), b.parse::<i64>()) else { return "bad-case".into() };
        Some((a, b))
    };
    let Some(execs) = w[2].split('+').map(parse_exec).collect::<Option<Vec<Exec>>>() else { return "bad-case".into() };
    if execs.len() > 200 {
        return "bad-case".into();
    }
    // ---- the node
    let held: Arc<Mutex<HashSet<Vec<u8>>>> = Arc::new(Mutex::new(HashSet::new()));
    let held_h = Arc::clone(&held);
    // (exec, page) whose eviction has already happened
    let mut evicted: HashSet<(usize, u32)> = HashSet::new();
    let execs_h = execs.clone();
    let handler: Handler = Box::new(move |r: &Request| {
        let mut held = held_h.lock().unwrap();
        let (exec, params, id) = match &r.parsed {
            Parsed::Prepare { text } => {
                held.insert(stmt_id(text));
                return vec![Action::Respond(RESP_RESULT, std_prepared(text))];
            }
            Parsed::Execute { id, params, .. } => (params.values.first().and_then(|v| v.as_deref()).and_then(exec_of_key), params, Some(id.clone())),
            Parsed::Query { text, params } => (text.strip_prefix("SELECT pk, v FROM ks.t WHERE pk = 0x").and_then(crate::util::unhex).and_then(|k| exec_of_key(&k)), params, None),
            _ => return vec![Action::Respond(RESP_RESULT, body_void())],
        };
        let Some(exec) = exec.filter(|e| *e < execs_h.len()) else { return vec![Action::Respond(RESP_RESULT, body_void())] };
        let e = &execs_h[exec];
        // which page is asked for: the start state = the execution's first page (only when it starts from the start)
        let page = match &params.paging_state {
            None => 0,
            Some(b) => match page_of_state(b) {
                Some((x, p)) if x == exec => p,
                _ => return vec![Action::Respond(RESP_ERROR, body_error(0x2200, "foreign paging state", &[]))],
            },
        };
        let idx = page.wrapping_sub(e.base()) as usize;
        if idx >= e.resends.len() {
            return vec![Action::Respond(RESP_ERROR, body_error(0x2200, "no such page", &[]))];
        }
        if let Some(id) = id {
            if e.resends[idx] == 1 && evicted.insert((exec, page)) {
                held.clear();
            }
            if !held.contains(&id) {
                return vec![Action::Respond(RESP_ERROR, body_unprepared(&id))];
            }
        }
        let next = (idx + 1 < e.resends.len()).then(|| state_bytes(exec, page + 1));
        let row: Vec<Option<Vec<u8>>> = vec![Some(key_of(exec)), Some((page as i32).to_be_bytes().to_vec())];
        vec![Action::Respond(RESP_RESULT, rows_body(&row_specs(), !params.skip_metadata, next.as_deref(), &[row]))]
    });
    let counting = generator_cfg.map(|(start, step)| Arc::new(CountingGenerator { next: AtomicI64::new(start), step, handed: Mutex::new(Vec::new()) }));
    let rt = crate::mockcluster::runtime(1);
    rt.block_on(async {
        let node = MockNode::start(false, None, handler).await;
        let generator: Option<Arc<dyn TimestampGenerator>> = counting.clone().map(|g| g as Arc<dyn TimestampGenerator>);
        let options = VerifConnOptions { timestamp_generator: generator, ..Default::default() };
        let Ok(conn) = VerifConn::open(node.addr, options).await else { return "page-skip connection-failed".to_owned() };
        let handed_len = |c: &Option<Arc<CountingGenerator>>| c.as_ref().map_or(0, |g| g.handed.lock().unwrap().len());
        // per exec: the range of `handed` drawn during it
        let mut drawn: Vec<(usize, usize)> = Vec::new();
        let mut failed: Vec<Option<String>> = Vec::new();
        for (x, e) in execs.iter().enumerate() {
            let before = handed_len(&counting);
            let first_state = || match e.from {
                None => PagingState::start(),
                Some(p) => PagingState::new_from_raw_bytes(state_bytes(x, p)),
            };
            let mut values = SerializedValues::new();
            let _ = values.add_value(&key_of(x), &ColumnType::Native(NativeType::Blob));
            let res: Result<(), String> = async {
                match e.kind {
                    'q' => {
                        let mut st = Statement::new(text_of(x));
                        st.set_timestamp(e.ts);
                        let mut state = first_state();
                        loop {
                            let (_, resp) = conn.query(&st, Some(1), state).await?;
                            match resp.into_paging_control_flow() {
                                ControlFlow::Break(()) => return Ok(()),
                                ControlFlow::Continue(s) => state = s,
                            }
                        }
                    }
                    'e' | 'p' | 'i' => {
                        let prepared = if e.kind == 'p' {
                            let mut st = Statement::new(SELECT);
                            st.set_timestamp(e.ts);
                            conn.prepare(&st).await?
                        } else {
                            let mut h = conn.prepare(&Statement::new(SELECT)).await?;
                            h.set_timestamp(e.ts);
                            h
                        };
                        if e.kind == 'i' {
                            use futures::StreamExt;
                            let mut prepared = prepared;
                            prepared.set_page_size(1);
                            let pager = conn.execute_iter(prepared, values).await?;
                            let mut rows = pager.rows_stream::<(Vec<u8>, i32)>().map_err(|_| "TypeCheck".to_owned())?;
                            while let Some(r) = rows.next().await {
                                r.map_err(|_| "NextRowError".to_owned())?;
                            }
                            return Ok(());
                        }
                        let mut state = first_state();
                        loop {
                            let (_, resp) = conn.execute(&prepared, &values, Some(1), state).await?;
                            match resp.into_paging_control_flow() {
                                ControlFlow::Break(()) => return Ok(()),
                                ControlFlow::Continue(s) => state = s,
                            }
                        }
                    }
                    _ => Err("bad-kind".to_owned()),
                }
            }
            .await;
            failed.push(res.err());
            drawn.push((before, handed_len(&counting)));
        }
        // ------------------------------------------------------------------ the frames the node saw, per execution
        let mut frames: Vec<Vec<(Option<i64>, Option<u32>)>> = vec![Vec::new(); execs.len()];
        for r in node.requests() {
            let (exec, params) = match &r.parsed {
                Parsed::Execute { params, .. } => (params.values.first().and_then(|v| v.as_deref()).and_then(exec_of_key), params),
                Parsed::Query { text, params } => (text.strip_prefix("SELECT pk, v FROM ks.t WHERE pk = 0x").and_then(crate::util::unhex).and_then(|k| exec_of_key(&k)), params),
                _ => continue,
            };
            let Some(exec) = exec.filter(|e| *e < execs.len()) else { continue };
            let page = params.paging_state.as_deref().map(|b| page_of_state(b).map_or(u32::MAX, |(_, p)| p));
            frames[exec].push((params.timestamp, page));
        }
        // ------------------------------------------------------------------ oracle
        let handed: Vec<i64> = counting.as_ref().map_or(Vec::new(), |g| g.handed.lock().unwrap().clone());
        for (x, e) in execs.iter().enumerate() {
            let what = format!(
                "page: execution #{} (`{}`, {} page(s), {})",
                x,
                e.kind,
                e.resends.len(),
                match e.from {
                    None => "from PagingState::start()".to_owned(),
                    Some(p) => format!("RESUMED from the saved paging state of page {}", p),
                }
            );
            if let Some(err) = &failed[x] {
                ctx.fail(format!("{} failed with {} (the scripted node answers every page)", what, err));
            }
            // every page was asked for
            for j in 0..e.resends.len() as u32 {
                let want = if j == 0 { e.from } else { Some(e.base() + j) };
                if !frames[x].iter().any(|(_, pg)| *pg == want) {
                    ctx.fail(format!("{}: the request for its page {} never reached the node (the execution was cut short)", what, j));
                }
            }
            let (d0, d1) = drawn[x];
            let mine = &handed[d0.min(handed.len())..d1.min(handed.len())];
            let mut last_gen: Option<(Option<u32>, i64)> = None;
            for (fi, (got, pg)) in frames[x].iter().enumerate() {
                let pg_s = pg.map_or("the start state".to_owned(), |p| format!("saved paging state {}", p));
                match (e.ts, got) {
                    (Some(want), got) if *got != Some(want) => ctx.fail(format!(
                        "{} was given set_timestamp(Some({})); its frame #{} (request with {}) carries timestamp {:?}",
                        what, want, fi, pg_s, got
                    )),
                    (Some(_), _) => {}
                    (None, None) if counting.is_none() => {}
                    (None, Some(t)) if counting.is_none() => ctx.fail(format!("{}: frame #{} carries timestamp {} although neither the statement nor the connection provides one", what, fi, t)),
                    (None, None) => ctx.fail(format!("{}: frame #{} (request with {}) carries no timestamp although the connection has a timestamp generator", what, fi, pg_s)),
                    (None, Some(t)) => {
                        if !mine.contains(t) {
                            ctx.fail(format!("{}: frame #{} carries timestamp {}, which the generator did not hand out during this execution", what, fi, t));
                        }
                        if let Some((ppg, pt)) = last_gen {
                            if (ppg == *pg && *t != pt) || (ppg != *pg && *t <= pt) {
                                ctx.fail(format!("{}: frame #{} ({}) carries {}, the frame before it carried {}", what, fi, pg_s, t, pt));
                            }
                        }
                        last_gen = Some((*pg, *t));
                    }
                }
            }
            if e.ts.is_some() && d1 != d0 {
                ctx.fail(format!("{} has an explicit timestamp, yet the connection's generator was asked {} time(s) during it (generated timestamps burnt)", what, d1 - d0));
            }
        }
        execs
            .iter()
            .enumerate()
            .map(|(x, _)| {
                let fs: Vec<String> = frames[x]
                    .iter()
                    .map(|(t, pg)| format!("{}@{}", t.map_or("n".to_owned(), |t| t.to_string()), pg.map_or("s".to_owned(), |p| p.to_string())))
                    .collect();
                format!("{}#{}", fs.join(","), drawn[x].1 - drawn[x].0)
            })
            .collect::<Vec<_>>()
            .join("+")
    })
}

fn exec_of_key(k: &[u8]) -> Option<usize> {
    (k.len() == 3 && k[0] == 0xC9).then(|| ((k[1] as usize) << 8) | k[2] as usize)
}

//! C13 `cfg <stmt|prep|batch> <op,op,..|->`: WHERE THE IDEMPOTENCE FLAG COMES FROM. The gate of
//! `run_request_no_side_effects` reads `StatementConfig::is_idempotent`; this case kind drives the REAL public setters
//! of `Statement`, `PreparedStatement` (built from a forged PREPARED response through the C03 hook, exactly as
//! `Connection::prepare` builds it) and `Batch` with a scripted call sequence and prints what every public getter shows
//! afterwards — the line `Model/SpecStmtConfig.lean` prints.
//!
//! ops: `i0 i1` set_is_idempotent · `tr0 tr1` set_tracing · `k0 k1` set_use_cached_result_metadata (prep only) ·
//! `c<0..10>` set_consistency / `uc` unset · `sn s0 s1` set_serial_consistency(None / Serial / LocalSerial) / `us` unset ·
//! `ts<i64>` / `tsn` set_timestamp · `to<ms>` / `ton` set_request_timeout · `h<0..2>` set_history_listener / `rh` remove ·
//! `p<0..2>` / `pn` set_execution_profile_handle · `l<0..2>` / `ln` set_load_balancing_policy · `r<0..2>` / `rn`
//! set_retry_policy · `g<n>` set_page_size (stmt / prep) · `cl` clone.
//!
//! ORACLE (C13's statement: "a request NOT MARKED idempotent ..." — marked = the user's last `set_is_idempotent`; no
//! model involved): after EVERY call `get_is_idempotent()` equals the argument of the last `set_is_idempotent` call
//! (`false` if there was none) — no other setter may mark or unmark a statement.
use crate::rng::Rng;
use crate::{Ctx, Tier};
use scylla::client::execution_profile::{ExecutionProfile, ExecutionProfileHandle};
use scylla::observability::history::{HistoryCollector, HistoryListener};
use scylla::policies::load_balancing::{DefaultPolicy, LoadBalancingPolicy};
use scylla::policies::retry::{DefaultRetryPolicy, DowngradingConsistencyRetryPolicy, FallthroughRetryPolicy, RetryPolicy};
use scylla::statement::batch::{Batch, BatchType};
use scylla::statement::prepared::PreparedStatement;
use scylla::statement::unprepared::Statement;
use scylla::statement::{Consistency, SerialConsistency};
use std::sync::Arc;
use std::time::Duration;

const CONSISTENCIES: [Consistency; 11] = [
    Consistency::Any,
    Consistency::One,
    Consistency::Two,
    Consistency::Three,
    Consistency::Quorum,
    Consistency::All,
    Consistency::LocalQuorum,
    Consistency::EachQuorum,
    Consistency::LocalOne,
    Consistency::Serial,
    Consistency::LocalSerial,
];

/// The calls the three statement types share, plus the two that only some have (`false` / `None` = not part of the API).
trait Obj: Clone {
    fn set_cons(&mut self, c: Consistency);
    fn unset_cons(&mut self);
    fn cons(&self) -> Option<Consistency>;
    fn set_ser(&mut self, s: Option<SerialConsistency>);
    fn unset_ser(&mut self);
    fn ser(&self) -> Option<SerialConsistency>;
    fn set_idem(&mut self, b: bool);
    fn idem(&self) -> bool;
    fn set_tr(&mut self, b: bool);
    fn tr(&self) -> bool;
    fn set_ts(&mut self, t: Option<i64>);
    fn ts(&self) -> Option<i64>;
    fn set_to(&mut self, t: Option<Duration>);
    fn to(&self) -> Option<Duration>;
    fn set_hist(&mut self, l: Arc<dyn HistoryListener>);
    fn rm_hist(&mut self) -> Option<Arc<dyn HistoryListener>>;
    fn set_prof(&mut self, h: Option<ExecutionProfileHandle>);
    fn prof(&self) -> Option<&ExecutionProfileHandle>;
    fn set_lb(&mut self, p: Option<Arc<dyn LoadBalancingPolicy>>);
    fn lb(&self) -> Option<&Arc<dyn LoadBalancingPolicy>>;
    fn set_retry(&mut self, p: Option<Arc<dyn RetryPolicy>>);
    fn retry(&self) -> Option<&Arc<dyn RetryPolicy>>;
    fn set_skip(&mut self, b: bool) -> bool;
    fn skip(&self) -> Option<bool>;
    fn set_pg(&mut self, n: i32) -> bool;
    fn pg(&self) -> Option<i32>;
}

macro_rules! common {
    () => {
        fn set_cons(&mut self, c: Consistency) { self.set_consistency(c) }
        fn unset_cons(&mut self) { self.unset_consistency() }
        fn cons(&self) -> Option<Consistency> { self.get_consistency() }
        fn set_ser(&mut self, s: Option<SerialConsistency>) { self.set_serial_consistency(s) }
        fn unset_ser(&mut self) { self.unset_serial_consistency() }
        fn ser(&self) -> Option<SerialConsistency> { self.get_serial_consistency() }
        fn set_idem(&mut self, b: bool) { self.set_is_idempotent(b) }
        fn idem(&self) -> bool { self.get_is_idempotent() }
        fn set_tr(&mut self, b: bool) { self.set_tracing(b) }
        fn tr(&self) -> bool { self.get_tracing() }
        fn set_ts(&mut self, t: Option<i64>) { self.set_timestamp(t) }
        fn ts(&self) -> Option<i64> { self.get_timestamp() }
        fn set_to(&mut self, t: Option<Duration>) { self.set_request_timeout(t) }
        fn to(&self) -> Option<Duration> { self.get_request_timeout() }
        fn set_hist(&mut self, l: Arc<dyn HistoryListener>) { self.set_history_listener(l) }
        fn rm_hist(&mut self) -> Option<Arc<dyn HistoryListener>> { self.remove_history_listener() }
        fn set_prof(&mut self, h: Option<ExecutionProfileHandle>) { self.set_execution_profile_handle(h) }
        fn prof(&self) -> Option<&ExecutionProfileHandle> { self.get_execution_profile_handle() }
        fn set_lb(&mut self, p: Option<Arc<dyn LoadBalancingPolicy>>) { self.set_load_balancing_policy(p) }
        fn lb(&self) -> Option<&Arc<dyn LoadBalancingPolicy>> { self.get_load_balancing_policy() }
        fn set_retry(&mut self, p: Option<Arc<dyn RetryPolicy>>) { self.set_retry_policy(p) }
        fn retry(&self) -> Option<&Arc<dyn RetryPolicy>> { self.get_retry_policy() }
    };
}

impl Obj for Statement {
    common!();
    fn set_skip(&mut self, _: bool) -> bool { false }
    fn skip(&self) -> Option<bool> { None }
    fn set_pg(&mut self, n: i32) -> bool { self.set_page_size(n); true }
    fn pg(&self) -> Option<i32> { Some(self.get_page_size()) }
}
impl Obj for PreparedStatement {
    common!();
    fn set_skip(&mut self, b: bool) -> bool { self.set_use_cached_result_metadata(b); true }
    fn skip(&self) -> Option<bool> { Some(self.get_use_cached_result_metadata()) }
    fn set_pg(&mut self, n: i32) -> bool { self.set_page_size(n); true }
    fn pg(&self) -> Option<i32> { Some(self.get_page_size()) }
}
impl Obj for Batch {
    common!();
    fn set_skip(&mut self, _: bool) -> bool { false }
    fn skip(&self) -> Option<bool> { None }
    fn set_pg(&mut self, _: i32) -> bool { false }
    fn pg(&self) -> Option<i32> { None }
}

/// The identities a case can install (three of each kind).
struct Pools {
    hist: Vec<Arc<dyn HistoryListener>>,
    lb: Vec<Arc<dyn LoadBalancingPolicy>>,
    retry: Vec<Arc<dyn RetryPolicy>>,
    prof: Vec<ExecutionProfileHandle>,
}

fn pools() -> Pools {
    Pools {
        hist: (0..3).map(|_| Arc::new(HistoryCollector::new()) as Arc<dyn HistoryListener>).collect(),
        lb: (0..3).map(|_| DefaultPolicy::builder().build()).collect(),
        retry: vec![Arc::new(FallthroughRetryPolicy::new()), Arc::new(DefaultRetryPolicy::new()), Arc::new(DowngradingConsistencyRetryPolicy::new())],
        // a profile handle is recognised by its profile's request timeout: (id + 1) s
        prof: (0..3u64).map(|i| ExecutionProfile::builder().request_timeout(Some(Duration::from_secs(i + 1))).build().into_handle()).collect(),
    }
}

fn same<T: ?Sized>(a: &Arc<T>, b: &Arc<T>) -> bool {
    std::ptr::eq(Arc::as_ptr(a) as *const (), Arc::as_ptr(b) as *const ())
}

fn opt<T: ToString>(x: Option<T>) -> String {
    x.map(|v| v.to_string()).unwrap_or_else(|| "-".to_owned())
}

fn num<T: std::str::FromStr + PartialOrd>(s: &str, max: T) -> Option<T> {
    // digits only (the Lean side parses a `Nat`)
    if s.is_empty() || !s.bytes().all(|b| b.is_ascii_digit()) {
        return None;
    }
    s.parse::<T>().ok().filter(|v| *v <= max)
}

/// `n` = None, else an index below 3.
fn opt_ix(s: &str) -> Option<Option<usize>> {
    if s == "n" { Some(None) } else { num::<usize>(s, 2).map(Some) }
}

/// Applies one op; `None` = unparsable or not part of this type's API. Returns the new expectation for the flag.
fn apply<O: Obj>(o: &mut O, tok: &str, p: &Pools, marked: &mut bool) -> Option<()> {
    match tok {
        "uc" => o.unset_cons(),
        "us" => o.unset_ser(),
        "cl" => *o = o.clone(),
        "rh" => {
            o.rm_hist();
        }
        "i0" | "i1" => {
            *marked = tok == "i1";
            o.set_idem(tok == "i1")
        }
        "tr0" | "tr1" => o.set_tr(tok == "tr1"),
        "k0" | "k1" => {
            if !o.set_skip(tok == "k1") {
                return None;
            }
        }
        "tsn" => o.set_ts(None),
        _ if tok.starts_with("ts") => {
            let t = &tok[2..];
            let digits = t.strip_prefix('-').unwrap_or(t);
            if digits.is_empty() || !digits.bytes().all(|b| b.is_ascii_digit()) {
                return None;
            }
            o.set_ts(Some(t.parse::<i64>().ok()?))
        }
        "ton" => o.set_to(None),
        _ if tok.starts_with("to") => o.set_to(Some(Duration::from_millis(num::<u64>(&tok[2..], 1_000_000_000)?))),
        _ if tok.starts_with('c') => o.set_cons(CONSISTENCIES[num::<usize>(&tok[1..], 10)?]),
        "sn" => o.set_ser(None),
        _ if tok.starts_with('s') => o.set_ser(Some(match num::<usize>(&tok[1..], 1)? {
            0 => SerialConsistency::Serial,
            _ => SerialConsistency::LocalSerial,
        })),
        _ if tok.starts_with('h') => o.set_hist(Arc::clone(&p.hist[num::<usize>(&tok[1..], 2)?])),
        _ if tok.starts_with('p') => o.set_prof(opt_ix(&tok[1..])?.map(|i| p.prof[i].clone())),
        _ if tok.starts_with('l') => o.set_lb(opt_ix(&tok[1..])?.map(|i| Arc::clone(&p.lb[i]))),
        _ if tok.starts_with('r') => o.set_retry(opt_ix(&tok[1..])?.map(|i| Arc::clone(&p.retry[i]))),
        _ if tok.starts_with('g') => {
            let n = num::<i32>(&tok[1..], i32::MAX)?;
            if n == 0 || !o.set_pg(n) {
                return None;
            }
        }
        _ => return None,
    }
    Some(())
}

fn drive<O: Obj>(mut o: O, kind: &str, ops: &[&str], ctx: &mut Ctx) -> String {
    let p = pools();
    let mut marked = false;
    let mut reported = false;
    if o.idem() {
        ctx.fail(format!("cfg: a fresh {} reports is_idempotent = true before any call", kind));
        reported = true;
    }
    for (i, tok) in ops.iter().enumerate() {
        if apply(&mut o, tok, &p, &mut marked).is_none() {
            return "bad-case".to_owned();
        }
        if o.idem() != marked && !reported {
            reported = true;
            ctx.fail(format!(
                "cfg: after call #{} (`{}`) on a {} get_is_idempotent() = {}, but the last set_is_idempotent said {} - a request {} is treated by the speculative-execution gate as {}",
                i, tok, kind, o.idem(), marked,
                if marked { "marked idempotent" } else { "NOT marked idempotent" },
                if marked { "not idempotent" } else { "idempotent: it may be in flight on several nodes at once" }
            ));
        }
    }
    let cons = o.cons().and_then(|c| CONSISTENCIES.iter().position(|x| *x == c));
    let ser = o.ser().map(|s| match s {
        SerialConsistency::Serial => 0,
        SerialConsistency::LocalSerial => 1,
    });
    let hist = o.clone().rm_hist().and_then(|l| p.hist.iter().position(|x| same(x, &l)));
    let prof = o.prof().and_then(|h| h.pointee_to_builder().build().get_request_timeout()).map(|d| d.as_secs() - 1);
    let lb = o.lb().and_then(|l| p.lb.iter().position(|x| same(x, l)));
    let retry = o.retry().and_then(|l| p.retry.iter().position(|x| same(x, l)));
    if o.prof().is_some() != prof.is_some() || o.lb().is_some() != lb.is_some() || o.retry().is_some() != retry.is_some() {
        return "unknown-identity".to_owned();
    }
    format!(
        "idem={} tr={} skip={} cons={} ser={} ts={} to={} hist={} prof={} lb={} retry={} pg={}",
        o.idem() as u8,
        o.tr() as u8,
        o.skip().unwrap_or(false) as u8,
        opt(cons),
        opt(ser),
        opt(o.ts()),
        opt(o.to().map(|d| d.as_millis())),
        opt(hist),
        opt(prof),
        opt(lb),
        opt(retry),
        opt(o.pg())
    )
}

/// A PREPARED response without bind markers and without result metadata (`k0.t0`), as a server sends it.
fn forged_prepared() -> bytes::Bytes {
    fn string(b: &mut Vec<u8>, s: &str) {
        b.extend_from_slice(&(s.len() as u16).to_be_bytes());
        b.extend_from_slice(s.as_bytes());
    }
    let mut b = Vec::new();
    b.extend_from_slice(&4i32.to_be_bytes()); // kind: Prepared
    b.extend_from_slice(&2u16.to_be_bytes()); // id
    b.extend_from_slice(&[0xc1, 0x3a]);
    b.extend_from_slice(&1i32.to_be_bytes()); // flags: global table spec
    b.extend_from_slice(&0i32.to_be_bytes()); // columns
    b.extend_from_slice(&0i32.to_be_bytes()); // pk indexes
    string(&mut b, "k0");
    string(&mut b, "t0");
    b.extend_from_slice(&4i32.to_be_bytes()); // result metadata: no_metadata
    b.extend_from_slice(&0i32.to_be_bytes());
    bytes::Bytes::from(b)
}

pub fn run(w: &[&str], ctx: &mut Ctx) -> String {
    if w.len() != 3 {
        return "bad-case".to_owned();
    }
    let ops: Vec<&str> = if w[2] == "-" { Vec::new() } else { w[2].split(',').collect() };
    if ops.len() > 64 {
        return "bad-case".to_owned();
    }
    match w[1] {
        "stmt" => drive(Statement::new("SELECT a FROM k0.t0"), "Statement", &ops, ctx),
        "batch" => drive(Batch::new(BatchType::Unlogged), "Batch", &ops, ctx),
        "prep" => {
            use scylla::frame::protocol_features::ProtocolFeatures;
            use scylla_cql::frame::response::result;
            let prepared = match result::deserialize_with_features(forged_prepared(), None, &ProtocolFeatures::default()) {
                Ok(result::Result::Prepared(p)) => p,
                _ => return "forge-failed".to_owned(),
            };
            drive(scylla::verif_hooks::prepared::statement_from_prepared(prepared, false), "PreparedStatement", &ops, ctx)
        }
        _ => "bad-case".to_owned(),
    }
}

pub fn generate(rng: &mut Rng, tier: Tier, emit: &mut dyn FnMut(String)) {
    let kinds = ["stmt", "prep", "batch"];
    let allowed = |kind: &str, tok: &str| match tok.as_bytes()[0] {
        b'k' => kind == "prep",
        b'g' => kind != "batch",
        _ => true,
    };
    // one of every call (and the boundary payloads of each)
    let all: Vec<&str> = vec![
        "i0", "i1", "tr0", "tr1", "k0", "k1", "c0", "c4", "c10", "uc", "sn", "s0", "s1", "us", "tsn", "ts0", "ts1", "ts-1",
        "ts9223372036854775807", "ts-9223372036854775808", "ton", "to0", "to1", "to30000", "h0", "h2", "rh", "pn", "p0", "p2", "ln", "l0",
        "l1", "rn", "r0", "r2", "g1", "g2", "g5000", "g2147483647", "cl",
    ];
    for kind in kinds {
        emit(format!("cfg {} -", kind));
        let toks: Vec<&str> = all.iter().copied().filter(|t| allowed(kind, t)).collect();
        // every call alone, every ordered pair of calls, and every call between two markings
        for a in &toks {
            emit(format!("cfg {} {}", kind, a));
            for b in &toks {
                emit(format!("cfg {} {},{}", kind, a, b));
            }
            for i in ["i0", "i1"] {
                for j in ["i0", "i1"] {
                    emit(format!("cfg {} {},{},{}", kind, i, a, j));
                }
            }
        }
        // every sequence of <= 4 calls over the boolean setters and clone
        let small: Vec<&str> = ["i0", "i1", "tr0", "tr1", "k0", "k1", "cl"].into_iter().filter(|t| allowed(kind, t)).collect();
        let mut seqs: Vec<Vec<&str>> = vec![vec![]];
        for _ in 0..4 {
            let mut next = Vec::new();
            for s in &seqs {
                for t in &small {
                    let mut v = s.clone();
                    v.push(*t);
                    emit(format!("cfg {} {}", kind, v.join(",")));
                    next.push(v);
                }
            }
            seqs = next;
        }
    }
    // random call sequences; the flag is marked rarely so that most calls happen on a settled flag
    for _ in 0..(if tier == Tier::Quick { 4000 } else { 60000 }) {
        let kind = *rng.pick(&kinds);
        let len = 1 + rng.below(14) as usize;
        let mut ops: Vec<String> = Vec::new();
        while ops.len() < len {
            let tok = match rng.below(16) {
                0 => rng.pick(&["i0", "i1"]).to_string(),
                1..=3 => rng.pick(&["tr0", "tr1"]).to_string(),
                4 => rng.pick(&["k0", "k1"]).to_string(),
                5 => format!("c{}", rng.below(11)),
                6 => rng.pick(&["uc", "us", "rh", "cl", "cl"]).to_string(),
                7 => rng.pick(&["sn", "s0", "s1"]).to_string(),
                8 => {
                    if rng.chance(1, 4) {
                        "tsn".to_owned()
                    } else {
                        format!("ts{}", *rng.pick(&[0i64, 1, -1, i64::MAX, i64::MIN, 1_700_000_000_000_000]) ^ (rng.below(4) as i64))
                    }
                }
                9 => if rng.chance(1, 4) { "ton".to_owned() } else { format!("to{}", rng.below(60_000)) },
                10 => format!("h{}", rng.below(3)),
                11 => if rng.chance(1, 3) { "pn".to_owned() } else { format!("p{}", rng.below(3)) },
                12 => if rng.chance(1, 3) { "ln".to_owned() } else { format!("l{}", rng.below(3)) },
                13 => if rng.chance(1, 3) { "rn".to_owned() } else { format!("r{}", rng.below(3)) },
                14 => format!("g{}", *rng.pick(&[1u64, 2, 100, 5000, i32::MAX as u64])),
                _ => rng.pick(&["tr1", "i1", "tr0", "i0"]).to_string(),
            };
            if allowed(kind, &tok) {
                ops.push(tok);
            }
        }
        emit(format!("cfg {} {}", kind, ops.join(",")));
    }
    // malformed / not part of the type's API
    for c in ["cfg stmt k1", "cfg batch g5", "cfg batch k0", "cfg stmt g0", "cfg prep c11", "cfg prep s2", "cfg stmt x", "cfg stmt h3", "cfg stmt i2", "cfg row i1", "cfg stmt to1000000001", "cfg stmt ts9223372036854775808"] {
        emit(c.to_owned());
    }
}

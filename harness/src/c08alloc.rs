//! Counting allocator for C08 (oracle "allocation out of proportion to the input").
//! Installed as `#[global_allocator]` in `bin/hx.rs`; it only counts on threads that called `start()`
//! (a const thread-local flag: one TLS read per allocation, nothing else, for every other property).
use std::alloc::{GlobalAlloc, Layout, System};
use std::cell::Cell;

pub struct Counting;

thread_local! {
    static ON: Cell<bool> = const { Cell::new(false) };
    static LIVE: Cell<i64> = const { Cell::new(0) };
    static PEAK: Cell<i64> = const { Cell::new(0) };
    static MAXREQ: Cell<u64> = const { Cell::new(0) };
}

#[inline]
fn note(delta: i64, req: u64) {
    let _ = ON.try_with(|on| {
        if on.get() {
            let _ = LIVE.try_with(|l| {
                let v = l.get() + delta;
                l.set(v);
                let _ = PEAK.try_with(|p| {
                    if v > p.get() {
                        p.set(v)
                    }
                });
            });
            let _ = MAXREQ.try_with(|m| {
                if req > m.get() {
                    m.set(req)
                }
            });
        }
    });
}

unsafe impl GlobalAlloc for Counting {
    unsafe fn alloc(&self, l: Layout) -> *mut u8 {
        note(l.size() as i64, l.size() as u64);
        unsafe { System.alloc(l) }
    }
    unsafe fn dealloc(&self, p: *mut u8, l: Layout) {
        note(-(l.size() as i64), 0);
        unsafe { System.dealloc(p, l) }
    }
    unsafe fn alloc_zeroed(&self, l: Layout) -> *mut u8 {
        note(l.size() as i64, l.size() as u64);
        unsafe { System.alloc_zeroed(l) }
    }
    unsafe fn realloc(&self, p: *mut u8, l: Layout, new_size: usize) -> *mut u8 {
        note(new_size as i64 - l.size() as i64, new_size as u64);
        unsafe { System.realloc(p, l, new_size) }
    }
}

/// Start counting on the current thread (live bytes relative to now).
pub fn start() {
    LIVE.with(|l| l.set(0));
    PEAK.with(|p| p.set(0));
    MAXREQ.with(|m| m.set(0));
    ON.with(|o| o.set(true));
}

/// The counters so far (peak live bytes, largest single request) without stopping.
pub fn peek() -> (u64, u64) {
    (PEAK.with(|p| p.get()).max(0) as u64, MAXREQ.with(|m| m.get()))
}

/// Stop counting; returns (peak live bytes requested since `start`, largest single request).
pub fn stop() -> (u64, u64) {
    ON.with(|o| o.set(false));
    (PEAK.with(|p| p.get()).max(0) as u64, MAXREQ.with(|m| m.get()))
}

//! C10 `metaf <table> <phase> <fault>`: a REAL `Session` (full schema fetch, keep-alive 150/150 ms) against the mock
//! cluster (one node); ONE request of a metadata fetch on the control connection meets a scripted fault, everything
//! else is answered.
//!
//!   table  0..8 = system.peers, system.local, system_schema.{keyspaces, types, tables, views, columns, scylla_tables,
//!          scylla_keyspaces}
//!   phase  e = the EXECUTE of the rows statement during `Session::refresh_metadata` (statement already prepared on
//!          the control connection); p = its PREPARE during the session's FIRST fetch (statements are prepared once per
//!          session; the fault is armed before the session is built, `connect` builds it again if the build fails)
//!   fault  fin | rst | garbage (a header of version 0x85) | unsol (a RESULT on a stream nobody waits on) |
//!          stall (silence, keep-alives included) | cut (two bytes of a response header, then FIN) - the connection dies with the
//!          request in flight -, db<hex> (an ERROR response with that code), badbody (a RESULT frame with an
//!          unparseable body), baderr (an ERROR frame with an unparseable body) - only this request fails.
//!
//! The keyspace `ks` holds a table `c10part` whose `system_schema.scylla_tables` row carries the CDC partitioner.
//! Once the metadata traffic has settled the case prints `fired=<0|1> part=<cdc|none|absent> recc=<n>`: the
//! partitioner the PUBLISHED cluster state reports for `ks.c10part`, and the number of control connections
//! established after the fault (a failed fetch gives the control connection up).
//!
//! ORACLE (C10: "every request outstanding on that connection completes with an error ... no caller is handed bytes
//! belonging to a ... partial response"): the request that met the fault was NOT answered. Published metadata that
//! reports "no partitioner" for the table although the node's scylla_tables names one - and never said the table is
//! missing (ERROR Invalid 0x2200) - was built from an unanswered request presented as an empty answer.
use crate::e2e::common::*;
use crate::mockcluster::*;
use crate::mocknode::{RESP_ERROR, RESP_RESULT, body_void, frame};
use crate::rng::Rng;
use crate::Ctx;
use std::time::{Duration, Instant};

pub const TABLES: &[&str] = &[
    "system.peers",
    "system.local",
    "system_schema.keyspaces",
    "system_schema.types",
    "system_schema.tables",
    "system_schema.views",
    "system_schema.columns",
    "system_schema.scylla_tables",
    "system_schema.scylla_keyspaces",
];
const CONN_FAULTS: &[&str] = &["fin", "rst", "garbage", "unsol", "stall", "cut"];
const DB_CODES: &[u32] = &[0x2200, 0x0000, 0x1001, 0x2000, 0x2100, 0x2300, 0x000A, 0x1002, 0x0100, 0x1003];
const CDC: &str = "com.scylladb.dht.CDCPartitioner";

pub fn generate(rng: &mut Rng, quick: bool, emit: &mut dyn FnMut(String)) {
    // the two queries whose errors are filtered (scylla_tables = 7, scylla_keyspaces = 8): every fault, both phases
    for t in [7usize, 8] {
        for ph in ["e", "p"] {
            for f in CONN_FAULTS {
                if *f == "stall" && ph == "p" {
                    continue;
                }
                emit(format!("metaf {} {} {}", t, ph, f));
            }
            for c in DB_CODES {
                emit(format!("metaf {} {} db{:x}", t, ph, c));
            }
            emit(format!("metaf {} {} badbody", t, ph));
            emit(format!("metaf {} {} baderr", t, ph));
        }
    }
    // the other queries of the fetch: a sample
    for _ in 0..(if quick { 16 } else { 150 }) {
        let t = rng.below(7) as usize;
        let ph = if rng.chance(1, 4) { "p" } else { "e" };
        let f = if t >= 2 && rng.bool() {
            match rng.below(4) {
                0 => "badbody".to_owned(),
                1 => "baderr".to_owned(),
                _ => format!("db{:x}", *rng.pick(DB_CODES)),
            }
        } else {
            (*rng.pick(&CONN_FAULTS[..4])).to_owned()
        };
        emit(format!("metaf {} {} {}", t, ph, f));
    }
}

/// (actions, silence)
fn fault_acts(fault: &str, stream_probe: i16) -> Option<(Vec<Act>, bool)> {
    Some(match fault {
        "fin" => (vec![Act::Close], false),
        "rst" => (vec![Act::Reset], false),
        "garbage" => (vec![Act::Raw(vec![0x85, 0, 0, 1, RESP_RESULT, 0, 0, 0, 4, 0, 0, 0, 1])], false),
        "unsol" => (vec![Act::Raw(frame(stream_probe, RESP_RESULT, &body_void()))], false),
        "stall" => (vec![], true),
        // two bytes of a response header, then FIN
        "cut" => (vec![Act::Raw(vec![0x84, 0x00]), Act::Close], false),
        // a RESULT of kind Rows whose metadata is cut short: the frame is whole, its body does not parse
        "badbody" => (vec![Act::Respond(RESP_RESULT, vec![0, 0, 0, 2, 0, 0, 0, 1, 0, 0])], false),
        // an ERROR frame too short for its code + message
        "baderr" => (vec![Act::Respond(RESP_ERROR, vec![0, 0])], false),
        f if f.starts_with("db") => {
            let code = u32::from_str_radix(&f[2..], 16).ok()?;
            (vec![act_error(code as i32, "scripted", &[])], false)
        }
        _ => return None,
    })
}

fn meta_requests(cluster: &MockCluster) -> usize {
    use crate::mocknode::Parsed;
    cluster.frames().iter().filter(|r| matches!(r.parsed, Parsed::Prepare { .. } | Parsed::Query { .. } | Parsed::Execute { .. } | Parsed::Startup(_))).count()
}

/// Waits until no request (keep-alives aside) has reached the node for 250 ms.
async fn settle(cluster: &MockCluster) {
    let deadline = Instant::now() + Duration::from_secs(10);
    let mut last = meta_requests(cluster);
    let mut since = Instant::now();
    while Instant::now() < deadline {
        tokio::time::sleep(Duration::from_millis(10)).await;
        let now = meta_requests(cluster);
        if now != last {
            last = now;
            since = Instant::now();
        } else if since.elapsed() >= Duration::from_millis(250) {
            return;
        }
    }
}

fn part_of(session: &scylla::client::session::Session) -> &'static str {
    let cs = session.get_cluster_state();
    match cs.get_keyspace("ks").and_then(|k| k.tables.get("c10part").map(|t| t.partitioner.clone())) {
        None => "absent",
        Some(None) => "none",
        Some(Some(p)) if p == CDC => "cdc",
        Some(Some(_)) => "other",
    }
}

pub fn run(table: &str, phase: &str, fault: &str, ctx: &mut Ctx) -> String {
    let Some(ti) = table.parse::<usize>().ok().filter(|t| *t < TABLES.len()) else { return "bad-case".into() };
    if phase != "e" && phase != "p" {
        return "bad-case".into();
    }
    if fault_acts(fault, 0).is_none() {
        return "bad-case".into();
    }
    let request_level = fault.starts_with("db") || fault == "badbody" || fault == "baderr";
    if request_level && ti < 2 {
        // a failed `system.local` / `system.peers` row query has its own tolerance rules (not this case kind's subject)
        return "bad-case".into();
    }
    {
        let mut reg = TABLE_PARTITIONERS.lock().unwrap();
        if !reg.iter().any(|(k, _)| k == "ks.c10part") {
            reg.push(("ks.c10part".to_owned(), CDC.to_owned()));
        }
    }
    let shape = Shape { nodes: 1, dcs: 1, racks: 1, shards: 0, msb: 12, vnodes: 2, strat: Strat::Simple(1), seed: 7 };
    let mut topo = shape.topology();
    topo.keyspaces[0].tables.push(TableSpec {
        name: "c10part".into(),
        partition_key: vec![("pk".into(), "blob".into())],
        clustering: vec![],
        regular: vec![("v".into(), "int".into())],
    });
    let rt = runtime(2);
    rt.block_on(async {
        let cluster = MockCluster::start(topo, with_std_prepare(|_| vec![act_void()])).await;
        if phase == "p" {
            // the statements are prepared once per session (the cache is shared by its control connections): the fault
            // meets the PREPARE of the session's FIRST fetch; `connect` builds the session again if that fails
            let (acts, silence) = fault_acts(fault, 31000).unwrap();
            cluster.set_meta_fault(MetaFault { table: TABLES[ti].to_owned(), on_prepare: true, acts, silence });
        }
        let session = match connect(&cluster, |b| b.keepalive_interval(Duration::from_millis(150)).keepalive_timeout(Duration::from_millis(150))).await {
            Ok(s) => s,
            Err(skip) => return skip,
        };
        let mut refresh = "-";
        if phase == "e" {
            settle(&cluster).await;
            if part_of(&session) != "cdc" {
                return format!("e2e-skip initial-part={}", part_of(&session));
            }
            let (acts, silence) = fault_acts(fault, 31000).unwrap();
            cluster.set_meta_fault(MetaFault { table: TABLES[ti].to_owned(), on_prepare: false, acts, silence });
            refresh = match tokio::time::timeout(Duration::from_secs(15), session.refresh_metadata()).await {
                Err(_) => {
                    ctx.fail(format!("metaf: Session::refresh_metadata did not complete within 15 s after `{}` on the {} query", fault, TABLES[ti]));
                    "hang"
                }
                Ok(Ok(())) => "ok",
                Ok(Err(_)) => "err",
            };
        }
        let Some((_, _, fired_at)) = cluster.meta_fault_fired() else {
            return "e2e-skip fault-not-fired".to_owned();
        };
        settle(&cluster).await;
        let part = part_of(&session);
        let recc = cluster.conns().iter().filter(|c| c.control && c.opened > fired_at).count();
        // ---------------------------------------------------------------- oracle (from the property's text)
        let said_missing = fault == "db2200";
        if part != "cdc" && !(said_missing && ti == 7) {
            ctx.fail(format!(
                "metaf: the {} {} of a metadata fetch met `{}` and was never answered, yet the published metadata reports partitioner `{}` for ks.c10part (the node's scylla_tables names {}): an unanswered request was handed on as an answer (refresh_metadata: {}, control connections re-established: {})",
                TABLES[ti], if phase == "p" { "PREPARE" } else { "EXECUTE" }, fault, part, CDC, refresh, recc
            ));
        }
        if !said_missing && recc == 0 {
            ctx.fail(format!(
                "metaf: the {} {} of a metadata fetch met `{}`; the fetch must fail (the control connection is given up and re-established), but no control connection was established afterwards (refresh_metadata: {}, partitioner: {})",
                TABLES[ti], if phase == "p" { "PREPARE" } else { "EXECUTE" }, fault, refresh, part
            ));
        }
        format!("fired=1 part={} recc={}", part, recc)
    })
}

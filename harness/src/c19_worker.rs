//! C19, consumer side: `worker <op>;…` drives a REAL `ClusterWorker::work()` (spawned by the cfg(scylla_verif) hook
//! `verif_hooks::cluster_worker::WorkerRig`: real merge channel, real `apply_metadata_update`, real `ClusterState`
//! construction, real tablets branch) over histories of producer merges interleaved with consumer catch-ups.
//!
//! Header ops (only at the start, in this order, all optional):
//!   `A1` no host filter / `A2` a host filter rejecting exactly the peers whose rack is 9 (default: reject all, i.e.
//!        pool-less nodes). An ENABLED node gets a REAL connection pool towards its address 127.1.<addr>>8>.<addr&255>:9042,
//!        so `apply_metadata_update` really waits at `wait_until_all_pools_are_initialized()`;
//!   `S1` a `ClientRoutesAddressTranslator` is configured as client-routes subscriber;
//!   `I<nodes>` the initial topology (default: one node, host 0).
//! Topologies: `<nodes>` = `host.addr.dc.rack,…` (dc / rack 0 = unknown); a bare `<tag>` is the one-node topology `tag.tag.0.0`.
//! Ops: `F<tag>`/`R<tag>` merge_metadata without/with a refresh request, `G<tag>/<routes>` / `H<tag>/<routes>` the same
//! with client routes configured, `M<nodes>` / `N<nodes>` merge_metadata (without / with refresh) of an explicit peer
//! list, `T<tag>` / `P<nodes>` merge_topology_update (a PARTIAL topology fetch), `C<entries>` merge_client_routes_update,
//! `U<addr>`/`W<addr>` up/down hint; `B` the consumer applies what is pending, then a tablets batch arrives (the worker's
//! OTHER publisher: load - clone - store) and is waited for;
//! what listens at a node address: `L<addr>` accepts and closes at once, `Q<addr>` answers OPTIONS then closes,
//! `Y<addr>` completes the CQL handshake (the pool becomes Ready), `Z<addr>` accepts and never answers (the attempt
//! stays in flight until the 5 s connect timeout: the handler stays parked - the case reports `hang` after 1.5 s and
//! ends); nothing listening = refused at once.
//! `K` lets the consumer catch up (waits until the worker has taken the slot, merges a sentinel DOWN hint and waits
//! until that is taken as well: `recv` is only called again after `apply_metadata_update` returned) and prints what is
//! PUBLISHED: `pub=<nodes as host.addr.dc.rack.enabled>` if EVERY view of the published state (get_nodes_info(),
//! known_nodes, get_node_by_host_id, the ring) shows the same node objects, else `VIEWS-DIFFER …`; `new=<0|1>`
//! (a new ClusterState object was published); `ok= err= drop=` refresh requests resolved; `routes=` what the subscriber
//! holds. The runtime is single-threaded, so the worker only runs while the harness awaits: everything merged between
//! two `K`s reaches the consumer as ONE update and the case is deterministic (compared with Model/ClusterConsumer.lean).
//!
//! ORACLE (model-independent; C19: "the published state reflects the latest fetched topology", "a requested refresh is
//! answered"): after each catch-up every view of the published state names the same `Node` object per host id and
//! equals the LATEST topology merged so far FIELD-WISE (address, dc, rack, the filter's verdict); a new state was
//! published iff a topology or a tablets batch arrived since the previous catch-up; a tablets batch reverts nothing;
//! every refresh request attached since then has been answered `Ok`, none dropped; the worker finishes applying an
//! update within 20 s unless a node of it accepts connections and never answers; the subscriber holds exactly the
//! client routes merged in.
use crate::rng::Rng;
use crate::{Ctx, Tier};
use scylla::verif_hooks::cluster_worker::{NodeView, PeerSpec, WorkerRig};
use std::collections::{BTreeMap, BTreeSet};
use std::net::SocketAddr;
use std::time::{Duration, Instant};
use tokio::io::{AsyncReadExt, AsyncWriteExt};

fn addr_of(a: u16) -> SocketAddr {
    SocketAddr::from(([127, 1, (a >> 8) as u8, a as u8], 9042))
}

fn addr_id(a: &SocketAddr) -> u16 {
    match a.ip() {
        std::net::IpAddr::V4(ip) => ((ip.octets()[2] as u16) << 8) | ip.octets()[3] as u16,
        _ => 0,
    }
}

/// `host.addr.dc.rack,…` or a bare tag.
fn parse_nodes(s: &str) -> Option<Vec<PeerSpec>> {
    if let Ok(tag) = s.parse::<u64>() {
        return Some(vec![PeerSpec { host: tag, addr: addr_of(tag as u16), dc: 0, rack: 0 }]);
    }
    if s == "-" {
        return Some(vec![]);
    }
    s.split(',')
        .map(|n| {
            let p: Vec<&str> = n.split('.').collect();
            if p.len() != 4 {
                return None;
            }
            Some(PeerSpec { host: p[0].parse().ok()?, addr: addr_of(p[1].parse().ok()?), dc: p[2].parse().ok()?, rack: p[3].parse().ok()? })
        })
        .collect()
}

fn parse_route_entries(s: &str, allow_removal: bool) -> Option<Vec<(u64, u16, Option<u16>)>> {
    if s == "-" {
        return Some(vec![]);
    }
    s.split(',')
        .map(|e| {
            let parts: Vec<&str> = e.split('.').collect();
            if parts.len() != 3 {
                return None;
            }
            let h = parts[0].parse().ok()?;
            let c = parts[1].parse().ok()?;
            let p = if parts[2] == "x" {
                if !allow_removal {
                    return None;
                }
                None
            } else {
                Some(parts[2].parse().ok()?)
            };
            Some((h, c, p))
        })
        .collect()
}

/// Does the full fetch at index `k` carry client routes (G/H) - as opposed to F/R/M/N, recorded with the marker entry?
fn routes_configured_at(pending: &[(bool, Vec<(u64, u16, Option<u16>)>)], k: usize) -> bool {
    !(pending[k].1.len() == 1 && pending[k].1[0] == (u64::MAX, 0, None))
}

/// What ONE update (everything merged since the consumer last took the slot) does to the subscriber's routes: a full
/// fetch's snapshot (if it carries routes) replaces and subsumes the partial updates merged before it; later partial
/// updates are applied on top; a full fetch without client routes delivers nothing, nor do updates merged into it.
fn apply_pending_routes(sub_routes: &mut BTreeMap<(u64, u16), u16>, pending_routes: &[(bool, Vec<(u64, u16, Option<u16>)>)]) {
    let last_full = pending_routes.iter().rposition(|(full, _)| *full);
    let start = match last_full {
        Some(k) => {
            if routes_configured_at(pending_routes, k) {
                sub_routes.clear();
                for (h, c, p) in &pending_routes[k].1 {
                    sub_routes.insert((*h, *c), p.unwrap());
                }
                k + 1
            } else {
                pending_routes.len()
            }
        }
        None => 0,
    };
    for (_, entries) in &pending_routes[start.min(pending_routes.len())..] {
        let upd: BTreeMap<(u64, u16), Option<u16>> = entries.iter().map(|&(h, c, p)| ((h, c), p)).collect();
        for (k, p) in upd {
            match p {
                Some(p) => {
                    sub_routes.insert(k, p);
                }
                None => {
                    sub_routes.remove(&k);
                }
            }
        }
    }
}

fn list(xs: &[u64], sep: &str) -> String {
    if xs.is_empty() { "-".into() } else { xs.iter().map(|x| x.to_string()).collect::<Vec<_>>().join(sep) }
}

fn accepts(filter: u8, p: &PeerSpec) -> bool {
    match filter {
        0 => false,
        2 => p.rack != 9,
        _ => true,
    }
}

fn fmt_view(v: &[(u64, u16, u8, u8, bool)]) -> String {
    if v.is_empty() {
        return "-".into();
    }
    v.iter().map(|(h, a, d, r, e)| format!("{}.{}.{}.{}.{}", h, a, d, r, *e as u8)).collect::<Vec<_>>().join(",")
}

fn strip(v: &[NodeView]) -> Vec<(u64, u16, u8, u8, bool)> {
    v.iter().map(|n| (n.host, addr_id(&n.addr), n.dc, n.rack, n.enabled)).collect()
}

/// Waits until the worker has taken whatever is in the slot. `false`: not within `bound`.
async fn wait_taken(rig: &mut WorkerRig, bound: Duration) -> Result<bool, ()> {
    let t0 = Instant::now();
    loop {
        if !rig.slot_full()? {
            return Ok(true);
        }
        if t0.elapsed() > bound {
            return Ok(false);
        }
        tokio::time::sleep(Duration::from_micros(50)).await;
    }
}

async fn read_frame(sock: &mut tokio::net::TcpStream) -> Option<(i16, u8)> {
    let mut hdr = [0u8; 9];
    sock.read_exact(&mut hdr).await.ok()?;
    let len = u32::from_be_bytes([hdr[5], hdr[6], hdr[7], hdr[8]]) as usize;
    let mut body = vec![0u8; len];
    sock.read_exact(&mut body).await.ok()?;
    Some((i16::from_be_bytes([hdr[2], hdr[3]]), hdr[4]))
}

/// What listens at a node address: 'L' close at once, 'Q' SUPPORTED then close, 'Y' full handshake, 'Z' mute.
async fn serve(kind: char, mut sock: tokio::net::TcpStream) {
    use crate::mocknode::{RESP_READY, RESP_SUPPORTED, body_supported_ext, frame};
    match kind {
        'L' => {}
        'Z' => {
            // keep the socket open, never answer
            let mut buf = [0u8; 256];
            while let Ok(n) = sock.read(&mut buf).await {
                if n == 0 {
                    break;
                }
            }
        }
        _ => {
            while let Some((stream, opcode)) = read_frame(&mut sock).await {
                let resp = match opcode {
                    0x05 => frame(stream, RESP_SUPPORTED, &body_supported_ext(false, None, None)),
                    _ if kind == 'Q' => return, // STARTUP: close
                    _ => frame(stream, RESP_READY, &[]), // STARTUP / REGISTER / anything else
                };
                if sock.write_all(&resp).await.is_err() {
                    return;
                }
            }
        }
    }
}

pub fn run_worker(body: &str, ctx: &mut Ctx) -> String {
    let ops: Vec<&str> = body.split(';').filter(|o| !o.is_empty()).collect();
    // header
    let mut hdr = 0usize;
    let mut filter = 0u8;
    if let Some(o) = ops.get(hdr) {
        if *o == "A1" || *o == "A2" {
            filter = if *o == "A1" { 1 } else { 2 };
            hdr += 1;
        }
    }
    let mut with_subscriber = false;
    if ops.get(hdr) == Some(&"S1") {
        with_subscriber = true;
        hdr += 1;
    }
    let mut initial: Vec<PeerSpec> = parse_nodes("0").unwrap();
    if let Some(o) = ops.get(hdr) {
        if let Some(rest) = o.strip_prefix('I') {
            let Some(ns) = parse_nodes(rest) else { return "bad-case".into() };
            initial = ns;
            hdr += 1;
        }
    }
    // Cases with real pools (`A1` / `A2`) use FIXED loopback addresses (127.1.x.y:9042) for what listens - or does not
    // listen - at a node's address, so two hx processes (the runner's parallel chunks, a concurrent check) must not run
    // such cases at the same time: one would connect to the other's listeners. Cross-process mutex = a listener on a
    // port no case uses, held for the duration of the case.
    let _real_pool_guard = if filter != 0 {
        let t0 = std::time::Instant::now();
        loop {
            match std::net::TcpListener::bind(SocketAddr::from(([127, 1, 255, 254], 9040))) {
                Ok(l) => break Some(l),
                Err(_) if t0.elapsed() < std::time::Duration::from_secs(300) => std::thread::sleep(std::time::Duration::from_millis(3)),
                Err(_) => break None,
            }
        }
    } else {
        None
    };
    let rt = tokio::runtime::Builder::new_current_thread().enable_all().build().unwrap();
    rt.block_on(async {
        let mut rig = WorkerRig::spawn_peers(&initial, with_subscriber, filter).await;
        let mut listeners: Vec<tokio::task::JoinHandle<()>> = Vec::new();
        let mut muted: BTreeSet<u16> = BTreeSet::new();
        // oracle state
        let mut latest: Vec<PeerSpec> = initial.clone(); // latest topology merged so far
        let mut applied_hosts: BTreeSet<u64> = initial.iter().map(|p| p.host).collect(); // hosts of the published state
        let mut new_since_k = false; // a topology or a tablets batch since the last catch-up
        let mut outstanding: Vec<u64> = Vec::new();
        let mut last_ptr = rig.published_ptr();
        let mut sub_routes: BTreeMap<(u64, u16), u16> = Default::default();
        let mut pending_routes: Vec<(bool, Vec<(u64, u16, Option<u16>)>)> = Vec::new();
        let mut out: Vec<String> = vec!["-".to_string(); hdr];
        macro_rules! sent {
            ($e:expr, $i:expr) => {
                if $e.is_err() {
                    ctx.fail(format!("op {}: modify returned SendError although the cluster worker is alive", $i));
                    return "senderror".to_owned();
                }
            };
        }
        for (i, op) in ops.iter().enumerate().skip(hdr) {
            let (c, arg) = op.split_at(1);
            match c {
                "L" | "Q" | "Y" | "Z" => {
                    let Ok(a) = arg.parse::<u16>() else { return "bad-case".to_owned() };
                    let kind = c.chars().next().unwrap();
                    match tokio::net::TcpListener::bind(addr_of(a)).await {
                        Ok(l) => listeners.push(tokio::spawn(async move {
                            loop {
                                if let Ok((sock, _)) = l.accept().await {
                                    tokio::spawn(serve(kind, sock));
                                }
                            }
                        })),
                        Err(_) => return "e2e-skip cannot-bind-listener".to_owned(),
                    }
                    if kind == 'Z' {
                        muted.insert(a);
                    }
                    out.push("-".into());
                }
                "B" => {
                    if !arg.is_empty() {
                        return "bad-case".to_owned();
                    }
                    // first let the consumer apply whatever is pending (so that the only publication to wait for is
                    // the tablets branch's), then send the batch: the tablets branch publishes a clone of the CURRENT
                    // state
                    for phase in 0..2 {
                        match wait_taken(&mut rig, Duration::from_secs(20)).await {
                            Ok(true) => {}
                            _ => {
                                ctx.fail(format!("op {}: the cluster worker did not take a pending update within 20 s", i));
                                return "hang".to_owned();
                            }
                        }
                        if phase == 0 {
                            sent!(rig.merge_hint(0, false), i);
                        }
                    }
                    applied_hosts = latest.iter().map(|p| p.host).collect();
                    if with_subscriber {
                        apply_pending_routes(&mut sub_routes, &pending_routes);
                    }
                    pending_routes.clear();
                    let before = rig.published_ptr();
                    let replica = rig.published().first().copied().unwrap_or(0);
                    if !rig.send_tablet("ks", "t", -10, 10, &[(replica, 0)]) {
                        ctx.fail(format!("op {}: the tablets channel is closed or full", i));
                        return "tablets-send-failed".to_owned();
                    }
                    let t0 = Instant::now();
                    while rig.published_ptr() == before {
                        if t0.elapsed() > Duration::from_secs(10) {
                            ctx.fail(format!("op {}: the tablets batch was not applied within 10 s", i));
                            return "tablets-hang".to_owned();
                        }
                        tokio::time::sleep(Duration::from_micros(50)).await;
                    }
                    new_since_k = true;
                    out.push("-".into());
                }
                "K" => {
                    if !arg.is_empty() {
                        return "bad-case".to_owned();
                    }
                    // a node that accepts and never answers keeps the handler parked until the connect timeout
                    let expect_hang = filter != 0
                        && latest.iter().any(|p| accepts(filter, p) && muted.contains(&addr_id(&p.addr)) && !applied_hosts.contains(&p.host));
                    let bound = if expect_hang { Duration::from_millis(1500) } else { Duration::from_secs(20) };
                    for phase in 0..2 {
                        match wait_taken(&mut rig, bound).await {
                            Err(()) => {
                                ctx.fail(format!("op {}: modify returned SendError although the cluster worker is alive", i));
                                return "senderror".to_owned();
                            }
                            Ok(false) => {
                                if !expect_hang {
                                    ctx.fail(format!(
                                        "op {}: the cluster worker did not take a pending update within 20 s: it never finished applying the previous one (parked at wait_until_all_pools_are_initialized?) or lost a wake-up",
                                        i
                                    ));
                                }
                                out.push("hang".into());
                                for l in &listeners {
                                    l.abort();
                                }
                                return out.join(";");
                            }
                            Ok(true) => {}
                        }
                        if phase == 0 {
                            sent!(rig.merge_hint(0, false), i);
                        }
                    }
                    if expect_hang {
                        ctx.fail(format!("op {}: the update was applied although one of its new nodes accepts connections and never answers", i));
                    }
                    let views = rig.published_views();
                    let ptr = rig.published_ptr();
                    let new = ptr != last_ptr;
                    last_ptr = ptr;
                    let (ok, err, dropped) = rig.poll_refresh();
                    // every view names the same node objects ...
                    let consistent = views.nodes_info == views.known_nodes && views.known_nodes == views.by_host_id && views.ring == views.known_nodes;
                    if !consistent {
                        ctx.fail(format!(
                            "op {}: the views of the published state disagree: get_nodes_info()={} known_nodes={} get_node_by_host_id={} ring={} (object identity included)",
                            i, fmt_view(&strip(&views.nodes_info)), fmt_view(&strip(&views.known_nodes)), fmt_view(&strip(&views.by_host_id)), fmt_view(&strip(&views.ring))
                        ));
                    }
                    // ... and each of them IS the latest merged topology, field-wise
                    let mut want: Vec<(u64, u16, u8, u8, bool)> = latest.iter().map(|p| (p.host, addr_id(&p.addr), p.dc, p.rack, accepts(filter, p))).collect();
                    want.sort();
                    for (name, v) in [("get_nodes_info()", &views.nodes_info), ("known_nodes", &views.known_nodes), ("get_node_by_host_id", &views.by_host_id), ("ring", &views.ring)] {
                        if strip(v) != want {
                            ctx.fail(format!(
                                "op {}: after the consumer caught up {} shows {}; the latest topology merged by the producer is {} (an update was discarded, a stale node kept, or a stale state published)",
                                i, name, fmt_view(&strip(v)), fmt_view(&want)
                            ));
                        }
                    }
                    if new != new_since_k {
                        ctx.fail(format!("op {}: new ClusterState published = {}, topology / tablets arrived since the last catch-up = {}", i, new, new_since_k));
                    }
                    if !dropped.is_empty() || !err.is_empty() {
                        ctx.fail(format!("op {}: refresh requests dropped unanswered {:?} / answered with an error {:?}", i, dropped, err));
                    }
                    if ok != outstanding {
                        ctx.fail(format!("op {}: refresh requests answered {:?}, attached since the last catch-up {:?}", i, ok, outstanding));
                    }
                    let observed_routes = rig.subscriber_routes();
                    if with_subscriber {
                        apply_pending_routes(&mut sub_routes, &pending_routes);
                        let want: Vec<(u64, u16, Option<u16>)> = sub_routes.iter().map(|(k, p)| (k.0, k.1, Some(*p))).collect();
                        if observed_routes.as_ref() != Some(&want) {
                            ctx.fail(format!(
                                "op {}: the client-routes subscriber holds {:?}; the routes merged in by the producer amount to {:?} (a client-routes update was not delivered)",
                                i, observed_routes, want
                            ));
                        }
                    } else if observed_routes.is_some() {
                        ctx.fail(format!("op {}: routes reported although no subscriber is configured", i));
                    }
                    pending_routes.clear();
                    outstanding.clear();
                    new_since_k = false;
                    applied_hosts = latest.iter().map(|p| p.host).collect();
                    let routes_str = match &observed_routes {
                        None => "none".to_string(),
                        Some(v) if v.is_empty() => "-".to_string(),
                        Some(v) => v
                            .iter()
                            .map(|(h, c, p)| format!("{}.{}.{}", h, c, p.map(|p| p.to_string()).unwrap_or_else(|| "x".into())))
                            .collect::<Vec<_>>()
                            .join(","),
                    };
                    let pub_str = if consistent {
                        fmt_view(&strip(&views.known_nodes))
                    } else {
                        format!("VIEWS-DIFFER[{}|{}|{}|{}]", fmt_view(&strip(&views.nodes_info)), fmt_view(&strip(&views.known_nodes)), fmt_view(&strip(&views.by_host_id)), fmt_view(&strip(&views.ring)))
                    };
                    out.push(format!(
                        "pub={} new={} ok={} err={} drop={} routes={}",
                        pub_str,
                        new as u8,
                        list(&ok, ","),
                        list(&err, ","),
                        list(&dropped, ","),
                        routes_str
                    ));
                }
                "C" => {
                    let Some(entries) = parse_route_entries(arg, true) else { return "bad-case".to_owned() };
                    sent!(rig.merge_client_routes(&entries), i);
                    pending_routes.push((false, entries.clone()));
                    out.push("-".into());
                }
                "G" | "H" => {
                    let Some((tag, rs)) = arg.split_once('/') else { return "bad-case".to_owned() };
                    let Some(peers) = parse_nodes(tag) else { return "bad-case".to_owned() };
                    let Some(entries) = parse_route_entries(rs, false) else { return "bad-case".to_owned() };
                    let entries: Vec<(u64, u16, u16)> = entries.into_iter().map(|(h, c, p)| (h, c, p.unwrap())).collect();
                    match rig.merge_metadata_peers(&peers, c == "H", Some(&entries)) {
                        Err(()) => sent!(Err::<(), ()>(()), i),
                        Ok(id) => {
                            pending_routes.push((true, entries.iter().map(|&(h, c, p)| (h, c, Some(p))).collect()));
                            latest = peers;
                            new_since_k = true;
                            match id {
                                Some(id) => {
                                    outstanding.push(id);
                                    out.push(format!("r{}", id));
                                }
                                None => out.push("-".into()),
                            }
                        }
                    }
                }
                "F" | "R" | "M" | "N" => {
                    let Some(peers) = parse_nodes(arg) else { return "bad-case".to_owned() };
                    match rig.merge_metadata_peers(&peers, c == "R" || c == "N", None) {
                        Err(()) => sent!(Err::<(), ()>(()), i),
                        Ok(id) => {
                            pending_routes.push((true, vec![(u64::MAX, 0, None)]));
                            latest = peers;
                            new_since_k = true;
                            match id {
                                Some(id) => {
                                    outstanding.push(id);
                                    out.push(format!("r{}", id));
                                }
                                None => out.push("-".into()),
                            }
                        }
                    }
                }
                "T" | "P" => {
                    let Some(peers) = parse_nodes(arg) else { return "bad-case".to_owned() };
                    sent!(rig.merge_topology_peers(&peers), i);
                    latest = peers;
                    new_since_k = true;
                    out.push("-".into());
                }
                "U" | "W" => {
                    let Ok(n) = arg.parse::<u64>() else { return "bad-case".to_owned() };
                    if n > 65535 {
                        return "bad-case".to_owned();
                    }
                    sent!(rig.merge_hint(n as u16, c == "U"), i);
                    out.push("-".into());
                }
                _ => return "bad-case".to_owned(),
            }
        }
        for l in listeners {
            l.abort();
        }
        out.join(";")
    })
}

// ---------------------------------------------------------------------------------------------
// generation
// ---------------------------------------------------------------------------------------------

fn exhaustive(depth: usize, emit: &mut dyn FnMut(String)) {
    fn rec(prefix: &str, ops: &mut Vec<String>, depth: usize, emit: &mut dyn FnMut(String)) {
        if ops.len() == depth {
            emit(format!("worker {}{};K", prefix, ops.join(";")));
            return;
        }
        let t = ops.len() + 1;
        for w in [
            format!("F{}", t),
            format!("R{}", t),
            format!("T{}", t),
            format!("C1.1.{}", t),
            format!("H{}/1.1.9", t),
            "W1".to_string(),
            "K".to_string(),
        ] {
            ops.push(w);
            rec(prefix, ops, depth, emit);
            ops.pop();
        }
    }
    for prefix in ["", "S1;", "A1;", "A1;S1;"] {
        rec(prefix, &mut Vec::new(), depth, emit);
    }
}

/// Same-host-id-set changes of a two-node topology under every filter mode: node 2 moves, changes rack / dc, has its
/// verdict flipped (rack 9), through a PARTIAL or a FULL fetch, with / without a tablets batch and a catch-up in between.
fn same_membership(emit: &mut dyn FnMut(String)) {
    let base = "1.10.1.1,2.20.1.1";
    let variants = ["1.10.1.1,2.21.1.1", "1.10.1.1,2.20.1.2", "1.10.1.1,2.20.2.1", "1.10.1.1,2.20.1.9", "1.11.1.9,2.21.2.2", "2.20.1.1,1.10.1.1"];
    for a in ["", "A1;", "A2;"] {
        for s in ["", "S1;"] {
            for v in variants {
                for kind in ["P", "M", "N"] {
                    emit(format!("worker {}{}I{};K;{}{};K", a, s, base, kind, v));
                    emit(format!("worker {}{}I{};{}{};B;K;B;K", a, s, base, kind, v));
                    emit(format!("worker {}{}I{};{}{};K;P{};K;{}{};K", a, s, base, kind, v, base, kind, v));
                }
                // back and forth: rack 9 flips the A2 verdict off and on again
                emit(format!("worker {}{}I{};P{};K;B;P{};K", a, s, base, v, base));
            }
        }
    }
}

/// What listens at the address of a NEW node of an accepted topology decides how its pool leaves Initializing.
fn pool_outcomes(emit: &mut dyn FnMut(String)) {
    for a in ["A1;", "A2;"] {
        for l in ["", "L30;", "Q30;", "Y30;"] {
            for kind in ["P", "N"] {
                emit(format!("worker {}{}{}1.10.1.1,3.30.1.1;K;{}1.10.1.1,3.30.1.2;K", a, l, kind, kind));
                emit(format!("worker {}I1.10.1.1;{}K;{}1.10.1.1,3.30.1.1;B;K", a, l, kind));
            }
        }
        // a node that accepts and never answers: the handler stays parked (no timeout of its own)
        emit(format!("worker {}Z30;P1.10.1.1,3.30.1.1;K", a));
        emit(format!("worker {}I1.10.1.1;K;Z31;N1.10.1.1,4.31.2.2;K", a));
    }
}

fn random_nodes(rng: &mut Rng) -> String {
    // hosts from a pool of 3, addresses / dc / rack from small pools: same-membership changes are frequent
    let mut hosts: Vec<u64> = vec![1, 2, 3];
    rng.shuffle(&mut hosts);
    let n = rng.range(1, 3) as usize;
    hosts.truncate(n);
    hosts
        .iter()
        .map(|h| format!("{}.{}.{}.{}", h, h * 10 + rng.below(2), 1 + rng.below(2), *rng.pick(&[1u64, 1, 2, 9])))
        .collect::<Vec<_>>()
        .join(",")
}

fn random_case(rng: &mut Rng, len: usize) -> String {
    let (wf, wg, wt, wh, wc, wk, wb) = *rng.pick(&[
        (3u64, 2u64, 3u64, 2u64, 3u64, 3u64, 1u64),
        (1, 1, 6, 1, 4, 3, 1),
        (4, 2, 1, 1, 1, 2, 1),
        (1, 3, 3, 0, 6, 3, 0),
        (2, 0, 6, 0, 1, 4, 2),
    ]);
    let explicit = rng.chance(1, 2);
    let mut tag = 0u64;
    let mut ops: Vec<String> = Vec::new();
    match rng.below(4) {
        0 => ops.push("A1".into()),
        1 => ops.push("A2".into()),
        _ => {}
    }
    if rng.chance(2, 3) {
        ops.push("S1".into());
    }
    if explicit {
        ops.push(format!("I{}", random_nodes(rng)));
    }
    // what listens at the node addresses of this case (random_nodes uses the addresses 10/11, 20/21, 30/31): nothing
    // (refused), or a listener closing at once / closing after OPTIONS / completing the handshake
    let accepting = ops.first().is_some_and(|o| o == "A1" || o == "A2");
    if accepting && explicit {
        for a in [10u16, 11, 20, 21, 30, 31] {
            match rng.below(6) {
                0 => ops.push(format!("L{}", a)),
                1 => ops.push(format!("Q{}", a)),
                2 => ops.push(format!("Y{}", a)),
                _ => {}
            }
        }
    }
    for _ in 0..len {
        let k = rng.below(wf + wg + wt + wh + wc + wk + wb);
        ops.push(if k < wf {
            tag += 1;
            if explicit { format!("{}{}", if rng.bool() { 'M' } else { 'N' }, random_nodes(rng)) } else { format!("{}{}", if rng.bool() { 'F' } else { 'R' }, tag) }
        } else if k < wf + wg {
            tag += 1;
            let n = rng.below(3);
            let routes = if n == 0 { "-".to_string() } else { (0..n).map(|_| format!("{}.{}.{}", rng.range(1, 2), rng.range(1, 2), rng.range(1, 3))).collect::<Vec<_>>().join(",") };
            format!("{}{}/{}", if rng.bool() { 'G' } else { 'H' }, if explicit { random_nodes(rng) } else { tag.to_string() }, routes)
        } else if k < wf + wg + wt {
            tag += 1;
            if explicit { format!("P{}", random_nodes(rng)) } else { format!("T{}", tag) }
        } else if k < wf + wg + wt + wh {
            format!("{}{}", if rng.bool() { 'U' } else { 'W' }, rng.range(1, 4))
        } else if k < wf + wg + wt + wh + wc {
            let n = rng.range(1, 3);
            format!(
                "C{}",
                (0..n)
                    .map(|_| format!("{}.{}.{}", rng.range(1, 2), rng.range(1, 2), if rng.chance(1, 3) { "x".to_string() } else { rng.range(1, 3).to_string() }))
                    .collect::<Vec<_>>()
                    .join(",")
            )
        } else if k < wf + wg + wt + wh + wc + wk {
            "K".into()
        } else {
            "B".into()
        });
    }
    ops.push("K".into());
    format!("worker {}", ops.join(";"))
}

pub fn generate(rng: &mut Rng, tier: Tier, emit: &mut dyn FnMut(String)) {
    let quick = tier == Tier::Quick;
    exhaustive(if quick { 3 } else { 4 }, emit);
    same_membership(emit);
    pool_outcomes(emit);
    for _ in 0..(if quick { 600 } else { 7_000 }) {
        let len = rng.range(1, 14) as usize;
        emit(random_case(rng, len));
    }
}

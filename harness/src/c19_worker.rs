//! C19, consumer side: `worker <op>;…` drives a REAL `ClusterWorker::work()` (spawned by the cfg(scylla_verif) hook
//! `verif_hooks::cluster_worker::WorkerRig`: real merge channel, real `apply_metadata_update`, reject-all host filter so
//! nothing touches the network) over histories of producer merges interleaved with consumer catch-ups.
//!
//! Ops: header ops (only at the start, in this order): `A1` NO host filter - every node of a topology is enabled and gets a
//! REAL connection pool towards 127.1.<tag>>8>.<tag&255>:9042, where nothing listens (refused at once) unless an
//! `L<tag>` op started a listener there that accepts and closes at once (the handshake fails), so
//! `apply_metadata_update` really waits at `wait_until_all_pools_are_initialized()`; `S1` a
//! `ClientRoutesAddressTranslator` is configured as client-routes subscriber;
//! `F<tag>`/`R<tag>` merge_metadata without/with a refresh request (no client routes configured), `G<tag>/<routes>` /
//! `H<tag>/<routes>` the same with client routes, `T<tag>` merge_topology_update, `C<entries>`
//! merge_client_routes_update, `U<addr>`/`W<addr>` up/down hint (syntax as in the `slot` cases);
//! `K` lets the consumer catch up: waits until the worker has taken the slot, then merges a sentinel DOWN hint and waits
//! until that is taken as well - `recv` is only called again after `apply_metadata_update` returned, so by then the
//! first update has been processed completely - and prints what is PUBLISHED:
//! `pub=<host ids of known_nodes> new=<0|1: a new ClusterState object was published> ok=<refresh ids answered Ok>
//! err=<…> drop=<…> routes=<what the subscriber holds: host.conn.port,… | - | none>`.
//! The runtime is single-threaded, so the worker only runs while the harness awaits inside `K`: everything merged
//! between two `K`s reaches the consumer as ONE update, and the case is deterministic (compared with
//! Model/ClusterConsumer.lean).
//!
//! ORACLE (model-independent; C19: "the published state reflects the latest fetched topology", "a requested refresh is
//! answered"): after each catch-up the published `known_nodes` are exactly the peers of the LATEST topology merged so
//! far (full or partial fetch, whatever was merged with it); a new state was published iff a topology was merged since
//! the previous catch-up; every refresh request attached since then has been answered `Ok`, none dropped; the worker
//! takes a pending update - i.e. finishes applying the previous one, unreachable nodes included - within 20 s; the
//! subscriber holds exactly the client routes of the latest full snapshot with the later partial updates applied.
use crate::rng::Rng;
use crate::{Ctx, Tier};
use scylla::verif_hooks::cluster_worker::WorkerRig;
use std::time::{Duration, Instant};

const INITIAL_TAG: u64 = 0;

fn parse_route_entries(s: &str, allow_removal: bool) -> Option<Vec<(u64, u16, Option<u16>)>> {
    if s == "-" {
        return Some(vec![]);
    }
    s.split(',')
        .map(|e| {
            let parts: Vec<&str> = e.split('.').collect();
            if parts.len() != 3 {
                return None;
            }
            let h = parts[0].parse().ok()?;
            let c = parts[1].parse().ok()?;
            let p = if parts[2] == "x" {
                if !allow_removal {
                    return None;
                }
                None
            } else {
                Some(parts[2].parse().ok()?)
            };
            Some((h, c, p))
        })
        .collect()
}

/// Does the full fetch at index `k` carry client routes (G/H) - as opposed to F/R, recorded with the marker entry?
fn routes_configured_at(pending: &[(bool, Vec<(u64, u16, Option<u16>)>)], k: usize) -> bool {
    !(pending[k].1.len() == 1 && pending[k].1[0] == (u64::MAX, 0, None))
}

fn list(xs: &[u64], sep: &str) -> String {
    if xs.is_empty() { "-".into() } else { xs.iter().map(|x| x.to_string()).collect::<Vec<_>>().join(sep) }
}

/// Waits until the worker has taken whatever is in the slot. `false`: not within 60 s.
async fn wait_taken(rig: &mut WorkerRig) -> Result<bool, ()> {
    let t0 = Instant::now();
    loop {
        if !rig.slot_full()? {
            return Ok(true);
        }
        if t0.elapsed() > Duration::from_secs(20) {
            return Ok(false);
        }
        tokio::time::sleep(Duration::from_micros(50)).await;
    }
}

pub fn run_worker(body: &str, ctx: &mut Ctx) -> String {
    let ops: Vec<&str> = body.split(';').filter(|o| !o.is_empty()).collect();
    let accepting = ops.first() == Some(&"A1");
    let with_subscriber = ops.get(accepting as usize) == Some(&"S1");
    let rt = tokio::runtime::Builder::new_current_thread().enable_all().build().unwrap();
    rt.block_on(async {
        let mut rig = if accepting {
            WorkerRig::spawn_accepting(INITIAL_TAG, with_subscriber).await
        } else {
            WorkerRig::spawn(INITIAL_TAG, with_subscriber).await
        };
        let mut listeners: Vec<tokio::task::JoinHandle<()>> = Vec::new();
        // oracle: the client routes the subscriber must hold (None = no full snapshot / update delivered yet)
        let mut sub_routes: std::collections::BTreeMap<(u64, u16), u16> = Default::default();
        // routes merged since the last catch-up, in order: (is_full_snapshot, entries)
        let mut pending_routes: Vec<(bool, Vec<(u64, u16, Option<u16>)>)> = Vec::new();
        // oracle state
        let mut latest: u64 = INITIAL_TAG; // latest topology merged so far
        let mut topo_since_k = false;
        let mut outstanding: Vec<u64> = Vec::new();
        let mut last_ptr = rig.published_ptr();
        let mut out: Vec<String> = Vec::new();
        macro_rules! sent {
            ($e:expr, $i:expr) => {
                if $e.is_err() {
                    ctx.fail(format!("op {}: modify returned SendError although the cluster worker is alive", $i));
                    return "senderror".to_owned();
                }
            };
        }
        for (i, op) in ops.iter().enumerate() {
            let (c, arg) = op.split_at(1);
            match c {
                "A" => {
                    if i != 0 || arg != "1" {
                        return "bad-case".to_owned();
                    }
                    out.push("-".into());
                }
                "S" => {
                    if i != accepting as usize || arg != "1" {
                        return "bad-case".to_owned();
                    }
                    out.push("-".into());
                }
                "L" => {
                    // a listener at the address of topology `tag`'s node: accepts and closes at once
                    let Ok(tag) = arg.parse::<u64>() else { return "bad-case".to_owned() };
                    let addr = std::net::SocketAddr::from(([127, 1, (tag >> 8) as u8, tag as u8], 9042));
                    match tokio::net::TcpListener::bind(addr).await {
                        Ok(l) => listeners.push(tokio::spawn(async move {
                            loop {
                                if let Ok((sock, _)) = l.accept().await {
                                    drop(sock);
                                }
                            }
                        })),
                        Err(_) => return "e2e-skip cannot-bind-listener".to_owned(),
                    }
                    out.push("-".into());
                }
                "K" => {
                    if !arg.is_empty() {
                        return "bad-case".to_owned();
                    }
                    for phase in 0..2 {
                        match wait_taken(&mut rig).await {
                            Err(()) => {
                                ctx.fail(format!("op {}: modify returned SendError although the cluster worker is alive", i));
                                return "senderror".to_owned();
                            }
                            Ok(false) => {
                                ctx.fail(format!(
                                    "op {}: the cluster worker did not take a pending update within 20 s: it never finished applying the previous one (parked at wait_until_all_pools_are_initialized?) or lost a wake-up",
                                    i
                                ));
                                return "hang".to_owned();
                            }
                            Ok(true) => {}
                        }
                        if phase == 0 {
                            sent!(rig.merge_hint(0, false), i);
                        }
                    }
                    let published = rig.published();
                    let ptr = rig.published_ptr();
                    let new = ptr != last_ptr;
                    last_ptr = ptr;
                    let (ok, err, dropped) = rig.poll_refresh();
                    if published != vec![latest] {
                        ctx.fail(format!(
                            "op {}: after the consumer caught up the published known_nodes are {:?}; the latest topology merged by the producer is [{}] (an update was discarded or a stale one published)",
                            i, published, latest
                        ));
                    }
                    if new != topo_since_k {
                        ctx.fail(format!("op {}: new ClusterState published = {}, topology merged since the last catch-up = {}", i, new, topo_since_k));
                    }
                    if !dropped.is_empty() || !err.is_empty() {
                        ctx.fail(format!("op {}: refresh requests dropped unanswered {:?} / answered with an error {:?}", i, dropped, err));
                    }
                    if ok != outstanding {
                        ctx.fail(format!("op {}: refresh requests answered {:?}, attached since the last catch-up {:?}", i, ok, outstanding));
                    }
                    // what the subscriber must hold now: a full fetch's snapshot (if it carries routes) replaces, it
                    // subsumes the partial updates merged before it; later partial updates are applied on top
                    let observed_routes = rig.subscriber_routes();
                    if with_subscriber {
                        // the slot's update: the last full snapshot since the previous catch-up, if any, decides
                        let last_full = pending_routes.iter().rposition(|(full, _)| *full);
                        let start = match last_full {
                            Some(k) => {
                                // routes of the full fetch + the later partial updates went into that metadata
                                if routes_configured_at(&pending_routes, k) {
                                    sub_routes.clear();
                                    for (h, c, p) in &pending_routes[k].1 {
                                        sub_routes.insert((*h, *c), p.unwrap());
                                    }
                                    k + 1
                                } else {
                                    pending_routes.len() // a full fetch without client routes: later updates are ignored
                                }
                            }
                            None => 0,
                        };
                        for (_, entries) in &pending_routes[start.min(pending_routes.len())..] {
                            let upd: std::collections::BTreeMap<(u64, u16), Option<u16>> = entries.iter().map(|&(h, c, p)| ((h, c), p)).collect();
                            for (k, p) in upd {
                                match p {
                                    Some(p) => {
                                        sub_routes.insert(k, p);
                                    }
                                    None => {
                                        sub_routes.remove(&k);
                                    }
                                }
                            }
                        }
                        let want: Vec<(u64, u16, Option<u16>)> = sub_routes.iter().map(|(k, p)| (k.0, k.1, Some(*p))).collect();
                        if observed_routes.as_ref() != Some(&want) {
                            ctx.fail(format!(
                                "op {}: the client-routes subscriber holds {:?}; the routes merged in by the producer amount to {:?} (a client-routes update was not delivered)",
                                i, observed_routes, want
                            ));
                        }
                    } else if observed_routes.is_some() {
                        ctx.fail(format!("op {}: routes reported although no subscriber is configured", i));
                    }
                    pending_routes.clear();
                    outstanding.clear();
                    topo_since_k = false;
                    let routes_str = match &observed_routes {
                        None => "none".to_string(),
                        Some(v) if v.is_empty() => "-".to_string(),
                        Some(v) => v
                            .iter()
                            .map(|(h, c, p)| format!("{}.{}.{}", h, c, p.map(|p| p.to_string()).unwrap_or_else(|| "x".into())))
                            .collect::<Vec<_>>()
                            .join(","),
                    };
                    out.push(format!(
                        "pub={} new={} ok={} err={} drop={} routes={}",
                        list(&published, "+"),
                        new as u8,
                        list(&ok, ","),
                        list(&err, ","),
                        list(&dropped, ","),
                        routes_str
                    ));
                }
                "C" => {
                    let Some(entries) = parse_route_entries(arg, true) else { return "bad-case".to_owned() };
                    sent!(rig.merge_client_routes(&entries), i);
                    pending_routes.push((false, entries.clone()));
                    out.push("-".into());
                }
                "G" | "H" => {
                    let Some((tag, rs)) = arg.split_once('/') else { return "bad-case".to_owned() };
                    let Ok(tag) = tag.parse::<u64>() else { return "bad-case".to_owned() };
                    let Some(entries) = parse_route_entries(rs, false) else { return "bad-case".to_owned() };
                    let entries: Vec<(u64, u16, u16)> = entries.into_iter().map(|(h, c, p)| (h, c, p.unwrap())).collect();
                    match rig.merge_metadata(tag, c == "H", Some(&entries)) {
                        Err(()) => sent!(Err::<(), ()>(()), i),
                        Ok(id) => {
                            pending_routes.push((true, entries.iter().map(|&(h, c, p)| (h, c, Some(p))).collect()));
                            latest = tag;
                            topo_since_k = true;
                            match id {
                                Some(id) => {
                                    outstanding.push(id);
                                    out.push(format!("r{}", id));
                                }
                                None => out.push("-".into()),
                            }
                        }
                    }
                }
                _ => {
                    let Ok(n) = arg.parse::<u64>() else { return "bad-case".to_owned() };
                    match c {
                        "F" | "R" => match rig.merge_metadata(n, c == "R", None) {
                            Err(()) => sent!(Err::<(), ()>(()), i),
                            Ok(id) => {
                                // a full fetch WITHOUT client routes configured: marker entry (x) so that the
                                // reference knows nothing is delivered from it or from updates merged into it
                                pending_routes.push((true, vec![(u64::MAX, 0, None)]));
                                latest = n;
                                topo_since_k = true;
                                match id {
                                    Some(id) => {
                                        outstanding.push(id);
                                        out.push(format!("r{}", id));
                                    }
                                    None => out.push("-".into()),
                                }
                            }
                        },
                        "T" => {
                            sent!(rig.merge_topology(n), i);
                            latest = n;
                            topo_since_k = true;
                            out.push("-".into());
                        }
                        "U" | "W" => {
                            if n > 65535 {
                                return "bad-case".to_owned();
                            }
                            sent!(rig.merge_hint(n as u16, c == "U"), i);
                            out.push("-".into());
                        }
                        _ => return "bad-case".to_owned(),
                    }
                }
            }
        }
        for l in listeners {
            l.abort();
        }
        out.join(";")
    })
}

// ---------------------------------------------------------------------------------------------
// generation
// ---------------------------------------------------------------------------------------------

fn exhaustive(depth: usize, emit: &mut dyn FnMut(String)) {
    fn rec(prefix: &str, ops: &mut Vec<String>, depth: usize, emit: &mut dyn FnMut(String)) {
        if ops.len() == depth {
            emit(format!("worker {}{};K", prefix, ops.join(";")));
            return;
        }
        let t = ops.len() + 1;
        for w in [
            format!("F{}", t),
            format!("R{}", t),
            format!("T{}", t),
            format!("C1.1.{}", t),
            format!("H{}/1.1.9", t),
            "W1".to_string(),
            "K".to_string(),
        ] {
            ops.push(w);
            rec(prefix, ops, depth, emit);
            ops.pop();
        }
    }
    for prefix in ["", "S1;", "A1;", "A1;S1;"] {
        rec(prefix, &mut Vec::new(), depth, emit);
    }
}

fn random_case(rng: &mut Rng, len: usize) -> String {
    let (wf, wg, wt, wh, wc, wk) = *rng.pick(&[(3u64, 2u64, 3u64, 2u64, 3u64, 3u64), (1, 1, 6, 1, 4, 3), (4, 2, 1, 1, 1, 2), (1, 3, 3, 0, 6, 3), (0, 0, 5, 1, 5, 4)]);
    let mut tag = 0u64;
    let mut ops: Vec<String> = Vec::new();
    if rng.chance(1, 2) {
        ops.push("A1".into());
    }
    if rng.chance(2, 3) {
        ops.push("S1".into());
    }
    for _ in 0..len {
        let k = rng.below(wf + wg + wt + wh + wc + wk);
        ops.push(if k < wf {
            tag += 1;
            format!("{}{}", if rng.bool() { 'F' } else { 'R' }, tag)
        } else if k < wf + wg {
            tag += 1;
            let n = rng.below(3);
            let routes = if n == 0 { "-".to_string() } else { (0..n).map(|_| format!("{}.{}.{}", rng.range(1, 2), rng.range(1, 2), rng.range(1, 3))).collect::<Vec<_>>().join(",") };
            format!("{}{}/{}", if rng.bool() { 'G' } else { 'H' }, tag, routes)
        } else if k < wf + wg + wt {
            tag += 1;
            format!("T{}", tag)
        } else if k < wf + wg + wt + wh {
            format!("{}{}", if rng.bool() { 'U' } else { 'W' }, rng.range(1, 4))
        } else if k < wf + wg + wt + wh + wc {
            let n = rng.range(1, 3);
            format!(
                "C{}",
                (0..n)
                    .map(|_| format!("{}.{}.{}", rng.range(1, 2), rng.range(1, 2), if rng.chance(1, 3) { "x".to_string() } else { rng.range(1, 3).to_string() }))
                    .collect::<Vec<_>>()
                    .join(",")
            )
        } else {
            "K".into()
        });
    }
    ops.push("K".into());
    format!("worker {}", ops.join(";"))
}

pub fn generate(rng: &mut Rng, tier: Tier, emit: &mut dyn FnMut(String)) {
    let quick = tier == Tier::Quick;
    exhaustive(if quick { 3 } else { 4 }, emit);
    for _ in 0..(if quick { 500 } else { 6_000 }) {
        let len = rng.range(1, 14) as usize;
        emit(random_case(rng, len));
    }
}

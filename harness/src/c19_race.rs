//! C19, two OS threads: `stress` and `race` cases (see c19.rs). Uses only `hooks::channel()`, `MergeSender::merge`,
//! `MergeReceiver::recv` - the schedule is the machine's, the oracle is the property itself.
use crate::Ctx;
use crate::c19::hooks;
use crate::rng::Rng;
use std::future::Future;
use std::sync::Arc;
use std::sync::atomic::{AtomicUsize, Ordering};
use std::sync::mpsc;
use std::task::{Context, Poll, Wake, Waker};
use std::time::{Duration, Instant};

struct Job {
    tx: hooks::MergeSender,
    n: u64,
    pace: bool,
    seed: u64,
    /// stop merging (and drop) at this instant even if fewer than `n` updates were merged
    deadline: Option<Instant>,
}

/// A persistent producer thread: for each job merges `0..n` (optionally paced) and drops the sender at once.
pub struct Producer {
    jobs: Option<mpsc::Sender<Job>>,
    /// `Ok(k)`: merged `0..k` then dropped; `Err(x)`: `modify(x)` returned SendError
    results: mpsc::Receiver<Result<u64, u64>>,
    handle: Option<std::thread::JoinHandle<()>>,
}

impl Producer {
    pub fn new() -> Self {
        let (jtx, jrx) = mpsc::channel::<Job>();
        let (rtx, rrx) = mpsc::channel();
        let handle = std::thread::spawn(move || {
            while let Ok(Job { mut tx, n, pace, seed, deadline }) = jrx.recv() {
                let mut rng = Rng::new(seed);
                let mut res = Ok(n);
                for x in 0..n {
                    if x % 256 == 255 && deadline.is_some_and(|d| Instant::now() > d) {
                        res = Ok(x);
                        break;
                    }
                    if tx.merge(x).is_err() {
                        res = Err(x);
                        break;
                    }
                    if !pace {
                        continue;
                    }
                    // vary the producer's pace so that the consumer is sometimes parked, sometimes running
                    match rng.below(64) {
                        0 => std::thread::yield_now(),
                        1 => std::thread::sleep(Duration::from_micros(rng.below(60))),
                        2..=5 => {
                            for _ in 0..rng.below(200) {
                                std::hint::spin_loop();
                            }
                        }
                        _ => {}
                    }
                }
                drop(tx);
                if rtx.send(res).is_err() {
                    return;
                }
            }
        });
        Producer { jobs: Some(jtx), results: rrx, handle: Some(handle) }
    }
    fn start(&self, tx: hooks::MergeSender, n: u64, pace: bool, seed: u64, deadline: Option<Instant>) {
        self.jobs.as_ref().unwrap().send(Job { tx, n, pace, seed, deadline }).unwrap();
    }
    /// Number of updates the producer merged before dropping the sender.
    fn finish(&self, ctx: &mut Ctx) -> Option<u64> {
        match self.results.recv_timeout(Duration::from_secs(30)) {
            Ok(Ok(k)) => Some(k),
            Ok(Err(x)) => {
                ctx.fail(format!("modify({}) returned SendError while the receiver is alive", x));
                None
            }
            Err(_) => {
                ctx.fail("producer did not finish");
                None
            }
        }
    }
}

impl Drop for Producer {
    fn drop(&mut self) {
        self.jobs = None;
        if let Some(h) = self.handle.take() {
            let _ = h.join();
        }
    }
}

/// Checks one received value against the expected stream position.
fn account(v: Vec<u64>, next: &mut u64, problems: &mut Vec<String>) {
    if v.is_empty() {
        problems.push("empty value received".into());
    }
    for x in v {
        if x != *next && problems.len() < 3 {
            problems.push(format!("expected update {} next, received {} (lost / duplicated / reordered)", next, x));
        }
        *next = x + 1;
    }
}

fn conclude(next: u64, problems: Vec<String>, prod: &Producer, ctx: &mut Ctx) -> Option<u64> {
    for p in problems {
        ctx.fail(p);
    }
    if let Some(merged) = prod.finish(ctx) {
        if next != merged {
            ctx.fail(format!("None received after updates 0..{}, but 0..{} were merged before the drop", next, merged));
        }
    }
    Some(next)
}

/// The consumer is a task on a current-thread tokio runtime: it really parks, so a lost wake-up is a hang.
/// mode 0: plain `recv().await` loop; 1 / 2: `recv` inside a `select!` that keeps cancelling and restarting it.
fn tokio_round(
    rt: &tokio::runtime::Runtime,
    prod: &Producer,
    n: u64,
    mode: u64,
    seed: u64,
    pace: bool,
    deadline: Option<Instant>,
    ctx: &mut Ctx,
) -> Option<u64> {
    let (tx, mut rx) = hooks::channel();
    prod.start(tx, n, pace, seed, deadline);
    let consumer = async {
        let mut next = 0u64; // the next update expected
        let mut problems: Vec<String> = Vec::new();
        loop {
            let got = if mode == 1 {
                tokio::select! {
                    biased;
                    v = rx.recv() => v,
                    _ = tokio::task::yield_now() => continue,
                }
            } else if mode == 2 {
                tokio::select! {
                    v = rx.recv() => v,
                    _ = tokio::time::sleep(Duration::from_micros(30)) => continue,
                }
            } else {
                rx.recv().await
            };
            match got {
                Some(v) => account(v, &mut next, &mut problems),
                None => break,
            }
        }
        (next, problems)
    };
    let limit = Duration::from_secs(if pace { 20 } else { 4 } + n / 20_000);
    match rt.block_on(async { tokio::time::timeout(limit, consumer).await }) {
        Err(_) => {
            ctx.fail(format!("consumer did not finish within {} s: lost wake-up (hang)", limit.as_secs()));
            None
        }
        Ok((next, problems)) => conclude(next, problems, prod, ctx),
    }
}

struct CountWaker(AtomicUsize);

impl Wake for CountWaker {
    fn wake(self: Arc<Self>) {
        self.0.fetch_add(1, Ordering::SeqCst);
    }
    fn wake_by_ref(self: &Arc<Self>) {
        self.0.fetch_add(1, Ordering::SeqCst);
    }
}

/// The consumer busy-polls `recv()` by hand, so it is always somewhere inside `recv` while the producer runs:
/// this is what exercises the windows between `enable()`, the two `take()`s and the flag load.
/// `keep = false`: every `Pending` future is dropped and a new one created (cancel / restart);
/// `keep = true`: the same future is re-polled; if it turns `Ready` after a `Pending`, the waker stored by that
/// `Pending` must have been woken (no lost wake-up).
fn spin_round(prod: &Producer, n: u64, keep: bool, ctx: &mut Ctx) -> Option<u64> {
    let (tx, mut rx) = hooks::channel();
    let cw = Arc::new(CountWaker(AtomicUsize::new(0)));
    let waker = Waker::from(cw.clone());
    let mut cx = Context::from_waker(&waker);
    prod.start(tx, n, false, 0, None);
    let mut next = 0u64;
    let mut problems: Vec<String> = Vec::new();
    let t0 = Instant::now();
    let mut polls = 0u64;
    'outer: loop {
        let mut fut = std::pin::pin!(rx.recv());
        let mut pending_since: Option<usize> = None; // wake count read before the first poll that returned Pending
        loop {
            let before = cw.0.load(Ordering::SeqCst);
            let res = fut.as_mut().poll(&mut cx);
            if let (Poll::Ready(_), Some(w)) = (&res, pending_since) {
                // the waker was registered by a poll that began at count `w`; notify_one wakes it (possibly a
                // moment after marking the future notified)
                let t = Instant::now();
                while cw.0.load(Ordering::SeqCst) == w {
                    if t.elapsed() > Duration::from_secs(2) {
                        problems.push("recv turned Ready after Pending but the stored waker was never woken (lost wake-up)".into());
                        break;
                    }
                    std::hint::spin_loop();
                }
            }
            match res {
                Poll::Ready(Some(v)) => {
                    account(v, &mut next, &mut problems);
                    break;
                }
                Poll::Ready(None) => break 'outer,
                Poll::Pending => {
                    polls += 1;
                    if polls % 1024 == 0 && t0.elapsed() > Duration::from_secs(10) {
                        ctx.fail("busy-polling consumer saw neither a value nor None for 10 s");
                        return None;
                    }
                    if keep {
                        pending_since.get_or_insert(before);
                    } else {
                        break;
                    }
                }
            }
        }
    }
    conclude(next, problems, prod, ctx)
}

pub fn run_stress(n: u64, mode: u64, seed: u64, ctx: &mut Ctx) -> String {
    let rt = tokio::runtime::Builder::new_current_thread().enable_time().build().unwrap();
    let prod = Producer::new();
    // wall-clock budget: on a loaded machine the producer merges fewer than `n` updates instead of taking longer
    let deadline = Instant::now() + Duration::from_millis(200 + n / 100);
    match tokio_round(&rt, &prod, n, mode, seed, true, Some(deadline), ctx) {
        None => "hang".into(),
        Some(_) if !ctx.oracle_failures.is_empty() => "stream broken".into(),
        Some(_) => "stream-complete in-order none-last".into(),
    }
}

/// `reps` rounds of a tiny stream (`n` merges, then the drop at once): exercises the end-of-stream windows
/// (merge_channel.rs:162-170 against 110-128) `reps` times. One round in eight parks on a tokio runtime (a lost
/// wake-up is a hang), the others busy-poll. Stops early when the wall-clock budget is used up.
pub fn run_race(reps: u64, n: u64, _seed: u64, ctx: &mut Ctx) -> String {
    let rt = tokio::runtime::Builder::new_current_thread().enable_time().build().unwrap();
    let prod = Producer::new();
    // wall-clock budget so that a loaded machine does fewer rounds instead of taking longer (unloaded, the
    // rounds need about a fifth of it)
    let budget = Duration::from_millis(200 + reps / 8);
    let t0 = Instant::now();
    for r in 0..reps {
        let res = match r % 8 {
            0 => tokio_round(&rt, &prod, n, 0, r, false, None, ctx),
            4 => tokio_round(&rt, &prod, n, 1, r, false, None, ctx),
            k => spin_round(&prod, n, k % 2 == 1, ctx),
        };
        if res.is_none() {
            return "hang".into();
        }
        if !ctx.oracle_failures.is_empty() {
            return format!("round {} failed", r);
        }
        if r % 64 == 63 && t0.elapsed() > budget {
            break;
        }
    }
    format!("every-round each=0..{} in-order none-last", n)
}

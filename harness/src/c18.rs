//! C18 — client-side timestamps from the monotonic generator strictly increase.
use crate::rng::Rng;
use crate::{Ctx, Tier};
use scylla::policies::timestamp_generator::{MonotonicTimestampGenerator, TimestampGenerator};
use scylla::verif_hooks::clock;
use std::sync::{Arc, Barrier};

const BASE: u64 = 1_700_000_000_000_000; // a plausible "now" in µs

fn script(rng: &mut Rng, len: usize) -> Vec<Option<u64>> {
    let mut cur = match rng.below(4) {
        0 => rng.below(50),
        _ => BASE + rng.below(1000),
    };
    let shape = rng.below(7);
    let mut v = Vec::with_capacity(len);
    for i in 0..len {
        let e = match shape {
            0 => { cur += 1 + rng.below(3); Some(cur) }                     // monotone
            1 => Some(cur),                                                    // stalled
            2 => { cur += rng.below(2); Some(cur) }                          // µs granularity: repeats
            3 => { if i % 5 == 4 { cur = cur.saturating_sub(1 + rng.below(2_000_000)); } else { cur += rng.below(4); } Some(cur) } // backwards jumps
            4 => { if rng.chance(1, 4) { None } else { cur += rng.below(3); Some(cur) } } // pre-epoch readings mixed in
            5 => { cur = if i % 2 == 0 { cur + 10 } else { cur.saturating_sub(7) }; Some(cur) } // sawtooth
            _ => Some(match rng.below(5) { 0 => 0, 1 => 1, 2 => (1u64 << 62) - 1, 3 => (1u64 << 61) + rng.below(5), _ => BASE + rng.below(10) }),
        };
        v.push(e);
    }
    v
}

fn fmt_script(s: &[Option<u64>]) -> String {
    if s.is_empty() {
        return "-".into();
    }
    s.iter().map(|e| e.map(|u| u.to_string()).unwrap_or_else(|| "n".into())).collect::<Vec<_>>().join(",")
}

pub fn generate(rng: &mut Rng, tier: Tier, emit: &mut dyn FnMut(String)) {
    let scale = if tier == Tier::Quick { 1 } else { 20 };
    emit("seq 3 -".into());
    for _ in 0..3000 * scale {
        let calls = 1 + rng.below(40) as usize;
        let slen = rng.below(calls as u64 + 3) as usize;
        let s = script(rng, slen);
        emit(format!("seq {} {}", calls, fmt_script(&s)));
    }
    for _ in 0..150 * scale {
        let threads = 2 + rng.below(7) as usize;
        let calls = match rng.below(3) { 0 => 10, 1 => 200, _ => 2000 };
        // identical scripts across threads maximise CAS contention; otherwise independent ones
        let same = rng.bool();
        let first_len = 1 + rng.below(30) as usize;
        let first = script(rng, first_len);
        let scripts: Vec<String> = (0..threads)
            .map(|_| if same { fmt_script(&first) } else { let n = 1 + rng.below(30) as usize; fmt_script(&script(rng, n)) })
            .collect();
        emit(format!("mt {} {}", calls, scripts.join("|")));
    }
}

fn parse_script(s: &str) -> Vec<Option<u64>> {
    if s == "-" {
        return vec![];
    }
    s.split(',').map(|w| if w == "n" { None } else { Some(w.parse().unwrap()) }).collect()
}

fn join(vs: &[i64]) -> String {
    if vs.is_empty() { "-".into() } else { vs.iter().map(|v| v.to_string()).collect::<Vec<_>>().join(",") }
}

fn check_strict(vs: &[i64], what: &str, ctx: &mut Ctx) {
    for w in vs.windows(2) {
        if w[1] <= w[0] {
            ctx.fail(format!("{}: timestamp {} handed out after {} (not strictly increasing)", what, w[1], w[0]));
            return;
        }
    }
}

pub fn run(case: &str, ctx: &mut Ctx) -> String {
    let w: Vec<&str> = case.split_whitespace().collect();
    match w[0] {
        "seq" => {
            let calls: usize = w[1].parse().unwrap();
            let script = parse_script(w[2]);
            // alternate between the warning-enabled and warning-free generator (same arithmetic)
            let generator = if calls % 2 == 0 { MonotonicTimestampGenerator::new() } else { MonotonicTimestampGenerator::new().without_warnings() };
            clock::install(script);
            let vs: Vec<i64> = (0..calls).map(|_| generator.next_timestamp()).collect();
            clock::uninstall();
            check_strict(&vs, "single thread", ctx);
            join(&vs)
        }
        "mt" => {
            let calls: usize = w[1].parse().unwrap();
            let scripts: Vec<Vec<Option<u64>>> = w[2].split('|').map(parse_script).collect();
            let generator = Arc::new(MonotonicTimestampGenerator::new().without_warnings());
            let barrier = Arc::new(Barrier::new(scripts.len()));
            let handles: Vec<_> = scripts
                .into_iter()
                .map(|s| {
                    let g = Arc::clone(&generator);
                    let b = Arc::clone(&barrier);
                    std::thread::spawn(move || {
                        clock::install(s);
                        b.wait();
                        let vs: Vec<i64> = (0..calls).map(|_| g.next_timestamp()).collect();
                        clock::uninstall();
                        vs
                    })
                })
                .collect();
            let per_thread: Vec<Vec<i64>> = handles.into_iter().map(|h| h.join().unwrap()).collect();
            for (t, vs) in per_thread.iter().enumerate() {
                check_strict(vs, &format!("thread {}", t), ctx);
            }
            let mut all: Vec<i64> = per_thread.iter().flatten().copied().collect();
            all.sort_unstable();
            if all.windows(2).any(|w| w[0] == w[1]) {
                ctx.fail("the same timestamp was handed out twice by one generator");
            }
            per_thread.iter().map(|vs| join(vs)).collect::<Vec<_>>().join("|")
        }
        _ => "bad-case".into(),
    }
}

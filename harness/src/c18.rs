//! C18 — client-side timestamps from the monotonic generator strictly increase.
use crate::rng::Rng;
use crate::{Ctx, Tier};
use scylla::policies::timestamp_generator::{MonotonicTimestampGenerator, TimestampGenerator};
use scylla::verif_hooks::clock;
use std::panic::{AssertUnwindSafe, catch_unwind};
use std::sync::atomic::{AtomicUsize, Ordering};
use std::sync::{Arc, Barrier};
use std::time::{Duration, Instant};

const BASE: u64 = 1_700_000_000_000_000; // a plausible "now" in µs

fn script(rng: &mut Rng, len: usize) -> Vec<Option<u64>> {
    let mut cur = match rng.below(4) {
        0 => rng.below(50),
        _ => BASE + rng.below(1000),
    };
    let shape = rng.below(7);
    let mut v = Vec::with_capacity(len);
    for i in 0..len {
        let e = match shape {
            0 => { cur += 1 + rng.below(3); Some(cur) }                     // monotone
            1 => Some(cur),                                                    // stalled
            2 => { cur += rng.below(2); Some(cur) }                          // µs granularity: repeats
            3 => { if i % 5 == 4 { cur = cur.saturating_sub(1 + rng.below(2_000_000)); } else { cur += rng.below(4); } Some(cur) } // backwards jumps
            4 => { if rng.chance(1, 4) { None } else { cur += rng.below(3); Some(cur) } } // pre-epoch readings mixed in
            5 => { cur = if i % 2 == 0 { cur + 10 } else { cur.saturating_sub(7) }; Some(cur) } // sawtooth
            _ => Some(match rng.below(5) { 0 => 0, 1 => 1, 2 => (1u64 << 62) - 1, 3 => (1u64 << 61) + rng.below(5), _ => BASE + rng.below(10) }),
        };
        v.push(e);
    }
    v
}

fn fmt_script(s: &[Option<u64>]) -> String {
    if s.is_empty() {
        return "-".into();
    }
    s.iter().map(|e| e.map(|u| u.to_string()).unwrap_or_else(|| "n".into())).collect::<Vec<_>>().join(",")
}

/// The cases are emitted with the (expensive) multi-thread kinds spread evenly among the single-thread ones, so that
/// the runner's contiguous chunks take similar time.
pub fn generate(rng: &mut Rng, tier: Tier, emit: &mut dyn FnMut(String)) {
    let mut lines: Vec<String> = Vec::new();
    generate_all(rng, tier, &mut |l| lines.push(l));
    let (heavy, light): (Vec<String>, Vec<String>) = lines.into_iter().partition(|l| l.starts_with("mt"));
    let every = (light.len() / heavy.len().max(1)).max(1);
    let mut heavy = heavy.into_iter();
    for (i, l) in light.into_iter().enumerate() {
        if i % every == 0 {
            if let Some(h) = heavy.next() {
                emit(h);
            }
        }
        emit(l);
    }
    for h in heavy {
        emit(h);
    }
}

fn generate_all(rng: &mut Rng, tier: Tier, emit: &mut dyn FnMut(String)) {
    let scale = if tier == Tier::Quick { 1 } else { 20 };
    emit("seq 3 -".into());
    for _ in 0..3000 * scale {
        let calls = 1 + rng.below(40) as usize;
        let slen = rng.below(calls as u64 + 3) as usize;
        let s = script(rng, slen);
        emit(format!("seq {} {}", calls, fmt_script(&s)));
    }
    for _ in 0..150 * scale {
        let threads = 2 + rng.below(7) as usize;
        let calls = match rng.below(3) { 0 => 10, 1 => 200, _ => 2000 };
        // identical scripts across threads maximise CAS contention; otherwise independent ones
        let same = rng.bool();
        let first_len = 1 + rng.below(30) as usize;
        let first = script(rng, first_len);
        let scripts: Vec<String> = (0..threads)
            .map(|_| if same { fmt_script(&first) } else { let n = 1 + rng.below(30) as usize; fmt_script(&script(rng, n)) })
            .collect();
        emit(format!("mt {} {}", calls, scripts.join("|")));
    }
    // ---- the warning arm of compute_next (lines 109-130): generators built with `with_warning_times`
    const W_SEQ: &[&str] = &[
        "0/0", "0/0", "0/0", "1/0", "1/0", "2/0", "1000000/0", "9223372036854775807/0", "9223372036854775808/0", "18446744073709551615/0",
        "d", "-", "0/1", "1/1000", "0/1000000000", "0/max", "1/max", "1000000/max",
    ];
    emit("seqw 0/0 5 10,10,7,n,3".into());
    emit("seqw 1/0 6 10,10,9,8,n,100".into());
    emit("seqw 0/max 5 10,5,20,5,30".into());
    for _ in 0..2500 * scale {
        let calls = 1 + rng.below(40) as usize;
        let slen = rng.below(calls as u64 + 3) as usize;
        let s = script(rng, slen);
        emit(format!("seqw {} {} {}", rng.pick(W_SEQ), calls, fmt_script(&s)));
    }
    const W_MT: &[&str] = &["0/0", "0/0", "1/0", "1/0", "1000000/0", "d", "0/1", "9223372036854775808/0"];
    for _ in 0..60 * scale {
        let threads = 2 + rng.below(7) as usize;
        let calls = match rng.below(3) { 0 => 10, 1 => 200, _ => 1000 };
        let same = rng.bool();
        let first_len = 1 + rng.below(30) as usize;
        let first = script(rng, first_len);
        let scripts: Vec<String> = (0..threads)
            .map(|_| if same { fmt_script(&first) } else { let n = 1 + rng.below(30) as usize; fmt_script(&script(rng, n)) })
            .collect();
        emit(format!("mtw {} {} {}", rng.pick(W_MT), calls, scripts.join("|")));
    }
    // ---- paced rounds under a scripted clock: in every round ALL threads read the same value, mostly one far ahead
    // of `last` (so that every thread sees a genuine clock reading ahead of the counter, not the last+1 path)
    const W_P: &[&str] = &["-", "-", "0/0", "1/0", "d"];
    for _ in 0..60 * scale {
        let threads = 2 + rng.below(7);
        let per = 1 + rng.below(3);
        let rounds = 20 + rng.below(130) as usize;
        let mut cur = if rng.chance(1, 5) { rng.below(40) } else { BASE + rng.below(1000) };
        let mut readings = Vec::with_capacity(rounds);
        for _ in 0..rounds {
            let e = match rng.below(20) {
                0 | 1 => Some(cur),                                                          // stalled: every thread takes last+1
                2 => { cur = cur.saturating_sub(1 + rng.below(3_000_000)); Some(cur) }       // the clock steps back
                3 => None,                                                                   // before the epoch
                4 => { cur += 1 + rng.below(threads * per + 2); Some(cur) }                  // ahead of some threads only
                _ => { cur += threads * per + 2 + rng.below(5000); Some(cur) }               // far ahead of `last` for every thread
            };
            readings.push(e);
        }
        emit(format!("mtp {} {} {} {}", rng.pick(W_P), threads, per, fmt_script(&readings)));
    }
    // ---- the timed branch `now >= last_warning + interval`, deterministically: a PAUSED tokio clock (the generator uses
    // tokio::time::Instant), advanced by explicit amounts before each call
    emit("seqt 0/5 0,4,1,0,5,4,1 9,9,9,9,9,9,9".into());
    for _ in 0..1200 * scale {
        let calls = 1 + rng.below(30) as usize;
        let ivl = *rng.pick(&[1u64, 2, 1000, 1_000_000, 1_000_000_000, 0]);
        let w = if rng.chance(1, 12) { "d".to_owned() } else { format!("{}/{}", rng.pick(&[0u64, 0, 1, 2, 1_000_000]), ivl) };
        let ivl = if w == "d" { 1_000_000_000 } else { ivl };
        let advs: Vec<String> = (0..calls)
            .map(|_| match rng.below(8) { 0 => 0, 1 => 1, 2 => ivl.saturating_sub(1), 3 => ivl, 4 => ivl + 1, 5 => ivl / 2, 6 => rng.below(2 * ivl + 2), _ => 0 }.to_string())
            .collect();
        // skew-heavy scripts: the clock mostly stands still or steps back, so most calls are eligible to warn
        let mut cur = BASE + rng.below(1000);
        let script: Vec<Option<u64>> = (0..calls)
            .map(|i| {
                if i > 0 {
                    match rng.below(10) { 0 => cur += 5_000_000, 1 | 2 | 3 => cur = cur.saturating_sub(rng.below(3_000_000)), 4 => return None, _ => {} }
                }
                Some(cur)
            })
            .collect();
        emit(format!("seqt {} {} {}", w, advs.join(","), fmt_script(&script)));
    }
    // ---- the statement API: set / get / clone / append on a real Statement and on Batches of every type
    for k in ["st", "bl", "bu", "bc", "wl", "wu", "wc"] {
        emit(format!("api {} g.s5.g.c.g.a.g.sn.g.s-7.g", k));
    }
    for _ in 0..600 * scale {
        let kind = *rng.pick(&["st", "bl", "bu", "bc", "bc", "wl", "wu", "wc", "wc"]);
        let n = 2 + rng.below(9);
        let mut ops: Vec<String> = Vec::new();
        for _ in 0..n {
            ops.push(match rng.below(8) { 0 | 1 | 2 => format!("s{}", rng.i64_boundary()), 3 => "sn".into(), 4 => "c".into(), 5 => "a".into(), _ => "g".into() });
        }
        ops.push("g".into());
        emit(format!("api {} {}", kind, ops.join(".")));
    }
    // ---- paced rounds on the REAL clock (the busy-wait lets the clock get ahead of the counter)
    for _ in 0..40 * scale {
        emit(format!(
            "mtreal {} {} {} {} {}",
            rng.pick(&["-", "d", "0/0", "d"]),
            2 + rng.below(7),
            60 + rng.below(240),
            1 + rng.below(2),
            *rng.pick(&[0u64, 3, 10, 20, 20, 40, 80])
        ));
    }
    // paged executions (c18_page.rs); generated last, so the cases of the other kinds stay what they were
    crate::c18_page::generate(rng, tier, emit);
}

/// warnings word: `-` without_warnings, `d` new(), `<thr_us>/<ivl_ns>` | `<thr_us>/max` with_warning_times
#[derive(Clone, Copy, PartialEq)]
enum Warn {
    Off,
    Default,
    Times(u64, Option<u64>),
}

fn parse_warn(s: &str) -> Option<Warn> {
    match s {
        "-" => Some(Warn::Off),
        "d" => Some(Warn::Default),
        _ => {
            let (t, i) = s.split_once('/')?;
            let t = t.parse().ok()?;
            if i == "max" { Some(Warn::Times(t, None)) } else { Some(Warn::Times(t, Some(i.parse().ok()?))) }
        }
    }
}

fn build(w: Warn) -> MonotonicTimestampGenerator {
    match w {
        Warn::Off => MonotonicTimestampGenerator::new().without_warnings(),
        Warn::Default => MonotonicTimestampGenerator::new(),
        Warn::Times(t, Some(i)) => MonotonicTimestampGenerator::new().with_warning_times(Duration::from_micros(t), Duration::from_nanos(i)),
        Warn::Times(t, None) => MonotonicTimestampGenerator::new().with_warning_times(Duration::from_micros(t), Duration::MAX),
    }
}

/// Counts the `warn!` events of timestamp_generator.rs (thread-scoped tracing subscriber).
#[derive(Default)]
struct WarnCount {
    epoch: AtomicUsize,
    skew: AtomicUsize,
}

struct WarnSub(Arc<WarnCount>);

impl tracing::Subscriber for WarnSub {
    fn enabled(&self, m: &tracing::Metadata<'_>) -> bool {
        *m.level() == tracing::Level::WARN && m.target().starts_with("scylla::policies::timestamp_generator")
    }
    fn new_span(&self, _: &tracing::span::Attributes<'_>) -> tracing::span::Id {
        tracing::span::Id::from_u64(1)
    }
    fn record(&self, _: &tracing::span::Id, _: &tracing::span::Record<'_>) {}
    fn record_follows_from(&self, _: &tracing::span::Id, _: &tracing::span::Id) {}
    fn event(&self, e: &tracing::Event<'_>) {
        struct V(bool);
        impl tracing::field::Visit for V {
            fn record_debug(&mut self, f: &tracing::field::Field, v: &dyn std::fmt::Debug) {
                if f.name() == "message" && format!("{:?}", v).contains("UNIX epoch") {
                    self.0 = true;
                }
            }
        }
        let mut v = V(false);
        e.record(&mut v);
        if v.0 { self.0.epoch.fetch_add(1, Ordering::SeqCst) } else { self.0.skew.fetch_add(1, Ordering::SeqCst) };
    }
    fn enter(&self, _: &tracing::span::Id) {}
    fn exit(&self, _: &tracing::span::Id) {}
}

/// Sense-reversing spin barrier (std's Barrier parks the threads: they wake microseconds apart). Yields after a while
/// so that it also makes progress on an oversubscribed machine; gives up after 300 s (a peer died).
struct SpinBarrier {
    n: usize,
    count: AtomicUsize,
    generation: AtomicUsize,
}

impl SpinBarrier {
    fn new(n: usize) -> Self {
        SpinBarrier { n, count: AtomicUsize::new(0), generation: AtomicUsize::new(0) }
    }
    fn wait(&self) -> bool {
        let g = self.generation.load(Ordering::SeqCst);
        if self.count.fetch_add(1, Ordering::SeqCst) + 1 == self.n {
            self.count.store(0, Ordering::SeqCst);
            self.generation.fetch_add(1, Ordering::SeqCst);
            return true;
        }
        let mut spins = 0u64;
        let mut started: Option<Instant> = None;
        while self.generation.load(Ordering::SeqCst) == g {
            spins += 1;
            if spins < 400 {
                std::hint::spin_loop();
            } else {
                // (short spin: on an oversubscribed machine the thread waited for may not even be running)
                std::thread::yield_now();
                if spins % 1024 == 0 && started.get_or_insert_with(Instant::now).elapsed() > Duration::from_secs(300) {
                    return false;
                }
            }
        }
        true
    }
}

/// ORACLE of every multi-thread kind, on the implementation's own output (C18's statement): along each thread's own
/// calls strictly increasing, and pairwise distinct across all threads.
fn judge_threads(per_thread: &[Vec<i64>], ctx: &mut Ctx) {
    for (t, vs) in per_thread.iter().enumerate() {
        check_strict(vs, &format!("thread {}", t), ctx);
    }
    let mut all: Vec<(i64, usize)> = per_thread.iter().enumerate().flat_map(|(t, vs)| vs.iter().map(move |v| (*v, t))).collect();
    all.sort_unstable();
    if let Some(w) = all.windows(2).find(|w| w[0].0 == w[1].0) {
        ctx.fail(format!("the same timestamp was handed out twice by one generator: {} to thread {} and to thread {}", w[0].0, w[0].1, w[1].1));
    }
}

fn join_threads(per_thread: &[Vec<i64>]) -> String {
    per_thread.iter().map(|vs| join(vs)).collect::<Vec<_>>().join("|")
}

/// `threads` threads on one generator; `work(t, generator)` runs inside the warn-counting subscriber.
fn run_threads(warn: Warn, threads: usize, work: Arc<dyn Fn(usize, &MonotonicTimestampGenerator) -> Vec<i64> + Send + Sync>) -> (Vec<Vec<i64>>, Arc<WarnCount>) {
    let generator = Arc::new(build(warn));
    let counts = Arc::new(WarnCount::default());
    let handles: Vec<_> = (0..threads)
        .map(|t| {
            let g = Arc::clone(&generator);
            let c = Arc::clone(&counts);
            let work = Arc::clone(&work);
            std::thread::spawn(move || {
                let dispatch = tracing::Dispatch::new(WarnSub(c));
                tracing::dispatcher::with_default(&dispatch, || work(t, &g))
            })
        })
        .collect();
    let per_thread = handles.into_iter().map(|h| h.join().unwrap()).collect();
    (per_thread, counts)
}

fn with_counts(vals: String, c: &WarnCount) -> String {
    format!("{} we={} ws={}", vals, c.epoch.load(Ordering::SeqCst), c.skew.load(Ordering::SeqCst))
}

fn parse_script(s: &str) -> Vec<Option<u64>> {
    if s == "-" {
        return vec![];
    }
    s.split(',').map(|w| if w == "n" { None } else { Some(w.parse().unwrap()) }).collect()
}

fn join(vs: &[i64]) -> String {
    if vs.is_empty() { "-".into() } else { vs.iter().map(|v| v.to_string()).collect::<Vec<_>>().join(",") }
}

fn check_strict(vs: &[i64], what: &str, ctx: &mut Ctx) {
    for w in vs.windows(2) {
        if w[1] <= w[0] {
            ctx.fail(format!("{}: timestamp {} handed out after {} (not strictly increasing)", what, w[1], w[0]));
            return;
        }
    }
}

pub fn run(case: &str, ctx: &mut Ctx) -> String {
    let w: Vec<&str> = case.split_whitespace().collect();
    match w[0] {
        // paged executions on one hooked connection (c18_page.rs)
        "page" => crate::c18_page::run(&w, ctx),
        "seq" => {
            let calls: usize = w[1].parse().unwrap();
            let script = parse_script(w[2]);
            // alternate between the warning-enabled and warning-free generator (same arithmetic)
            let generator = if calls % 2 == 0 { MonotonicTimestampGenerator::new() } else { MonotonicTimestampGenerator::new().without_warnings() };
            clock::install(script);
            let vs: Vec<i64> = (0..calls).map(|_| generator.next_timestamp()).collect();
            clock::uninstall();
            check_strict(&vs, "single thread", ctx);
            join(&vs)
        }
        "mt" => {
            let calls: usize = w[1].parse().unwrap();
            let scripts: Vec<Vec<Option<u64>>> = w[2].split('|').map(parse_script).collect();
            let generator = Arc::new(MonotonicTimestampGenerator::new().without_warnings());
            let barrier = Arc::new(Barrier::new(scripts.len()));
            let handles: Vec<_> = scripts
                .into_iter()
                .map(|s| {
                    let g = Arc::clone(&generator);
                    let b = Arc::clone(&barrier);
                    std::thread::spawn(move || {
                        clock::install(s);
                        b.wait();
                        let vs: Vec<i64> = (0..calls).map(|_| g.next_timestamp()).collect();
                        clock::uninstall();
                        vs
                    })
                })
                .collect();
            let per_thread: Vec<Vec<i64>> = handles.into_iter().map(|h| h.join().unwrap()).collect();
            for (t, vs) in per_thread.iter().enumerate() {
                check_strict(vs, &format!("thread {}", t), ctx);
            }
            let mut all: Vec<i64> = per_thread.iter().flatten().copied().collect();
            all.sort_unstable();
            if all.windows(2).any(|w| w[0] == w[1]) {
                ctx.fail("the same timestamp was handed out twice by one generator");
            }
            per_thread.iter().map(|vs| join(vs)).collect::<Vec<_>>().join("|")
        }
        "seqw" if w.len() == 4 => {
            let (Some(warn), Ok(calls)) = (parse_warn(w[1]), w[2].parse::<usize>()) else { return "bad-case".into() };
            let script = parse_script(w[3]);
            let generator = build(warn);
            let counts = Arc::new(WarnCount::default());
            let dispatch = tracing::Dispatch::new(WarnSub(Arc::clone(&counts)));
            clock::install(script);
            // per call: the value, or None = the call panicked (it returns nothing)
            let res: Vec<Option<i64>> = tracing::dispatcher::with_default(&dispatch, || {
                (0..calls).map(|_| catch_unwind(AssertUnwindSafe(|| generator.next_timestamp())).ok()).collect()
            });
            clock::uninstall();
            let vs: Vec<i64> = res.iter().flatten().copied().collect();
            check_strict(&vs, "single thread, warnings configured", ctx);
            // the domain of `no_panic_in_domain`: last_warning + interval representable (everything but Duration::MAX here)
            if !matches!(warn, Warn::Times(_, None)) && res.iter().any(|r| r.is_none()) {
                ctx.fail(format!(
                    "next_timestamp() panicked on call #{} although last_warning + warning_interval is representable (no timestamp handed out for a stalled / backwards clock)",
                    res.iter().position(|r| r.is_none()).unwrap()
                ));
            }
            let vals = if res.is_empty() { "-".to_owned() } else { res.iter().map(|r| r.map_or("P".to_owned(), |v| v.to_string())).collect::<Vec<_>>().join(",") };
            with_counts(vals, &counts)
        }
        "seqt" if w.len() == 4 => {
            let Some(warn) = parse_warn(w[1]) else { return "bad-case".into() };
            let Some(advs) = w[2].split(',').map(|a| a.parse::<u64>().ok()).collect::<Option<Vec<u64>>>() else { return "bad-case".into() };
            let script = parse_script(w[3]);
            let counts = Arc::new(WarnCount::default());
            let dispatch = tracing::Dispatch::new(WarnSub(Arc::clone(&counts)));
            // paused clock: tokio::time::Instant::now() (what compute_next reads, timestamp_generator.rs:12, 114) moves only
            // when advanced
            let rt = tokio::runtime::Builder::new_current_thread().enable_time().start_paused(true).build().unwrap();
            let res: Vec<Option<i64>> = tracing::dispatcher::with_default(&dispatch, || {
                rt.block_on(async {
                    let generator = build(warn);
                    clock::install(script);
                    let mut res = Vec::with_capacity(advs.len());
                    for a in &advs {
                        tokio::time::advance(Duration::from_nanos(*a)).await;
                        res.push(catch_unwind(AssertUnwindSafe(|| generator.next_timestamp())).ok());
                    }
                    clock::uninstall();
                    res
                })
            });
            let vs: Vec<i64> = res.iter().flatten().copied().collect();
            check_strict(&vs, "single thread, warnings configured, paused clock", ctx);
            if !matches!(warn, Warn::Times(_, None)) && res.iter().any(|r| r.is_none()) {
                ctx.fail("next_timestamp() panicked although last_warning + warning_interval is representable");
            }
            let vals = if res.is_empty() { "-".to_owned() } else { res.iter().map(|r| r.map_or("P".to_owned(), |v| v.to_string())).collect::<Vec<_>>().join(",") };
            with_counts(vals, &counts)
        }
        "api" if w.len() == 3 => {
            use scylla::statement::batch::{Batch, BatchType};
            use scylla::statement::unprepared::Statement;
            enum Obj {
                St(Statement),
                B(Batch),
            }
            let text = "INSERT INTO ks.t (pk, v) VALUES (?, ?)";
            let with = |ty| Obj::B(Batch::new_with_statements(ty, vec![Statement::new(text).into()]));
            let (mut obj, what) = match w[1] {
                "st" => (Obj::St(Statement::new(text)), "Statement"),
                "bl" => (Obj::B(Batch::new(BatchType::Logged)), "Logged Batch"),
                "bu" => (Obj::B(Batch::new(BatchType::Unlogged)), "Unlogged Batch"),
                "bc" => (Obj::B(Batch::new(BatchType::Counter)), "Counter Batch"),
                "wl" => (with(BatchType::Logged), "Logged Batch (new_with_statements)"),
                "wu" => (with(BatchType::Unlogged), "Unlogged Batch (new_with_statements)"),
                "wc" => (with(BatchType::Counter), "Counter Batch (new_with_statements)"),
                _ => return "bad-case".into(),
            };
            // ORACLE (C18: "a timestamp set explicitly ... unchanged"): get returns what was set last (None on a fresh value)
            let mut expected: Option<i64> = None;
            let mut gets: Vec<String> = Vec::new();
            for op in w[2].split('.') {
                match op {
                    "g" => {
                        let got = match &obj {
                            Obj::St(s) => s.get_timestamp(),
                            Obj::B(b) => b.get_timestamp(),
                        };
                        if got != expected {
                            ctx.fail(format!("{}: set_timestamp({:?}) was the last set, get_timestamp() returns {:?}", what, expected, got));
                        }
                        gets.push(got.map_or("n".to_owned(), |v| v.to_string()));
                    }
                    "c" => {
                        obj = match &obj {
                            Obj::St(s) => Obj::St(s.clone()),
                            Obj::B(b) => Obj::B(b.clone()),
                        }
                    }
                    "a" => {
                        if let Obj::B(b) = &mut obj {
                            b.append_statement(Statement::new(text));
                        }
                    }
                    _ => {
                        let t = if op == "sn" {
                            None
                        } else {
                            match op.strip_prefix('s').and_then(|v| v.parse::<i64>().ok()) {
                                Some(v) => Some(v),
                                None => return "bad-case".into(),
                            }
                        };
                        expected = t;
                        match &mut obj {
                            Obj::St(s) => s.set_timestamp(t),
                            Obj::B(b) => b.set_timestamp(t),
                        }
                    }
                }
            }
            if gets.is_empty() { "-".into() } else { gets.join(",") }
        }
        "mtw" if w.len() == 4 => {
            let (Some(warn), Ok(calls)) = (parse_warn(w[1]), w[2].parse::<usize>()) else { return "bad-case".into() };
            if matches!(warn, Warn::Times(_, None)) {
                return "bad-case".into();
            }
            let scripts: Arc<Vec<Vec<Option<u64>>>> = Arc::new(w[3].split('|').map(parse_script).collect());
            let n = scripts.len();
            let barrier = Arc::new(Barrier::new(n));
            let (per_thread, counts) = run_threads(
                warn,
                n,
                Arc::new(move |t, g| {
                    clock::install(scripts[t].clone());
                    barrier.wait();
                    let vs: Vec<i64> = (0..calls).map(|_| g.next_timestamp()).collect();
                    clock::uninstall();
                    vs
                }),
            );
            judge_threads(&per_thread, ctx);
            with_counts(join_threads(&per_thread), &counts)
        }
        "mtp" if w.len() == 5 => {
            let (Some(warn), Ok(threads), Ok(per)) = (parse_warn(w[1]), w[2].parse::<usize>(), w[3].parse::<usize>()) else { return "bad-case".into() };
            if matches!(warn, Warn::Times(_, None)) || !(1..=16).contains(&threads) || !(1..=64).contains(&per) {
                return "bad-case".into();
            }
            let readings: Arc<Vec<Option<u64>>> = Arc::new(parse_script(w[4]));
            let barrier = Arc::new(SpinBarrier::new(threads));
            let (per_thread, counts) = run_threads(
                warn,
                threads,
                Arc::new(move |_t, g| {
                    let mut vs = Vec::with_capacity(readings.len() * per);
                    for r in readings.iter() {
                        // this round every thread's clock reads `r`, however often it is asked
                        clock::install(vec![*r]);
                        if !barrier.wait() {
                            break;
                        }
                        for _ in 0..per {
                            vs.push(g.next_timestamp());
                        }
                    }
                    clock::uninstall();
                    vs
                }),
            );
            judge_threads(&per_thread, ctx);
            with_counts(join_threads(&per_thread), &counts)
        }
        "mtreal" if w.len() == 6 => {
            let (Some(warn), Ok(threads), Ok(rounds), Ok(per), Ok(pause)) =
                (parse_warn(w[1]), w[2].parse::<usize>(), w[3].parse::<usize>(), w[4].parse::<usize>(), w[5].parse::<u64>())
            else {
                return "bad-case".into();
            };
            if matches!(warn, Warn::Times(_, None)) || !(1..=16).contains(&threads) || !(1..=64).contains(&per) || rounds > 100_000 || pause > 10_000 {
                return "bad-case".into();
            }
            let barrier = Arc::new(SpinBarrier::new(threads));
            let (per_thread, counts) = run_threads(
                warn,
                threads,
                Arc::new(move |_t, g| {
                    let mut vs = Vec::with_capacity(rounds * per);
                    for _ in 0..rounds {
                        // let the REAL clock get ahead of the counter, then release all threads at once
                        let t0 = Instant::now();
                        while t0.elapsed() < Duration::from_micros(pause) {
                            std::hint::spin_loop();
                        }
                        if !barrier.wait() {
                            break;
                        }
                        for _ in 0..per {
                            vs.push(g.next_timestamp());
                        }
                    }
                    vs
                }),
            );
            judge_threads(&per_thread, ctx);
            with_counts(join_threads(&per_thread), &counts)
        }
        _ => "bad-case".into(),
    }
}

//! Verification harness for scylla-rust-driver: runs the REAL implementation on line-protocol cases.
//! One module per property; `hx` (src/bin/hx.rs) dispatches.

pub mod e2e;
pub mod mocknode;
pub mod mockcluster;
pub mod rng;
pub mod util;

pub mod c01;
pub mod c02;
pub mod c03;
pub mod c04;
pub mod c04_fetch;
pub mod c05;
pub mod topology;
pub mod c06;
pub mod c07;
pub mod c08;
pub mod c08alloc;
pub mod c08gen;
pub mod c08reader;
pub mod c09;
pub mod c10;
pub mod c10_pool;
pub mod c10_meta;
pub mod c11;
pub mod c11_conn;
pub mod c11_plan;
pub mod c12;
pub mod c13;
pub mod c13_cfg;
pub mod c13_lbscript;
pub mod c14;
pub mod c14s;
pub mod c15;
pub mod c18;
pub mod c18_page;
pub mod c19;
pub mod c19_race;
pub mod c19_worker;
pub mod c19_producer;
pub mod c19_evwait;
pub mod c20;
pub mod c16;
pub mod c16_structs;
pub mod c17;

/// Quick / thorough tier (scales case counts).
#[derive(Clone, Copy, PartialEq, Eq, Debug)]
pub enum Tier {
    Quick,
    Thorough,
}

/// Per-case context: oracle failures (property violated on the implementation's own output,
/// judged without the model) are pushed here.
#[derive(Default)]
pub struct Ctx {
    pub oracle_failures: Vec<String>,
}

impl Ctx {
    pub fn fail(&mut self, msg: impl Into<String>) {
        self.oracle_failures.push(msg.into());
    }
}

pub type GenFn = fn(&mut rng::Rng, Tier, &mut dyn FnMut(String));
pub type RunFn = fn(&str, &mut Ctx) -> String;

pub fn property(id: &str) -> Option<(GenFn, RunFn)> {
    match id {
        "C01" => Some((c01::generate, c01::run)),
        "C02" => Some((c02::generate, c02::run)),
        "C03" => Some((c03::generate, c03::run)),
        "C04" => Some((c04::generate, c04::run)),
        "C05" => Some((c05::generate, c05::run)),
        "C06" => Some((c06::generate, c06::run)),
        "C07" => Some((c07::generate, c07::run)),
        "C08" => Some((c08::generate, c08::run)),
        "C09" => Some((c09::generate, c09::run)),
        "C10" => Some((c10::generate, c10::run)),
        "C11" => Some((c11::generate, c11::run)),
        "C12" => Some((c12::generate, c12::run)),
        "C13" => Some((c13::generate, c13::run)),
        "C14" => Some((c14::generate, c14::run)),
        "C15" => Some((c15::generate, c15::run)),
        "C18" => Some((c18::generate, c18::run)),
        "C19" => Some((c19::generate, c19::run)),
        "C20" => Some((c20::generate, c20::run)),
        "C16" => Some((c16::generate, c16::run)),
        "C17" => Some((c17::generate, c17::run)),
        _ => None,
    }
}

//! Verification harness for scylla-rust-driver: runs the REAL implementation on line-protocol cases.
//! One module per property; `hx` (src/bin/hx.rs) dispatches.

pub mod rng;
pub mod util;

pub mod c11;

/// Quick / thorough tier (scales case counts).
#[derive(Clone, Copy, PartialEq, Eq, Debug)]
pub enum Tier {
    Quick,
    Thorough,
}

/// Per-case context: oracle failures (property violated on the implementation's own output,
/// judged without the model) are pushed here.
#[derive(Default)]
pub struct Ctx {
    pub oracle_failures: Vec<String>,
}

impl Ctx {
    pub fn fail(&mut self, msg: impl Into<String>) {
        self.oracle_failures.push(msg.into());
    }
}

pub type GenFn = fn(&mut rng::Rng, Tier, &mut dyn FnMut(String));
pub type RunFn = fn(&str, &mut Ctx) -> String;

pub fn property(id: &str) -> Option<(GenFn, RunFn)> {
    match id {
        "C11" => Some((c11::generate, c11::run)),
        _ => None,
    }
}

//! C16 — derived row/UDT mappings bind fields by name regardless of database order.
//!
//! Case line:  `<op> <Name> <flavor> <skipNameChecks> <forbidExcess> <n> <field>*  ;  <col>*  ;  <val>*`
//!   op     `sv` SerializeValue (+ round trip oracle), `dv` DeserializeValue (type_check, then deserialize),
//!          `sr` SerializeRow, `dr` DeserializeRow
//!   field  `L <rustName> <rename|-> <int|text> <opt> <skip> <allowMissing> <defaultWhenNull>`
//!          `N <rustName> <skip> <flavor> <skipNameChecks> <n> <field>*`      (a `#[scylla(flatten)]` field)
//!   col    `<name>:<int|text|boolean>`  — the UDT field list / column specs, in database order
//!   val    `n` (Rust `None` resp. a null cell), `-` (empty bytes) or lowercase hex; for `s?` one per leaf field
//!          in declaration order (skipped ones too), for `d?` the cells in database order.
//! Output: `ok <cell|value>*`, `err ser <Kind>`, `err typecheck <Kind>`, `err deser <Kind>`.
use crate::c16_structs::{self as fam, Col, DeErr, Leaf, StructInfo};
use crate::rng::Rng;
use crate::util::{hex, unhex};
use crate::{Ctx, Tier};
use std::collections::HashMap;
use std::sync::OnceLock;

// ------------------------------------------------------------------------------------------------
// descriptors (parsed from the stringified attribute tokens of the ONE table)
// ------------------------------------------------------------------------------------------------

#[derive(Clone, Debug)]
pub struct FieldD {
    rust: String,
    rename: Option<String>,
    ty: &'static str, // int | text   (leaf only)
    opt: bool,
    skip: bool,
    allow_missing: bool,
    default_when_null: bool,
    flatten: Option<Box<StructD>>,
}

#[derive(Clone, Debug)]
pub struct StructD {
    name: String,
    kind: String,
    by_name: bool,
    snc: bool,
    forbid: bool,
    fields: Vec<FieldD>,
}

impl FieldD {
    /// the database name: the `rename`, else the Rust identifier without a raw-identifier prefix (`r#type` -> `type`)
    fn col(&self) -> &str {
        self.rename.as_deref().unwrap_or(self.rust.strip_prefix("r#").unwrap_or(&self.rust))
    }
    fn default(&self) -> Leaf {
        if self.opt {
            None
        } else {
            Some(match self.ty {
                "int" | "list" => vec![0, 0, 0, 0],
                "udt" => vec![0, 0, 0, 4, 0, 0, 0, 0, 0, 0, 0, 0],
                _ => vec![],
            })
        }
    }
}

fn attrs(s: &str) -> Vec<(String, Option<String>)> {
    s.split(',')
        .map(|a| a.trim())
        .filter(|a| !a.is_empty())
        .map(|a| match a.split_once('=') {
            Some((k, v)) => (k.trim().to_owned(), Some(v.trim().trim_matches('"').to_owned())),
            None => (a.to_owned(), None),
        })
        .collect()
}

fn parse_struct(info: &StructInfo, all: &[StructInfo]) -> StructD {
    let sa = attrs(info.sattr);
    let has = |k: &str| sa.iter().any(|(a, _)| a == k);
    let flavor = sa.iter().find(|(a, _)| a == "flavor").and_then(|(_, v)| v.clone()).unwrap_or("match_by_name".into());
    let fields = info
        .fields
        .iter()
        .map(|(rust, ty, fa)| {
            let fa = attrs(fa);
            let fhas = |k: &str| fa.iter().any(|(a, _)| a == k);
            let (lty, opt): (&'static str, bool) = match ty.as_str() {
                "i32" => ("int", false),
                "String" | "&'astr" => ("text", false),
                "Option<&'astr>" => ("text", true),
                "Option<i32>" => ("int", true),
                "Option<String>" => ("text", true),
                "Vec<i32>" => ("list", false),
                "Option<Vec<i32>>" => ("list", true),
                "U2" => ("udt", false),
                "Option<U2>" => ("udt", true),
                "MaybeUnset<i32>" => ("int", true), // `None` = Unset; the unset marker prints as `n`
                _ => ("-", false),
            };
            let flatten = if fhas("flatten") {
                // `inner: &'a T` flattens `T` through the forwarding impls for `&T`
                let ty = ty.strip_prefix("&'a").unwrap_or(ty);
                let inner = all.iter().find(|s| s.name == ty).expect("flattened type must be in the table");
                Some(Box::new(parse_struct(inner, all)))
            } else {
                assert!(lty != "-", "unknown leaf type {}", ty);
                None
            };
            FieldD {
                rust: rust.to_string(),
                rename: fa.iter().find(|(a, _)| a == "rename").and_then(|(_, v)| v.clone()),
                ty: lty,
                opt,
                skip: fhas("skip"),
                allow_missing: fhas("allow_missing"),
                default_when_null: fhas("default_when_null"),
                flatten,
            }
        })
        .collect();
    StructD {
        name: info.name.to_owned(),
        kind: match info.kind {
            "svalue" | "bvalue" => "value".to_owned(),
            "brow" => "row".to_owned(),
            "bsrow" => "srow".to_owned(),
            k => k.to_owned(),
        },
        by_name: flavor == "match_by_name",
        snc: has("skip_name_checks"),
        forbid: has("forbid_excess_udt_fields"),
        fields,
    }
}

struct Family {
    infos: Vec<StructInfo>,
    descs: Vec<StructD>,
    index: HashMap<String, usize>,
}

fn family() -> &'static Family {
    static F: OnceLock<Family> = OnceLock::new();
    F.get_or_init(|| {
        let infos = fam::table();
        let descs: Vec<StructD> = infos.iter().map(|i| parse_struct(i, &infos)).collect();
        let index = infos.iter().enumerate().map(|(i, s)| (s.name.to_owned(), i)).collect();
        Family { infos, descs, index }
    })
}

fn b(x: bool) -> &'static str {
    if x { "1" } else { "0" }
}

fn fl(by_name: bool) -> &'static str {
    if by_name { "bn" } else { "ord" }
}

fn fields_tokens(fs: &[FieldD], out: &mut Vec<String>) {
    for f in fs {
        match &f.flatten {
            None => {
                out.push(format!(
                    "L {} {} {} {} {} {} {}",
                    f.rust,
                    f.rename.as_deref().unwrap_or("-"),
                    f.ty,
                    b(f.opt),
                    b(f.skip),
                    b(f.allow_missing),
                    b(f.default_when_null)
                ));
            }
            Some(inner) => {
                out.push(format!("N {} {} {} {} {}", f.rust, b(f.skip), fl(inner.by_name), b(inner.snc), inner.fields.len()));
                fields_tokens(&inner.fields, out);
            }
        }
    }
}

fn desc_tokens(d: &StructD) -> String {
    let mut out = vec![format!("{} {} {} {} {}", d.name, fl(d.by_name), b(d.snc), b(d.forbid), d.fields.len())];
    fields_tokens(&d.fields, &mut out);
    out.join(" ")
}

/// all leaf fields in declaration order (depth first), with `skipped` = the leaf or an enclosing field is skipped
fn leaves(d: &StructD, skipped: bool, out: &mut Vec<(FieldD, bool)>) {
    for f in &d.fields {
        match &f.flatten {
            None => out.push((f.clone(), skipped || f.skip)),
            Some(inner) => leaves(inner, skipped || f.skip, out),
        }
    }
}

fn all_leaves(d: &StructD) -> Vec<(FieldD, bool)> {
    let mut v = Vec::new();
    leaves(d, false, &mut v);
    v
}

/// the columns the struct declares (non-skipped leaves), in declaration order
fn declared(d: &StructD) -> Vec<Col> {
    all_leaves(d).iter().filter(|(_, s)| !s).map(|(f, _)| Col { name: f.col().to_owned(), ty: f.ty }).collect()
}

/// `skip_name_checks` on the struct or on any flattened struct inside it
fn any_snc(d: &StructD) -> bool {
    d.snc || d.fields.iter().any(|f| f.flatten.as_ref().is_some_and(|i| any_snc(i)))
}

// ------------------------------------------------------------------------------------------------
// generation
// ------------------------------------------------------------------------------------------------

fn tok(l: &Leaf) -> String {
    match l {
        None => "n".to_owned(),
        Some(b) => hex(b),
    }
}

fn toks(ls: &[Leaf]) -> String {
    ls.iter().map(tok).collect::<Vec<_>>().join(" ")
}

fn db_tokens(db: &[Col]) -> String {
    db.iter().map(|c| format!("{}:{}", c.name, c.ty)).collect::<Vec<_>>().join(" ")
}

fn payload(rng: &mut Rng, ty: &str) -> Vec<u8> {
    match ty {
        "int" => {
            let v: i32 = match rng.below(4) {
                0 => *rng.pick(&[0, 1, -1, i32::MIN, i32::MAX, 256, -256]),
                1 => rng.range(-300, 300) as i32,
                _ => rng.next() as i32,
            };
            v.to_be_bytes().to_vec()
        }
        "text" => {
            let n = *rng.pick(&[0usize, 1, 1, 2, 3]);
            (0..n).map(|_| b'a' + rng.below(26) as u8).collect()
        }
        "list" => {
            let n = rng.below(3) as usize;
            let mut b = (n as i32).to_be_bytes().to_vec();
            for _ in 0..n {
                b.extend_from_slice(&4i32.to_be_bytes());
                b.extend_from_slice(&payload(rng, "int"));
            }
            b
        }
        "udt" => {
            let mut b = 4i32.to_be_bytes().to_vec();
            b.extend_from_slice(&payload(rng, "int"));
            let t = payload(rng, "text");
            b.extend_from_slice(&(t.len() as i32).to_be_bytes());
            b.extend_from_slice(&t);
            b
        }
        _ => vec![rng.below(2) as u8],
    }
}

fn gen_vals(rng: &mut Rng, d: &StructD, none_mask: Option<u32>) -> Vec<Leaf> {
    let mut k = 0;
    all_leaves(d)
        .iter()
        .map(|(f, _)| {
            if f.opt {
                let none = match none_mask {
                    Some(m) => {
                        k += 1;
                        (m >> (k - 1)) & 1 == 1
                    }
                    None => rng.chance(1, 3),
                };
                if none { None } else { Some(payload(rng, f.ty)) }
            } else {
                Some(payload(rng, f.ty))
            }
        })
        .collect()
}

/// cells for a database column list; `null_mask` bit i = cell i is null
fn gen_cells(rng: &mut Rng, db: &[Col], null_mask: u32) -> Vec<Leaf> {
    db.iter().enumerate().map(|(i, c)| if (null_mask >> i) & 1 == 1 { None } else { Some(payload(rng, c.ty)) }).collect()
}

fn permutations(n: usize) -> Vec<Vec<usize>> {
    fn go(k: usize, cur: &mut Vec<usize>, used: &mut Vec<bool>, out: &mut Vec<Vec<usize>>) {
        if k == 0 {
            out.push(cur.clone());
            return;
        }
        for i in 0..used.len() {
            if !used[i] {
                used[i] = true;
                cur.push(i);
                go(k - 1, cur, used, out);
                cur.pop();
                used[i] = false;
            }
        }
    }
    let mut out = Vec::new();
    go(n, &mut Vec::new(), &mut vec![false; n], &mut out);
    out
}

fn other_ty(rng: &mut Rng, ty: &str) -> &'static str {
    loop {
        let t = *rng.pick(&["int", "text", "boolean", "list", "udt"]);
        if t != ty {
            return t;
        }
    }
}

/// names an excess column may take: fresh ones, and traps (a skipped field's name, the Rust name of a renamed
/// field, the name of a flattened field)
fn excess_names(d: &StructD) -> Vec<String> {
    let mut v = vec!["zz".to_owned(), "A".to_owned()];
    fn walk(d: &StructD, v: &mut Vec<String>) {
        for f in &d.fields {
            if f.skip || f.rename.is_some() || f.flatten.is_some() {
                v.push(f.rust.clone());
            }
            if let Some(i) = &f.flatten {
                walk(i, v)
            }
        }
    }
    walk(d, &mut v);
    let decl: Vec<String> = declared(d).into_iter().map(|c| c.name).collect();
    v.retain(|n| !decl.contains(n));
    v.dedup();
    v
}

/// the structured database-side variants of a struct's declared column list
fn db_variants(rng: &mut Rng, d: &StructD, tier: Tier) -> Vec<Vec<Col>> {
    let base = declared(d);
    let n = base.len();
    let ex = excess_names(d);
    let mut out: Vec<Vec<Col>> = Vec::new();
    // every permutation of the declared columns
    let perms = permutations(n);
    for p in &perms {
        out.push(p.iter().map(|&i| base[i].clone()).collect());
    }
    let some_orders = |rng: &mut Rng| -> Vec<Vec<usize>> {
        let mut v = vec![(0..n).collect::<Vec<_>>(), (0..n).rev().collect()];
        let extra = if tier == Tier::Quick { 2 } else { 8 };
        for _ in 0..extra {
            v.push(perms[rng.below(perms.len() as u64) as usize].clone());
        }
        v.dedup();
        v
    };
    // every subset of columns missing (on a few orders)
    for ord in some_orders(rng) {
        for mask in 1u32..(1 << n) {
            out.push(ord.iter().filter(|&&i| (mask >> i) & 1 == 0).map(|&i| base[i].clone()).collect());
        }
    }
    // an excess column at every position; two excess columns
    for ord in some_orders(rng) {
        let cols: Vec<Col> = ord.iter().map(|&i| base[i].clone()).collect();
        for pos in 0..=n {
            let name = ex[rng.below(ex.len() as u64) as usize].clone();
            let mut c = cols.clone();
            c.insert(pos, Col { name, ty: *rng.pick(&["int", "text", "boolean"]) });
            out.push(c.clone());
            let pos2 = rng.below(c.len() as u64 + 1) as usize;
            c.insert(pos2, Col { name: "yy".into(), ty: "int" });
            out.push(c);
        }
        // excess + missing
        for i in 0..n {
            let mut c = cols.clone();
            c.remove(i);
            let pos = rng.below(c.len() as u64 + 1) as usize;
            c.insert(pos, Col { name: ex[0].clone(), ty: "int" });
            out.push(c);
        }
    }
    // a duplicated column at every position
    for ord in some_orders(rng).into_iter().take(2) {
        let cols: Vec<Col> = ord.iter().map(|&i| base[i].clone()).collect();
        for i in 0..n {
            for pos in 0..=n {
                let mut c = cols.clone();
                c.insert(pos, cols[i].clone());
                out.push(c);
            }
        }
    }
    // a column of another type
    for ord in some_orders(rng).into_iter().take(3) {
        let cols: Vec<Col> = ord.iter().map(|&i| base[i].clone()).collect();
        for i in 0..n {
            let mut c = cols.clone();
            c[i].ty = other_ty(rng, c[i].ty);
            out.push(c);
        }
    }
    // random mixtures
    let k = if tier == Tier::Quick { 500 } else { 4000 };
    for _ in 0..k {
        let mut c: Vec<Col> = base.clone();
        rng.shuffle(&mut c);
        let muts = 1 + rng.below(3);
        for _ in 0..muts {
            match rng.below(5) {
                0 if !c.is_empty() => {
                    let i = rng.below(c.len() as u64) as usize;
                    c.remove(i);
                }
                1 => {
                    let pos = rng.below(c.len() as u64 + 1) as usize;
                    c.insert(pos, Col { name: ex[rng.below(ex.len() as u64) as usize].clone(), ty: *rng.pick(&["int", "text"]) });
                }
                2 if !c.is_empty() => {
                    let i = rng.below(c.len() as u64) as usize;
                    let pos = rng.below(c.len() as u64 + 1) as usize;
                    let x = c[i].clone();
                    c.insert(pos, x);
                }
                3 if !c.is_empty() => {
                    let i = rng.below(c.len() as u64) as usize;
                    c[i].ty = other_ty(rng, c[i].ty);
                }
                _ => {
                    if c.len() >= 2 {
                        let i = rng.below(c.len() as u64 - 1) as usize;
                        c.swap(i, i + 1);
                    }
                }
            }
        }
        out.push(c);
    }
    out
}

fn case_line(op: &str, desc: &str, db: &[Col], vals: &[Leaf]) -> String {
    format!("{} {} ; {} ; {}", op, desc, db_tokens(db), toks(vals)).replace("  ", " ").trim_end().to_owned()
}

pub fn generate(rng: &mut Rng, tier: Tier, emit: &mut dyn FnMut(String)) {
    let fam = family();
    let reps = if tier == Tier::Quick { 1 } else { 6 };
    for (info, d) in fam.infos.iter().zip(&fam.descs) {
        let desc = desc_tokens(d);
        let (sop, dop) = if d.kind == "value" { ("sv", "dv") } else { ("sr", "dr") };
        let n_opt = all_leaves(d).iter().filter(|(f, _)| f.opt).count();
        // `deserialize` WITHOUT `type_check` (a sample: structs whose fields are all i32 / String / Option of those)
        if info.de_raw.is_some() && all_leaves(d).iter().all(|(f, _)| f.ty == "int" || f.ty == "text") {
            let kind_tok = if d.kind == "value" { "udt" } else { "row" };
            let vs = db_variants(rng, d, tier);
            let step = if tier == Tier::Quick { 7 } else { 2 };
            for db in vs.iter().step_by(step) {
                if db.iter().any(|c| c.ty == "list" || c.ty == "udt") {
                    continue;
                }
                // payloads readable under either type: ASCII bytes; an int column carries 4 of them
                let cells: Vec<Leaf> = db
                    .iter()
                    .map(|c| {
                        if rng.chance(1, 6) {
                            None
                        } else {
                            let n = if c.ty == "int" { 4 } else { *rng.pick(&[0usize, 1, 3, 4]) };
                            Some((0..n).map(|_| b'a' + rng.below(26) as u8).collect())
                        }
                    })
                    .collect();
                let mut cells = cells;
                if rng.chance(1, 8) && !cells.is_empty() {
                    cells.pop();
                }
                emit(format!("du {} ; {} ; {} {}", desc, db_tokens(db), kind_tok, toks(&cells)).replace("  ", " ").trim_end().to_owned());
            }
        }
        if info.is_empty.is_some() {
            let vals = gen_vals(rng, d, None);
            emit(format!("ie {} ; ; {}", desc, toks(&vals)).trim_end().to_owned());
        }
        let variants = db_variants(rng, d, tier);
        if d.kind == "value" {
            // a CQL type that is not a UDT
            let vals = gen_vals(rng, d, None);
            emit(format!("sv {} ; -:notudt ; {}", desc, toks(&vals)).trim_end().to_owned());
            if info.de.is_some() {
                emit(format!("dv {} ; -:notudt ; 00000001", desc));
                emit(format!("dv {} ; -:notudt ; NULL", desc));
            }
        }
        for (vi, db) in variants.iter().enumerate() {
            // serialize: random values; on the first (identity) order every None pattern
            for _ in 0..reps {
                let vals = gen_vals(rng, d, None);
                emit(case_line(sop, &desc, db, &vals));
            }
            if vi < 2 || vi % 37 == 0 {
                for m in 0..(1u32 << n_opt) {
                    let vals = gen_vals(rng, d, Some(m));
                    emit(case_line(sop, &desc, db, &vals));
                }
            }
            if info.de.is_none() {
                continue;
            }
            // deserialize: full cells, one random null pattern; exhaustive null patterns / lengths on some
            let m = db.len();
            for _ in 0..reps {
                let cells = gen_cells(rng, db, 0);
                emit(case_line(dop, &desc, db, &cells));
                let mask = rng.next() as u32;
                let cells = gen_cells(rng, db, mask);
                emit(case_line(dop, &desc, db, &cells));
            }
            if (vi < 2 || vi % 23 == 0) && m <= 7 {
                for mask in 0..(1u32 << m) {
                    let cells = gen_cells(rng, db, mask);
                    emit(case_line(dop, &desc, db, &cells));
                }
                for len in 0..=m + 1 {
                    let mask = if rng.chance(1, 3) { rng.next() as u32 } else { 0 };
                    let mut cells = gen_cells(rng, db, mask);
                    cells.truncate(len);
                    if len > m {
                        cells.push(Some(vec![1, 2]));
                    }
                    emit(case_line(dop, &desc, db, &cells));
                }
            }
            // the whole UDT value null
            if dop == "dv" && vi % 5 == 0 {
                emit(format!("dv {} ; {} ; NULL", desc, db_tokens(db)).replace("  ", " "));
            }
            // malformed payloads (wrong width for int)
            if vi % 11 == 0 && m > 0 {
                let mut cells = gen_cells(rng, db, 0);
                let i = rng.below(m as u64) as usize;
                // only int / text columns: collection and UDT payloads are always well-formed here (C01, C08)
                if db[i].ty == "int" || db[i].ty == "text" || db[i].ty == "boolean" {
                    cells[i] = Some(match rng.below(3) {
                        0 => vec![],
                        1 => vec![0, 0, 1],
                        _ => vec![0, 0, 0, 0, 1],
                    });
                    emit(case_line(dop, &desc, db, &cells));
                }
            }
        }
    }
}

// ------------------------------------------------------------------------------------------------
// running the real implementation
// ------------------------------------------------------------------------------------------------

fn parse_db(ws: &[&str]) -> Option<Vec<Col>> {
    ws.iter()
        .map(|w| {
            let (n, t) = w.split_once(':')?;
            let ty = match t {
                "int" => "int",
                "text" => "text",
                "list" => "list",
                "udt" => "udt",
                "notudt" if *w == "-:notudt" => "notudt",
                "boolean" => "boolean",
                _ => return None,
            };
            Some(Col { name: n.to_owned(), ty })
        })
        .collect()
}

fn parse_vals(ws: &[&str]) -> Option<Vec<Leaf>> {
    ws.iter().map(|w| if *w == "n" { Some(None) } else { unhex(w).map(Some) }).collect()
}

/// `[i32 len][bytes]`* → cells
fn decode_cells(mut b: &[u8]) -> Option<Vec<Leaf>> {
    let mut out = Vec::new();
    while !b.is_empty() {
        if b.len() < 4 {
            return None;
        }
        let n = i32::from_be_bytes([b[0], b[1], b[2], b[3]]);
        b = &b[4..];
        if n < 0 {
            // -1 = null, -2 = unset (`MaybeUnset::Unset`), canonicalised to null here (the marker itself: C01)
            if n != -1 && n != -2 {
                return None;
            }
            out.push(None);
        } else {
            let n = n as usize;
            if b.len() < n {
                return None;
            }
            out.push(Some(b[..n].to_vec()));
            b = &b[n..];
        }
    }
    Some(out)
}

fn encode_cells(cells: &[Leaf]) -> Vec<u8> {
    let mut out = Vec::new();
    for c in cells {
        match c {
            None => out.extend_from_slice(&(-1i32).to_be_bytes()),
            Some(b) => {
                out.extend_from_slice(&(b.len() as i32).to_be_bytes());
                out.extend_from_slice(b);
            }
        }
    }
    out
}

fn ser_err_kind(kind: &str, e: &scylla::serialize::SerializationError) -> String {
    use scylla_cql_core::serialize::row as r;
    use scylla_cql_core::serialize::value as v;
    if kind == "value" {
        if let Some(t) = e.downcast_ref::<v::BuiltinTypeCheckError>() {
            return match &t.kind {
                v::BuiltinTypeCheckErrorKind::UdtError(u) => match u {
                    v::UdtTypeCheckErrorKind::NotUdt => "NotUdt",
                    v::UdtTypeCheckErrorKind::NameMismatch { .. } => "NameMismatch",
                    v::UdtTypeCheckErrorKind::ValueMissingForUdtField { .. } => "ValueMissingForUdtField",
                    v::UdtTypeCheckErrorKind::NoSuchFieldInUdt { .. } => "NoSuchFieldInUdt",
                    v::UdtTypeCheckErrorKind::FieldNameMismatch { .. } => "FieldNameMismatch",
                    _ => "OtherUdtTypeCheck",
                },
                _ => "OtherTypeCheck",
            }
            .to_owned();
        }
        if let Some(t) = e.downcast_ref::<v::BuiltinSerializationError>() {
            return match &t.kind {
                v::BuiltinSerializationErrorKind::UdtError(v::UdtSerializationErrorKind::FieldSerializationFailed { .. }) => {
                    "FieldSerializationFailed"
                }
                _ => "OtherSerialization",
            }
            .to_owned();
        }
    } else {
        if let Some(t) = e.downcast_ref::<r::BuiltinTypeCheckError>() {
            return match &t.kind {
                r::BuiltinTypeCheckErrorKind::WrongColumnCount { .. } => "WrongColumnCount",
                r::BuiltinTypeCheckErrorKind::NoColumnWithName { .. } => "NoColumnWithName",
                r::BuiltinTypeCheckErrorKind::ValueMissingForColumn { .. } => "ValueMissingForColumn",
                r::BuiltinTypeCheckErrorKind::ColumnNameMismatch { .. } => "ColumnNameMismatch",
                _ => "OtherRowTypeCheck",
            }
            .to_owned();
        }
        if let Some(t) = e.downcast_ref::<r::BuiltinSerializationError>() {
            return match &t.kind {
                r::BuiltinSerializationErrorKind::ColumnSerializationFailed { .. } => "ColumnSerializationFailed",
                r::BuiltinSerializationErrorKind::TooManyValues => "TooManyValues",
                _ => "OtherRowSerialization",
            }
            .to_owned();
        }
    }
    "Unknown".to_owned()
}

fn tc_err_kind(kind: &str, e: &scylla::deserialize::TypeCheckError) -> String {
    use scylla_cql_core::deserialize::row as r;
    use scylla_cql_core::deserialize::value as v;
    if kind == "value" {
        if let Some(t) = e.downcast_ref::<v::BuiltinTypeCheckError>() {
            return match &t.kind {
                v::BuiltinTypeCheckErrorKind::UdtError(u) => match u {
                    v::UdtTypeCheckErrorKind::NotUdt => "NotUdt",
                    v::UdtTypeCheckErrorKind::ValuesMissingForUdtFields { .. } => "ValuesMissingForUdtFields",
                    v::UdtTypeCheckErrorKind::FieldNameMismatch { .. } => "FieldNameMismatch",
                    v::UdtTypeCheckErrorKind::ExcessFieldInUdt { .. } => "ExcessFieldInUdt",
                    v::UdtTypeCheckErrorKind::DuplicatedField { .. } => "DuplicatedField",
                    v::UdtTypeCheckErrorKind::TooFewFields { .. } => "TooFewFields",
                    v::UdtTypeCheckErrorKind::FieldTypeCheckFailed { .. } => "FieldTypeCheckFailed",
                    _ => "OtherUdtTypeCheck",
                },
                _ => "OtherTypeCheck",
            }
            .to_owned();
        }
    } else if let Some(t) = e.downcast_ref::<r::BuiltinTypeCheckError>() {
        return match &t.kind {
            r::BuiltinTypeCheckErrorKind::WrongColumnCount { .. } => "WrongColumnCount",
            r::BuiltinTypeCheckErrorKind::ColumnWithUnknownName { .. } => "ColumnWithUnknownName",
            r::BuiltinTypeCheckErrorKind::ValuesMissingForColumns { .. } => "ValuesMissingForColumns",
            r::BuiltinTypeCheckErrorKind::ColumnNameMismatch { .. } => "ColumnNameMismatch",
            r::BuiltinTypeCheckErrorKind::ColumnTypeCheckFailed { .. } => "ColumnTypeCheckFailed",
            r::BuiltinTypeCheckErrorKind::DuplicatedColumn { .. } => "DuplicatedColumn",
            _ => "OtherRowTypeCheck",
        }
        .to_owned();
    }
    "Unknown".to_owned()
}

fn de_err_kind(kind: &str, e: &scylla::deserialize::DeserializationError) -> String {
    use scylla_cql_core::deserialize::row as r;
    use scylla_cql_core::deserialize::value as v;
    if kind == "value" {
        if let Some(t) = e.downcast_ref::<v::BuiltinDeserializationError>() {
            return match &t.kind {
                v::BuiltinDeserializationErrorKind::UdtError(v::UdtDeserializationErrorKind::FieldDeserializationFailed {
                    ..
                }) => "FieldDeserializationFailed",
                v::BuiltinDeserializationErrorKind::ExpectedNonNull => "ExpectedNonNull",
                v::BuiltinDeserializationErrorKind::RawCqlBytesReadError(_) => "RawCqlBytesReadError",
                _ => "OtherDeserialization",
            }
            .to_owned();
        }
    } else if let Some(t) = e.downcast_ref::<r::BuiltinDeserializationError>() {
        return match &t.kind {
            r::BuiltinDeserializationErrorKind::ColumnDeserializationFailed { .. } => "ColumnDeserializationFailed",
            r::BuiltinDeserializationErrorKind::RawColumnDeserializationFailed { .. } => "RawColumnDeserializationFailed",
            _ => "OtherRowDeserialization",
        }
        .to_owned();
    }
    "Unknown".to_owned()
}

// ------------------------------------------------------------------------------------------------
// model-independent oracle (straight from the property statement and the attribute documentation)
// ------------------------------------------------------------------------------------------------

fn nodup(db: &[Col]) -> bool {
    (0..db.len()).all(|i| (0..i).all(|j| db[i].name != db[j].name))
}

/// leaf names are pairwise distinct: the shapes for which the documentation says what "by name" means
fn plain_names(d: &StructD) -> bool {
    nodup(&declared(d))
}

/// a non-skipped flattened struct without any active (non-skipped) leaf — the C16-F8 shape (fixed by /repo
/// b2d6bfa; the tag is kept so that a regression is recognisable)
fn has_inactive_flatten(d: &StructD) -> bool {
    d.fields.iter().any(|f| match &f.flatten {
        Some(i) => !f.skip && (declared(i).is_empty() || has_inactive_flatten(i)),
        None => false,
    })
}

/// the ordered flavor accepts only the declared order (names checked): walk the declared non-skipped fields,
/// a field that is not next in the database list must be `allow_missing`
fn ordered_shape_ok(d: &StructD, db: &[Col], excess_allowed: bool) -> bool {
    let mut i = 0;
    for (f, skipped) in all_leaves(d) {
        if skipped {
            continue;
        }
        if i < db.len() && db[i].name == f.col() {
            i += 1;
        } else if !(f.allow_missing && d.kind == "value") {
            return false;
        }
    }
    excess_allowed || i == db.len()
}

/// every struct in `d` (the struct itself and all flattened ones) has the same `skip_name_checks` setting
fn uniform_snc(d: &StructD) -> bool {
    fn all_eq(d: &StructD, v: bool) -> bool {
        d.snc == v && d.fields.iter().all(|f| f.flatten.as_ref().is_none_or(|i| all_eq(i, v)))
    }
    all_eq(d, d.snc)
}

/// The documented rule of the ordered flavor, from the declared DATABASE names (after `rename`) alone: walk the
/// non-skipped leaf fields in declared order against the column list; a field takes the next column when the names
/// agree (`skip_name_checks`: always, binding is positional); a UDT field with `allow_missing` may be passed over;
/// anything else is a rejection; columns left over are excess (UDTs without `forbid_excess_udt_fields` only).
/// Returns, per leaf (skipped ones: `None`), the index of the column it is bound to — or `None` = must be rejected.
fn ordered_binding(d: &StructD, db: &[Col]) -> Option<Vec<Option<usize>>> {
    let is_value = d.kind == "value";
    let mut i = 0;
    let mut out = Vec::new();
    for (f, skipped) in all_leaves(d) {
        if skipped {
            out.push(None);
        } else if i < db.len() && (d.snc || db[i].name == f.col()) {
            out.push(Some(i));
            i += 1;
        } else if is_value && f.allow_missing {
            out.push(None);
        } else {
            return None;
        }
    }
    if i < db.len() && !(is_value && !d.forbid) {
        return None;
    }
    Some(out)
}

fn oracle_ser_ordered(d: &StructD, db: &[Col], vals: &[Leaf], res: &Result<Vec<Leaf>, String>, ctx: &mut Ctx) {
    let lv = all_leaves(d);
    let binding = ordered_binding(d, db);
    let fits = |b: &Vec<Option<usize>>| {
        b.iter().zip(lv.iter().zip(vals)).all(|(bi, ((f, _), v))| match bi {
            Some(i) => v.is_none() || f.ty == db[*i].ty,
            None => true,
        })
    };
    let expect_ok = binding.as_ref().is_some_and(fits);
    match res {
        Ok(cells) => {
            if !expect_ok {
                ctx.fail("ordered serialization accepted a column list that is not the declared order / does not fit");
                return;
            }
            let b = binding.unwrap();
            let expected: Vec<Leaf> = b.iter().zip(vals).filter(|(bi, _)| bi.is_some()).map(|(_, v)| v.clone()).collect();
            if *cells != expected {
                ctx.fail(format!("ordered serialization wrote {} but the bound fields' values in declared order are {}", toks(cells), toks(&expected)));
            }
        }
        Err(k) => {
            if expect_ok {
                ctx.fail(format!("ordered serialization rejected ({}) the declared order under the database names", k));
            }
        }
    }
}

/// expected outcome of ordered type check + deserialization (`None` = must be rejected)
fn ordered_de_expected(d: &StructD, db: &[Col], cells: &[Leaf]) -> Option<Vec<Leaf>> {
    let is_value = d.kind == "value";
    let lv = all_leaves(d);
    let b = ordered_binding(d, db)?;
    if !is_value && cells.len() < db.len() {
        return None;
    }
    let mut out = Vec::new();
    for (bi, (f, _)) in b.iter().zip(&lv) {
        match bi {
            None => out.push(f.default()),
            Some(i) => {
                if db[*i].ty != f.ty {
                    return None;
                }
                let cell = cells.get(*i).cloned().unwrap_or(None);
                if let Some(bytes) = &cell {
                    if f.ty == "int" && bytes.len() != 4 {
                        return None;
                    }
                }
                out.push(expected_field(f, &cell).ok()?);
            }
        }
    }
    Some(out)
}

fn oracle_ser(d: &StructD, db: &[Col], vals: &[Leaf], res: &Result<Vec<Leaf>, String>, ctx: &mut Ctx) {
    let lv = all_leaves(d);
    let active: Vec<(&FieldD, &Leaf)> = lv.iter().zip(vals).filter(|((_, s), _)| !s).map(|((f, _), v)| (f, v)).collect();
    let find = |name: &str| active.iter().find(|(f, _)| f.col() == name);
    let is_value = d.kind == "value";
    if d.by_name && plain_names(d) {
        // documented acceptance rule
        let types_ok = db.iter().all(|c| match find(&c.name) {
            Some((f, v)) => v.is_none() || f.ty == c.ty,
            None => true,
        });
        let excess = db.iter().any(|c| find(&c.name).is_none());
        let missing_required =
            active.iter().any(|(f, _)| !(is_value && f.allow_missing) && !db.iter().any(|c| c.name == f.col()));
        let expect_ok = types_ok && !missing_required && !(excess && (!is_value || d.forbid));
        match res {
            Ok(cells) => {
                if missing_required {
                    let tag = if has_inactive_flatten(d) { "C16-F8-empty-flattened-struct-hides-missing-columns: " } else { "" };
                    ctx.fail(format!("{}serialization succeeded although a required field has no column: its value was silently dropped", tag));
                } else if !expect_ok {
                    ctx.fail("serialization accepted a column list the attributes document as rejected");
                }
                // each field's value sits at its column's database position
                if cells.len() > db.len() || (!is_value && cells.len() != db.len()) {
                    ctx.fail(format!("{} cells written for {} columns", cells.len(), db.len()));
                }
                for (i, c) in db.iter().enumerate() {
                    let expected: Leaf = match find(&c.name) {
                        Some((_, v)) => (*v).clone(),
                        None => None,
                    };
                    if i < cells.len() {
                        if cells[i] != expected {
                            ctx.fail(format!("database position {} (column {}) holds {} but the field value is {}", i, c.name, tok(&cells[i]), tok(&expected)));
                        }
                    } else if find(&c.name).is_some() {
                        ctx.fail(format!("value of column {} at database position {} was not written", c.name, i));
                    }
                }
            }
            Err(k) => {
                if expect_ok {
                    ctx.fail(format!("serialization rejected ({}) a column list the attributes document as accepted", k));
                }
            }
        }
    }
    if !d.by_name && !any_snc(d) && res.is_ok() && !ordered_shape_ok(d, db, is_value && !d.forbid) {
        ctx.fail("ordered flavor accepted a column list that is not in the declared order");
    }
    // ordered flavor: exact documented outcome from the declared database names
    if !d.by_name && uniform_snc(d) {
        oracle_ser_ordered(d, db, vals, res, ctx);
    }
}

fn expected_field(f: &FieldD, cell: &Leaf) -> Result<Leaf, ()> {
    match cell {
        None => {
            if f.default_when_null {
                Ok(f.default())
            } else if f.opt {
                Ok(None)
            } else if f.ty == "list" {
                Ok(f.default()) // a null list deserializes to the empty Vec
            } else {
                Err(())
            }
        }
        Some(b) => Ok(Some(b.clone())),
    }
}

/// documented acceptance of by-name deserialization (type check + deserialize)
fn de_expected_ok(d: &StructD, db: &[Col], cells: &[Leaf]) -> bool {
    let lv = all_leaves(d);
    let is_value = d.kind == "value";
    let active: Vec<&FieldD> = lv.iter().filter(|(_, s)| !s).map(|(f, _)| f).collect();
    for f in &active {
        let pos: Vec<usize> = (0..db.len()).filter(|&i| db[i].name == f.col()).collect();
        match pos.len() {
            0 => {
                if !(is_value && f.allow_missing) {
                    return false;
                }
            }
            1 => {
                let i = pos[0];
                if db[i].ty != f.ty {
                    return false;
                }
                match cells.get(i).cloned().unwrap_or(None) {
                    None => {
                        if !(f.opt || f.default_when_null || f.ty == "list") {
                            return false;
                        }
                    }
                    Some(b) => {
                        if f.ty == "int" && b.len() != 4 {
                            return false;
                        }
                    }
                }
            }
            _ => return false,
        }
    }
    let excess = db.iter().any(|c| !active.iter().any(|f| f.col() == c.name));
    if excess && (!is_value || d.forbid) {
        return false;
    }
    // a row must carry a cell for every column
    is_value || cells.len() >= db.len()
}

fn oracle_de(d: &StructD, db: &[Col], cells: &[Leaf], res: &Result<Vec<Leaf>, String>, ctx: &mut Ctx) {
    let lv = all_leaves(d);
    let is_value = d.kind == "value";
    if d.by_name && res.is_ok() != de_expected_ok(d, db, cells) {
        ctx.fail(match res {
            Ok(_) => "deserialization accepted what the attributes document as rejected".to_owned(),
            Err(k) => format!("deserialization rejected ({}) what the attributes document as accepted", k),
        });
    }
    if let (false, Err(k)) = (d.by_name, res) {
        if ordered_de_expected(d, db, cells).is_some() {
            ctx.fail(format!("ordered type check / deserialization rejected ({}) the declared order under the database names", k));
        }
    }
    let Ok(vals) = res else { return };
    if vals.len() != lv.len() {
        ctx.fail("wrong number of fields in the deserialized struct");
        return;
    }
    if d.by_name {
        for ((f, skipped), got) in lv.iter().zip(vals) {
            let pos: Vec<usize> = (0..db.len()).filter(|&i| db[i].name == f.col()).collect();
            let expected: Leaf = if *skipped {
                f.default()
            } else if pos.len() > 1 {
                ctx.fail(format!("column {} listed twice was accepted", f.col()));
                continue;
            } else if pos.is_empty() {
                if !(is_value && f.allow_missing) {
                    ctx.fail(format!("deserialization succeeded although required column {} is missing", f.col()));
                }
                f.default()
            } else {
                if db[pos[0]].ty != f.ty {
                    ctx.fail(format!("column {} of type {} accepted for a {} field", f.col(), db[pos[0]].ty, f.ty));
                }
                let cell = cells.get(pos[0]).cloned().unwrap_or(None);
                match expected_field(f, &cell) {
                    Ok(v) => v,
                    Err(()) => {
                        ctx.fail(format!("null in column {} accepted for a non-optional field", f.col()));
                        continue;
                    }
                }
            };
            if *got != expected {
                ctx.fail(format!("field {} = {} but the like-named column holds {}", f.rust, tok(got), tok(&expected)));
            }
        }
        let excess = db.iter().any(|c| !lv.iter().any(|(f, s)| !s && f.col() == c.name));
        if excess && (!is_value || d.forbid) {
            ctx.fail("excess column accepted although the attributes forbid it");
        }
    } else if !d.snc && !ordered_shape_ok(d, db, is_value && !d.forbid) {
        ctx.fail("ordered flavor accepted a column list that is not in the declared order");
    }
    if !d.by_name {
        // exact documented outcome from the declared database names (after `rename`)
        if let Some(expected) = ordered_de_expected(d, db, cells) {
            if *vals != expected {
                ctx.fail(format!("ordered deserialization returned {} but the declared order binds {}", toks(vals), toks(&expected)));
            }
        } else {
            ctx.fail("ordered deserialization accepted a column list / cells the declared order rejects");
        }
    }
}

fn fmt_ok(ls: &[Leaf]) -> String {
    if ls.is_empty() { "ok".to_owned() } else { format!("ok {}", toks(ls)) }
}

pub fn run(case: &str, ctx: &mut Ctx) -> String {
    let fam = family();
    // an empty column / value list leaves "a ; ; b" resp. a trailing " ;"
    let sections: Vec<Vec<&str>> = case.split(';').map(|s| s.split_whitespace().collect()).collect();
    if sections.len() != 3 || sections[0].len() < 2 {
        return "bad-case".to_owned();
    }
    let head = &sections[0];
    let op = head[0];
    let Some(&idx) = fam.index.get(head[1]) else { return "bad-case unknown-struct".to_owned() };
    let (info, d) = (&fam.infos[idx], &fam.descs[idx]);
    if head[1..].join(" ") != desc_tokens(d) {
        return "bad-case descriptor-differs-from-table".to_owned();
    }
    let Some(db) = parse_db(&sections[1]) else { return "bad-case".to_owned() };
    if op == "du" {
        let Some(raw) = info.de_raw else { return "bad-case".to_owned() };
        let kind_ok = sections[2].first().is_some_and(|k| (*k == "udt") == (d.kind == "value") && (*k == "udt" || *k == "row"));
        let Some(cells) = parse_vals(&sections[2][1.min(sections[2].len())..]) else { return "bad-case".to_owned() };
        if !kind_ok {
            return "bad-case".to_owned();
        }
        let bytes = encode_cells(&cells);
        let checked = info.de.map(|de| de(&db, Some(&bytes)));
        let res = std::panic::catch_unwind(std::panic::AssertUnwindSafe(|| raw(&db, Some(&bytes))));
        return match res {
            Err(_) => {
                // a panic in the generated code is legitimate only on input the type check rejects
                if let Some(Ok(_)) | Some(Err(DeErr::Deser(_))) = checked {
                    ctx.fail("generated deserialize panicked on input that passes type_check");
                }
                "PANIC".to_owned()
            }
            Ok(Ok(v)) => fmt_ok(&v),
            Ok(Err(DeErr::Deser(e))) => format!("err deser {}", de_err_kind(&d.kind, &e)),
            Ok(Err(DeErr::TypeCheck(e))) => format!("err typecheck {}", tc_err_kind(&d.kind, &e)),
        };
    }
    // `dv … ; … ; NULL`: the whole UDT value is null
    let whole_null = op == "dv" && sections[2] == ["NULL"];
    let Some(vals) = (if whole_null { Some(vec![]) } else { parse_vals(&sections[2]) }) else { return "bad-case".to_owned() };
    let lv = all_leaves(d);
    // `-:notudt`: the generated code is handed a CQL type that is not a UDT
    let not_udt = db.len() == 1 && db[0].ty == "notudt";
    if db.iter().any(|c| c.ty == "notudt") && !(not_udt && (op == "sv" || op == "dv")) {
        return "bad-case".to_owned();
    }
    if not_udt {
        return match op {
            "sv" => {
                if vals.len() != lv.len() {
                    return "bad-case".to_owned();
                }
                match (info.ser)(&vals, &db) {
                    Ok(_) => {
                        ctx.fail("a struct was serialized as a UDT into a column type that is not a UDT");
                        "ok NOT-UDT-ACCEPTED".to_owned()
                    }
                    Err(e) => format!("err ser {}", ser_err_kind(&d.kind, &e)),
                }
            }
            _ => {
                let Some(de) = info.de else { return "bad-case".to_owned() };
                let bytes = encode_cells(&vals);
                match de(&db, if whole_null { None } else { Some(&bytes) }) {
                    Ok(_) => {
                        ctx.fail("a non-UDT column type passed the UDT type check");
                        "ok NOT-UDT-ACCEPTED".to_owned()
                    }
                    Err(DeErr::TypeCheck(e)) => format!("err typecheck {}", tc_err_kind(&d.kind, &e)),
                    Err(DeErr::Deser(e)) => format!("err deser {}", de_err_kind(&d.kind, &e)),
                }
            }
        };
    }
    if op == "ie" {
        let Some(f) = info.is_empty else { return "bad-case".to_owned() };
        if vals.len() != lv.len() {
            return "bad-case".to_owned();
        }
        let got = f(&vals);
        // `is_empty()` is consulted by the session to decide whether values are sent at all. The generated body counts
        // the struct's own TOP-LEVEL unskipped fields: a `#[scylla(flatten)]` field counts as one even when the
        // flattened struct itself has no (unskipped) field, so S05 `{a, e: IE}` and a struct whose only field is a
        // flattened empty struct are both non-empty. What the session then DOES with the answer is not driven here.
        let expected = d.fields.iter().all(|f| f.skip);
        if got != expected {
            ctx.fail(format!("is_empty() = {} for a struct with {} unskipped field(s)", got, d.fields.iter().filter(|f| !f.skip).count()));
        }
        return got.to_string();
    }
    match op {
        "sv" | "sr" => {
            if (op == "sv") != (d.kind == "value") || vals.len() != lv.len() {
                return "bad-case".to_owned();
            }
            for ((f, _), v) in lv.iter().zip(&vals) {
                let ok = match v {
                    None => f.opt,
                    Some(b) => match f.ty {
                        "int" => b.len() == 4,
                        "text" => b.iter().all(|x| *x < 0x80),
                        _ => true,
                    },
                };
                if !ok {
                    return "bad-case".to_owned();
                }
            }
            let raw = (info.ser)(&vals, &db);
            let res: Result<Vec<Leaf>, String> = match &raw {
                Ok(buf) => {
                    let body: Option<&[u8]> = if d.kind == "value" {
                        if buf.len() >= 4 && i32::from_be_bytes([buf[0], buf[1], buf[2], buf[3]]) as i64 == buf.len() as i64 - 4 {
                            Some(&buf[4..])
                        } else {
                            None
                        }
                    } else {
                        Some(&buf[..])
                    };
                    match body.and_then(decode_cells) {
                        Some(cells) => Ok(cells),
                        None => {
                            ctx.fail("serialized bytes are not a well-formed sequence of cells");
                            return "ok MALFORMED".to_owned();
                        }
                    }
                }
                Err(e) => Err(ser_err_kind(&d.kind, e)),
            };
            oracle_ser(d, &db, &vals, &res, ctx);
            // value -> bytes -> value is the identity (by name, any database order)
            if let (Ok(cells), Some(de)) = (&res, info.de) {
                let active: Vec<&FieldD> = lv.iter().filter(|(_, s)| !s).map(|(f, _)| f).collect();
                let types_agree = db.iter().all(|c| active.iter().all(|f| f.col() != c.name || f.ty == c.ty));
                if !d.by_name && uniform_snc(d) {
                    // ordered flavor: what was written under the declared database names must type-check and come back
                    if let Some(b) = ordered_binding(d, &db) {
                        let types_eq = b.iter().zip(&lv).all(|(bi, (f, _))| bi.is_none_or(|i| db[i].ty == f.ty));
                        if types_eq {
                            match de(&db, Some(&encode_cells(cells))) {
                                Ok(back) => {
                                    for (((bi, (f, _)), v), got) in b.iter().zip(&lv).zip(&vals).zip(&back) {
                                        let expected = if bi.is_some() { v.clone() } else { f.default() };
                                        if *got != expected {
                                            ctx.fail(format!("ordered round trip changed field {}: {} -> {}", f.rust, tok(&expected), tok(got)));
                                        }
                                    }
                                }
                                Err(DeErr::TypeCheck(e)) => ctx.fail(format!("ordered round trip: type check rejected what serialization wrote under the declared names ({})", tc_err_kind(&d.kind, &e))),
                                Err(DeErr::Deser(e)) => ctx.fail(format!("ordered round trip: deserialization failed ({})", de_err_kind(&d.kind, &e))),
                            }
                        }
                    }
                }
                if d.by_name && nodup(&db) && types_agree {
                    match de(&db, Some(&encode_cells(cells))) {
                        Ok(back) => {
                            for (((f, skipped), v), got) in lv.iter().zip(&vals).zip(&back) {
                                let present = db.iter().any(|c| c.name == f.col());
                                let expected = if *skipped || !present { f.default() } else { v.clone() };
                                if *got != expected {
                                    ctx.fail(format!("round trip changed field {}: {} -> {}", f.rust, tok(&expected), tok(got)));
                                }
                            }
                        }
                        Err(DeErr::TypeCheck(e)) => ctx.fail(format!("round trip: type check rejected what serialization accepted ({})", tc_err_kind(&d.kind, &e))),
                        Err(DeErr::Deser(e)) => ctx.fail(format!("round trip: deserialization failed ({})", de_err_kind(&d.kind, &e))),
                    }
                }
            }
            match res {
                Ok(cells) => fmt_ok(&cells),
                Err(k) => format!("err ser {}", k),
            }
        }
        "dv" | "dr" => {
            let Some(de) = info.de else { return "bad-case".to_owned() };
            if (op == "dv") != (d.kind == "value") {
                return "bad-case".to_owned();
            }
            let bytes = encode_cells(&vals);
            let raw = de(&db, if whole_null { None } else { Some(&bytes) });
            if whole_null {
                return match raw {
                    Ok(_) => {
                        ctx.fail("a null UDT value was deserialized into a struct");
                        "ok NULL-ACCEPTED".to_owned()
                    }
                    Err(DeErr::TypeCheck(e)) => format!("err typecheck {}", tc_err_kind(&d.kind, &e)),
                    Err(DeErr::Deser(e)) => format!("err deser {}", de_err_kind(&d.kind, &e)),
                };
            }
            let (res, line): (Result<Vec<Leaf>, String>, String) = match raw {
                Ok(v) => {
                    let l = fmt_ok(&v);
                    (Ok(v), l)
                }
                Err(DeErr::TypeCheck(e)) => {
                    let k = tc_err_kind(&d.kind, &e);
                    (Err(k.clone()), format!("err typecheck {}", k))
                }
                Err(DeErr::Deser(e)) => {
                    let k = de_err_kind(&d.kind, &e);
                    (Err(k.clone()), format!("err deser {}", k))
                }
            };
            oracle_de(d, &db, &vals, &res, ctx);
            line
        }
        _ => "bad-case".to_owned(),
    }
}

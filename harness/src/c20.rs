//! C20 — after USE keyspace succeeds, all requests run on connections in that keyspace.
//!
//! Cases:
//! * `name <hex utf8> <cs>`   `VerifiedKeyspaceName::new` + the statement text `Connection::use_keyspace` would send
//!                            → `ok <hex statement>` | `err Empty|TooLong|IllegalCharacter`
//! * `resp <hex name> <cs> <setks|error|void|close> <hex response name>`   one real connection, one `USE`
//!                            exchange against the scripted node → `ok` | `err <label>`
//! * `ukr <label,label,...>`  `use_keyspace_result` (cluster/worker.rs) on one combination of per-target results
//!   (ok | broken | timeout | db | mismatch | unexpected; `-` = none) → `ok` | `err:<label>` | `panic`; all combinations of 0..4 targets
//! * `pool <H|S><n> <init|-> <name:cs,...> <step;...>`   a REAL `NodeConnectionPool` (PoolRefiller task included)
//!   against the scripted node (H = PerHost(n) on an unsharded node, S = PerShard(1) on a node with n shards
//!   behind a shard-aware port). Steps (each prints one token):
//!     `U<i>` use_keyspace(names[i])            → `ok` | `e:<label>`
//!     `Q<s>` query on shard s (H: random)      → `q<server keyspace at arrival>@<shard of the connection>` | `q!`
//!     `J`    query through random_connection (also on a sharded pool) → as `Q`
//!     `K<s>` node closes the connection of shard s (H: the oldest live one) → `k` | `k-`
//!     `W`    wait until the pool is full again (≤ 1.5 s)  → `w<count>`
//!     `R<i>,<s|*>` / `M..` / `V..` / `P..` / `C..`  node rule for `USE names[i]` on shard s: reject (ERROR) /
//!            acknowledge ANOTHER keyspace / answer Void / answer with the name upper-cased / close the connection (once)
//!     `X`    drop all rules      `D` hold the `USE` answers on connections accepted from now on
//!     `H`    wait until a held `USE` is pending at the node      `G` release the held answers (oldest first)
//!     `E` / `E<k>` hold back all / the next k `USE` answers on the EXISTING connections (a call then times out)
//!     `O<s>,<k>` the node answers the k-th held `USE` of shard s's connection now (k > 0: out of order) → `o` | `o-`
//!     `Y<i>,<s>` a user statement `USE names[i]` on the connection of shard s (S mode) → `y` | `y!`
//!     `L`    list the live connections at the node with the `USE` statements each acknowledged: `l[i>j,...]` (sorted)
//!   `S<n>@e.e.e`: what the node does with the first accepted connections: `x` = refuse (accept and close),
//!   `<shard>/<nr>` = report this shard of nr shards whatever the source port (afterwards: shard = source port % nr).
//! * `race <H|S><n> <init|-> <names> <step;...>`   the same on a multi-thread runtime without waiting:
//!     `U<i>`, `Q<s>`, `K<s>`, `Z<ms>` sleep, `B<i>` = use_keyspace(names[i]) concurrently with a burst of
//!     queries on every shard. Output `race`; only the oracle judges. The scripted node runs on its own OS thread
//!     and runtime (env C20_NODE_SAME_RUNTIME / C20_RACE_CURRENT_THREAD are developer switches).
//!
//! Watchdog (hard oracle): a pool/race case still unfinished after 25 s is given 60 s more ON THE SAME RUN (slowness
//! is tolerated, nothing is re-run); unfinished after that = a request or use_keyspace call that never completes
//! = `HANG` + oracle failure (details in /verif/work/C20-hangs.log). History: this watchdog found the stranded
//! submit-channel task of the connection router (a query submitted while the router terminates never completed,
//! ~2 in 1000 race cases on the multi-thread runtime), repaired in /repo by 8b0b75c.
use crate::mocknode::{
    Parsed, RESP_ERROR, RESP_READY, RESP_RESULT, RESP_SUPPORTED, body_error, body_set_keyspace, body_supported_ext, body_void, frame,
    parse_request,
};
use crate::rng::Rng;
use crate::util::{hex, unhex};
use crate::{Ctx, Tier};
use scylla::verif_hooks::connection::{VerifConn, VerifConnOptions, verify_keyspace_name};
use scylla::verif_hooks::pool::VerifPool;
use std::net::SocketAddr;
use std::num::NonZeroUsize;
use std::sync::atomic::{AtomicU64, Ordering};
use std::sync::{Arc, Mutex};
use std::time::Duration;
use tokio::io::{AsyncReadExt, AsyncWriteExt};
use tokio::net::TcpListener;
use tokio::sync::Notify;

// ---------------------------------------------------------------------------------------------
// the specification of a valid name, written from the property text (NOT from the driver)
// ---------------------------------------------------------------------------------------------

fn spec_valid(name: &str) -> bool {
    let n = name.chars().count();
    (1..=48).contains(&n) && name.chars().all(|c| c.is_ascii_alphanumeric() || c == '_')
}

fn spec_statement(name: &str, cs: bool) -> String {
    if cs { format!("USE \"{}\"", name) } else { format!("USE {}", name) }
}

/// The keyspace a CQL server selects for a `USE` statement: unquoted identifiers are lower-cased.
fn server_keyspace_of(stmt: &str) -> Option<String> {
    let rest = stmt.strip_prefix("USE ")?;
    if let Some(q) = rest.strip_prefix('"') {
        let inner = q.strip_suffix('"')?;
        if spec_valid(inner) { Some(inner.to_owned()) } else { None }
    } else if spec_valid(rest) {
        Some(rest.to_ascii_lowercase())
    } else {
        None
    }
}

// ---------------------------------------------------------------------------------------------
// the scripted node
// ---------------------------------------------------------------------------------------------

#[derive(Clone, Copy, PartialEq, Debug)]
enum RuleKind {
    Reject,
    Mismatch,
    Void,
    Upper,
    CloseOnce,
}

struct Rule {
    stmt: String,
    shard: Option<u16>,
    /// `CloseOnce`: the connection chosen when the rule was installed
    conn: Option<usize>,
    kind: RuleKind,
    spent: bool,
}

/// The live connection with the smallest (acknowledged-USE history, shard, accept index): a choice that does not
/// depend on the accept order of connections with equal histories.
fn canonical_victim(st: &State, stmts: &[String], shard: Option<u16>) -> Option<usize> {
    let row = |c: &ConnRec| -> String {
        c.acked.iter().map(|a| stmts.iter().position(|s| s == a).map_or("?".to_owned(), |i| i.to_string())).collect::<Vec<_>>().join(">")
    };
    st.conns
        .iter()
        .enumerate()
        .filter(|(_, c)| c.live && (shard.is_none() || c.shard == shard))
        .min_by_key(|(i, c)| (row(c), c.shard, *i))
        .map(|(i, _)| i)
}

struct ConnRec {
    shard: Option<u16>,
    live: bool,
    ks: Option<String>,
    acked: Vec<String>,
    answered: usize,
    /// how many of the next `USE` statements are held back (u32::MAX = all until released)
    hold: u32,
    /// held `USE` statements (stream id, text), oldest first
    pending: Vec<(i16, String)>,
    /// positions in `pending` to answer now (out of order if not 0); `release` = answer all, oldest first
    answer_now: Vec<usize>,
    release: bool,
    wake: Arc<Notify>,
    kill: Arc<Notify>,
}

struct QueryRec {
    tag: u64,
    conn: usize,
    ks: Option<String>,
    stamp: u64,
}

#[derive(Default)]
struct State {
    conns: Vec<ConnRec>,
    rules: Vec<Rule>,
    hold_new: bool,
    /// handshakes 60 ms apart (`H<n>s`)
    stagger: bool,
    queries: Vec<QueryRec>,
    /// every QUERY text received
    texts: Vec<String>,
    /// what `resp` cases answer to USE
    fixed_reply: Option<(String, String)>,
    /// what the node does with the next accepted connections (then: shard by source port)
    script: Vec<AcceptRule>,
    accepted: usize,
    /// shards the node currently reports (None = not sharded)
    cur_n: Option<u16>,
}

#[derive(Clone, Copy, Debug, PartialEq)]
enum AcceptRule {
    /// accept and close at once: the driver's `open_connection` fails
    Refuse,
    /// report this shard of this many shards, whatever the source port
    Place(u16, u16),
}

struct Node {
    addr: SocketAddr,
    st: Arc<Mutex<State>>,
    clock: Arc<AtomicU64>,
    task: Option<tokio::task::JoinHandle<()>>,
    /// a node running on its own OS thread and its own runtime (race cases): stop signal + thread
    own: Option<(tokio::sync::oneshot::Sender<()>, std::thread::JoinHandle<()>)>,
}

impl Drop for Node {
    fn drop(&mut self) {
        if let Some(t) = &self.task {
            t.abort();
        }
        for c in self.st.lock().unwrap().conns.iter() {
            c.kill.notify_one();
        }
        if let Some((stop, th)) = self.own.take() {
            let _ = stop.send(());
            let _ = th.join();
        }
    }
}

enum Reply {
    Frame(u8, Vec<u8>),
    Close,
}

impl Node {
    async fn start(shards: Option<u16>) -> Node {
        Self::start_scripted(shards, vec![]).await
    }

    async fn start_scripted(shards: Option<u16>, script: Vec<AcceptRule>) -> Node {
        let listener = TcpListener::bind("127.0.0.1:0").await.unwrap();
        let addr = listener.local_addr().unwrap();
        let st: Arc<Mutex<State>> = Arc::new(Mutex::new(State { script, cur_n: shards, ..State::default() }));
        let clock = Arc::new(AtomicU64::new(1));
        let (st2, clock2) = (Arc::clone(&st), Arc::clone(&clock));
        let task = tokio::spawn(async move {
            loop {
                let (mut sock, peer) = match listener.accept().await {
                    Ok(x) => x,
                    Err(_) => {
                        tokio::time::sleep(Duration::from_millis(5)).await;
                        continue;
                    }
                };
                // close with RST: thousands of short-lived loopback connections per run must not pile up in
                // TIME_WAIT (ephemeral ports would run out)
                #[allow(deprecated)]
                let _ = sock.set_linger(Some(Duration::ZERO));
                let kill = Arc::new(Notify::new());
                let wake = Arc::new(Notify::new());
                let (rule, stagger) = {
                    let mut s = st2.lock().unwrap();
                    let k = s.accepted;
                    s.accepted += 1;
                    (s.script.get(k).copied(), s.stagger && k > 0)
                };
                if stagger {
                    tokio::time::sleep(Duration::from_millis(60)).await;
                }
                if rule == Some(AcceptRule::Refuse) {
                    drop(sock);
                    continue;
                }
                let shard = {
                    let mut s = st2.lock().unwrap();
                    match rule {
                        Some(AcceptRule::Place(sh, nr)) => {
                            s.cur_n = Some(nr);
                            Some((sh, nr, 12u8))
                        }
                        _ => s.cur_n.map(|n| (peer.port() % n, n, 12u8)),
                    }
                };
                let conn = {
                    let mut s = st2.lock().unwrap();
                    let hold = if s.hold_new { u32::MAX } else { 0 };
                    s.conns.push(ConnRec {
                        shard: shard.map(|x| x.0),
                        live: true,
                        ks: None,
                        acked: vec![],
                        answered: 0,
                        hold,
                        pending: vec![],
                        answer_now: vec![],
                        release: false,
                        wake: Arc::clone(&wake),
                        kill: Arc::clone(&kill),
                    });
                    s.conns.len() - 1
                };
                let st = Arc::clone(&st2);
                let clock = Arc::clone(&clock2);
                tokio::spawn(async move {
                    let dead = |st: &Arc<Mutex<State>>| st.lock().unwrap().conns[conn].live = false;
                    // Frames are cut out of `buf`; reads are plain `read` calls (cancel-safe), so the task can also
                    // be woken to answer held statements - in order or not - while it waits for the next frame.
                    let mut buf: Vec<u8> = Vec::new();
                    let mut tmp = vec![0u8; 8192];
                    loop {
                        // 1. held statements the script wants answered now
                        let due: Vec<(i16, String)> = {
                            let mut s = st.lock().unwrap();
                            let c = &mut s.conns[conn];
                            let mut due = Vec::new();
                            if c.release {
                                c.release = false;
                                c.hold = 0;
                                c.answer_now.clear();
                                due.append(&mut c.pending);
                            } else {
                                let mut idx = std::mem::take(&mut c.answer_now);
                                idx.sort_unstable_by(|a, b| b.cmp(a));
                                let mut taken = Vec::new();
                                for i in idx {
                                    if i < c.pending.len() {
                                        taken.push(c.pending.remove(i));
                                    }
                                }
                                taken.reverse();
                                due = taken;
                            }
                            due
                        };
                        for (stream, text) in due {
                            let reply = {
                                let mut s = st.lock().unwrap();
                                Self::answer_query(&mut s, conn, &text, &clock)
                            };
                            match reply {
                                Reply::Frame(op, b) => {
                                    if sock.write_all(&frame(stream, op, &b)).await.is_err() {
                                        dead(&st);
                                        return;
                                    }
                                }
                                Reply::Close => {
                                    dead(&st);
                                    return;
                                }
                            }
                        }
                        // 2. complete frames received so far
                        let mut progressed = false;
                        while buf.len() >= 9 {
                            let len = u32::from_be_bytes([buf[5], buf[6], buf[7], buf[8]]) as usize;
                            if buf.len() < 9 + len {
                                break;
                            }
                            progressed = true;
                            let hdr: Vec<u8> = buf[..9].to_vec();
                            let body: Vec<u8> = buf[9..9 + len].to_vec();
                            buf.drain(..9 + len);
                            let stream = i16::from_be_bytes([hdr[2], hdr[3]]);
                            let parsed = parse_request(hdr[4], &body, false);
                            let reply = match &parsed {
                                Parsed::Options => Some(Reply::Frame(RESP_SUPPORTED, body_supported_ext(false, shard, shard.map(|_| addr.port())))),
                                Parsed::Startup(_) | Parsed::Register(_) => Some(Reply::Frame(RESP_READY, vec![])),
                                Parsed::Query { text, .. } => {
                                    let mut s = st.lock().unwrap();
                                    s.texts.push(text.clone());
                                    if text.starts_with("USE ") && s.conns[conn].hold > 0 {
                                        // held back: answered when the script says so
                                        if s.conns[conn].hold != u32::MAX {
                                            s.conns[conn].hold -= 1;
                                        }
                                        s.conns[conn].pending.push((stream, text.clone()));
                                        None
                                    } else {
                                        Some(Self::answer_query(&mut s, conn, text, &clock))
                                    }
                                }
                                _ => Some(Reply::Frame(RESP_ERROR, body_error(0x000A, "unsupported by the scripted node", &[]))),
                            };
                            match reply {
                                Some(Reply::Frame(op, b)) => {
                                    if sock.write_all(&frame(stream, op, &b)).await.is_err() {
                                        dead(&st);
                                        return;
                                    }
                                }
                                Some(Reply::Close) => {
                                    dead(&st);
                                    return;
                                }
                                None => {}
                            }
                        }
                        if progressed {
                            continue;
                        }
                        // 3. wait for bytes, a wake-up or the kill
                        tokio::select! {
                            _ = kill.notified() => { dead(&st); return; }
                            _ = wake.notified() => {}
                            r = sock.read(&mut tmp) => {
                                match r {
                                    Ok(0) | Err(_) => { dead(&st); return; }
                                    Ok(n) => buf.extend_from_slice(&tmp[..n]),
                                }
                            }
                        }
                    }
                });
            }
        });
        Node { addr, st, clock, task: Some(task), own: None }
    }

    fn answer_query(s: &mut State, conn: usize, text: &str, clock: &AtomicU64) -> Reply {
        if text.starts_with("USE ") {
            if let Some((kind, name)) = s.fixed_reply.clone() {
                return match kind.as_str() {
                    "setks" => Reply::Frame(RESP_RESULT, body_set_keyspace(&name)),
                    "error" => Reply::Frame(RESP_ERROR, body_error(0x2200, "invalid", &[])),
                    "void" => Reply::Frame(RESP_RESULT, body_void()),
                    _ => Reply::Close,
                };
            }
            let shard = s.conns[conn].shard;
            let rule = s
                .rules
                .iter_mut()
                .find(|r| !r.spent && r.stmt == text && (r.shard.is_none() || r.shard == shard) && (r.conn.is_none() || r.conn == Some(conn)));
            let kind = rule.map(|r| {
                if r.kind == RuleKind::CloseOnce {
                    r.spent = true;
                }
                r.kind
            });
            let Some(ks) = server_keyspace_of(text) else {
                // not a statement of the allowed shape: a real node would answer a syntax error
                return Reply::Frame(RESP_ERROR, body_error(0x2000, "syntax error", &[]));
            };
            match kind {
                Some(RuleKind::Reject) => Reply::Frame(RESP_ERROR, body_error(0x2200, "Keyspace does not exist", &[])),
                Some(RuleKind::Void) => Reply::Frame(RESP_RESULT, body_void()),
                Some(RuleKind::CloseOnce) => Reply::Close,
                Some(RuleKind::Mismatch) => {
                    s.conns[conn].ks = Some("zz_other".to_owned());
                    s.conns[conn].answered += 1;
                    Reply::Frame(RESP_RESULT, body_set_keyspace("zz_other"))
                }
                Some(RuleKind::Upper) | None => {
                    s.conns[conn].ks = Some(ks.clone());
                    s.conns[conn].acked.push(text.to_owned());
                    s.conns[conn].answered += 1;
                    let shown = if kind.is_some() { ks.to_ascii_uppercase() } else { ks };
                    Reply::Frame(RESP_RESULT, body_set_keyspace(&shown))
                }
            }
        } else if let Some(tag) = text.strip_prefix("SELECT ") {
            let stamp = clock.fetch_add(1, Ordering::SeqCst);
            let ks = s.conns[conn].ks.clone();
            s.queries.push(QueryRec { tag: tag.parse().unwrap_or(u64::MAX), conn, ks, stamp });
            s.conns[conn].answered += 1;
            Reply::Frame(RESP_RESULT, body_void())
        } else {
            Reply::Frame(RESP_ERROR, body_error(0x2200, "unknown statement", &[]))
        }
    }

    /// The node resets every connection (so that neither side lingers in TIME_WAIT) and stops accepting.
    /// The same node on its own OS thread with its own current-thread runtime, so that the driver under
    /// test and the scripted node do not share a scheduler.
    fn start_on_own_thread(shards: Option<u16>, script: Vec<AcceptRule>) -> Node {
        let (tx, rx) = std::sync::mpsc::channel();
        let (stop_tx, stop_rx) = tokio::sync::oneshot::channel::<()>();
        let th = std::thread::spawn(move || {
            let rt = tokio::runtime::Builder::new_current_thread().enable_all().build().unwrap();
            rt.block_on(async move {
                let node = Node::start_scripted(shards, script).await;
                tx.send((node.addr, Arc::clone(&node.st), Arc::clone(&node.clock))).unwrap();
                let _ = stop_rx.await;
                node.close_all().await;
            });
        });
        let (addr, st, clock) = rx.recv().unwrap();
        Node { addr, st, clock, task: None, own: Some((stop_tx, th)) }
    }

    async fn close_all(&self) {
        if let Some(t) = &self.task {
            t.abort();
        }
        for c in self.st.lock().unwrap().conns.iter() {
            c.kill.notify_one();
        }
        tokio::time::sleep(Duration::from_millis(2)).await;
    }

    fn tick(&self) -> u64 {
        self.clock.fetch_add(1, Ordering::SeqCst)
    }
    fn live_count(&self) -> usize {
        self.st.lock().unwrap().conns.iter().filter(|c| c.live).count()
    }
}

// ---------------------------------------------------------------------------------------------
// generators
// ---------------------------------------------------------------------------------------------

const SMALL_ALPHABET: [char; 12] = ['a', 'Z', '7', '_', ' ', ';', '"', '\'', '-', 'é', '\0', '/'];
const ILLEGAL: [char; 30] = [
    ' ', ';', '"', '\'', '-', '.', '$', '/', ':', '@', '[', '`', '{', '^', '\\', '\n', '\0', 'é', 'ß', 'ñ', 'λ', 'Ж', 'Ａ', '０', '١', '五',
    'ǅ', 'ª', '²', '😀',
];
const LEGAL: &[u8] = b"abcdefghijklmnopqrstuvwxyzABCDEFGHIJKLMNOPQRSTUVWXYZ0123456789_";

fn legal_string(rng: &mut Rng, n: usize) -> String {
    (0..n).map(|_| *rng.pick(LEGAL) as char).collect()
}

fn random_name(rng: &mut Rng) -> String {
    let len = match rng.below(4) {
        0 => *rng.pick(&[1usize, 2, 3, 46, 47, 48, 49, 50, 59, 60]),
        1 => rng.range(0, 60) as usize,
        2 => rng.range(44, 52) as usize,
        _ => rng.range(1, 20) as usize,
    };
    let mut chars: Vec<char> = legal_string(rng, len).chars().collect();
    match rng.below(8) {
        // all legal
        0 | 1 | 2 => {}
        // one or two illegal characters substituted (length in characters unchanged)
        3 | 4 => {
            for _ in 0..rng.range(1, 2) {
                if !chars.is_empty() {
                    let i = rng.below(chars.len() as u64) as usize;
                    chars[i] = *rng.pick(&ILLEGAL);
                }
            }
        }
        // only multi-byte characters: byte length and character count differ
        5 => {
            let c = *rng.pick(&['é', 'Ж', '五', '😀', 'Ａ']);
            chars = vec![c; len];
        }
        // legal prefix, multi-byte tail (bytes > 48 >= chars around the boundary)
        6 => {
            let k = rng.below(len as u64 + 1) as usize;
            for ch in chars.iter_mut().skip(k) {
                *ch = 'é';
            }
        }
        // an injection attempt
        _ => {
            let tail = *rng.pick(&["; DROP KEYSPACE x", "\" ; --", " x", "\"", "a\"b", "'x'", "ks.t"]);
            let keep = rng.below(chars.len() as u64 + 1) as usize;
            chars.truncate(keep);
            chars.extend(tail.chars());
        }
    }
    chars.into_iter().collect()
}

const KS_POOL: [(&str, bool); 10] = [
    ("ks_a", false),
    ("Ks_B", true),
    ("KS_A", false),
    ("k1", false),
    ("_x", true),
    ("Ks_B", false),
    ("a23456789_123456789_123456789_123456789_12345678", false),
    ("Z", true),
    ("ks_a", true),
    ("q9", false),
];
const BAD_POOL: [&str; 5] = ["bad name", "", "a23456789_123456789_123456789_123456789_123456789", "k;s", "ké"];

struct Scenario {
    names: Vec<(String, bool)>,
}

fn pick_names(rng: &mut Rng, n: usize, with_bad: bool) -> Scenario {
    let mut idx: Vec<usize> = (0..KS_POOL.len()).collect();
    rng.shuffle(&mut idx);
    let mut names: Vec<(String, bool)> = idx.iter().take(n).map(|&i| (KS_POOL[i].0.to_owned(), KS_POOL[i].1)).collect();
    if with_bad {
        names.push(((*rng.pick(&BAD_POOL)).to_owned(), rng.bool()));
    }
    Scenario { names }
}

fn names_field(names: &[(String, bool)]) -> String {
    names.iter().map(|(n, cs)| format!("{}:{}", hex(n.as_bytes()), *cs as u8)).collect::<Vec<_>>().join(",")
}

/// A deterministic (quiescent) pool script.
fn pool_script(rng: &mut Rng, sharded: bool, n: u64, nvalid: usize, has_bad: bool, has_init: bool) -> String {
    let mut steps: Vec<String> = Vec::new();
    let shard = |rng: &mut Rng| rng.below(n);
    let any = |rng: &mut Rng| if sharded && rng.chance(2, 3) { rng.below(n).to_string() } else { "*".to_owned() };
    let queries = |rng: &mut Rng, steps: &mut Vec<String>| {
        if sharded {
            for s in 0..n {
                steps.push(format!("Q{}", s));
            }
            if rng.chance(1, 3) {
                steps.push(format!("Q{}", rng.below(n)));
            }
            // random_connection on a sharded pool; a shard number out of range / not fitting u16 (treated as shard 0)
            if rng.chance(1, 3) {
                steps.push("J".into());
            }
            if rng.chance(1, 6) {
                steps.push(format!("Q{}", *rng.pick(&[n, n + 5, 65535, 65536, 65537, 131072 + 1])));
            }
        } else {
            for _ in 0..(n + 1) {
                steps.push("Q0".to_owned());
            }
        }
    };
    steps.push("W".into());
    let mut ks_set = has_init;
    // all connections of an unsharded pool still have the same history (no loss yet)
    let mut symmetric = true;
    let rounds = rng.range(2, 5);
    for _ in 0..rounds {
        match rng.below(14) {
            // plain switch
            0 | 1 => {
                steps.push(format!("U{}", rng.below(nvalid as u64)));
                ks_set = true;
                queries(rng, &mut steps);
            }
            // connection loss and refill
            2 | 3 => {
                symmetric = false;
                steps.push(format!("K{}", shard(rng)));
                steps.push("W".into());
                queries(rng, &mut steps);
            }
            // a keyspace the node rejects (everywhere or on one shard), then accepted again
            4 => {
                let i = rng.below(nvalid as u64);
                let kind = *rng.pick(&["R", "M", "V"]);
                steps.push(format!("{}{},{}", kind, i, any(rng)));
                steps.push(format!("U{}", i));
                ks_set = true;
                queries(rng, &mut steps);
                steps.push("X".into());
                if rng.bool() {
                    steps.push(format!("U{}", i));
                    queries(rng, &mut steps);
                }
            }
            // the node answers with the name in upper case (accepted)
            5 => {
                let i = rng.below(nvalid as u64);
                steps.push(format!("P{},{}", i, any(rng)));
                steps.push(format!("U{}", i));
                ks_set = true;
                queries(rng, &mut steps);
                steps.push("X".into());
            }
            // a connection is lost while the USE is on it
            6 | 7 => {
                symmetric = false;
                let i = rng.below(nvalid as u64);
                steps.push(format!("C{},{}", i, any(rng)));
                steps.push(format!("U{}", i));
                ks_set = true;
                steps.push("W".into());
                queries(rng, &mut steps);
                steps.push("X".into());
            }
            // a new connection is still having its keyspace set when the next use_keyspace arrives
            8 | 9 | 10 if ks_set => {
                symmetric = false;
                steps.push("D".into());
                steps.push(format!("K{}", shard(rng)));
                steps.push("H".into());
                let reps = rng.range(1, 2);
                for _ in 0..reps {
                    steps.push(format!("U{}", rng.below(nvalid as u64)));
                }
                if n > 1 {
                    queries(rng, &mut steps);
                }
                steps.push("G".into());
                steps.push("W".into());
                queries(rng, &mut steps);
            }
            // the node holds back the USE answers on the published connections: the call times out (1 s here) with its
            // USE in flight; after the release it is answered, before anything written later
            12 | 13 if rng.chance(4, 5) => {
                match rng.below(6) {
                    // answered in order after the release
                    0 | 1 => {
                        steps.push("E".into());
                        steps.push(format!("U{}", rng.below(nvalid as u64)));
                        steps.push("G".into());
                    }
                    // only the call's USE is held: a user statement USE written behind it is answered OUT OF ORDER,
                    // the held one is executed when it is released
                    2 | 3 if sharded || n == 1 || symmetric => {
                        steps.push("E1".into());
                        steps.push(format!("U{}", rng.below(nvalid as u64)));
                        steps.push(format!("Y{},{}", rng.below(nvalid as u64), if sharded { shard(rng) } else { 0 }));
                        queries(rng, &mut steps);
                        steps.push("G".into());
                        symmetric = false;
                    }
                    // two calls time out; the node answers the second USE before the first
                    _ if sharded || n == 1 || symmetric => {
                        steps.push("E".into());
                        steps.push(format!("U{}", rng.below(nvalid as u64)));
                        steps.push(format!("U{}", rng.below(nvalid as u64)));
                        steps.push(format!("O{},1", if sharded { shard(rng) } else { 0 }));
                        queries(rng, &mut steps);
                        steps.push("G".into());
                        symmetric = false;
                    }
                    _ => {
                        steps.push("E".into());
                        steps.push(format!("U{}", rng.below(nvalid as u64)));
                        steps.push("G".into());
                    }
                }
                queries(rng, &mut steps);
                steps.push(format!("U{}", rng.below(nvalid as u64)));
                ks_set = true;
                queries(rng, &mut steps);
            }
            // a user statement `USE x` on one connection, then the session's own use_keyspace(x). On an unsharded
            // pool the connection is chosen at random: only while all connections still have the same history
            11 if sharded || n == 1 || symmetric => {
                let i = rng.below(nvalid as u64);
                steps.push(format!("Y{},{}", i, if sharded { shard(rng) } else { 0 }));
                if !sharded {
                    symmetric = false;
                }
                queries(rng, &mut steps);
                steps.push(format!("U{}", i));
                ks_set = true;
                queries(rng, &mut steps);
            }
            // an invalid name
            _ => {
                if has_bad {
                    steps.push(format!("U{}", nvalid));
                } else {
                    steps.push(format!("U{}", rng.below(nvalid as u64)));
                    ks_set = true;
                }
                queries(rng, &mut steps);
            }
        }
    }
    steps.push("W".into());
    steps.push("L".into());
    steps.join(";")
}

fn race_script(rng: &mut Rng, n: u64, nvalid: usize) -> String {
    let mut steps: Vec<String> = vec!["W".into(), format!("U{}", rng.below(nvalid as u64))];
    for _ in 0..rng.range(3, 7) {
        match rng.below(6) {
            0 | 1 => steps.push(format!("B{}", rng.below(nvalid as u64))),
            2 => {
                steps.push(format!("K{}", rng.below(n)));
                if rng.bool() {
                    steps.push(format!("Z{}", *rng.pick(&[0, 1, 5, 40, 55, 70])));
                }
                steps.push(format!("B{}", rng.below(nvalid as u64)));
            }
            3 => {
                steps.push(format!("K{}", rng.below(n)));
                steps.push(format!("Z{}", *rng.pick(&[45, 50, 52, 60])));
                for s in 0..n {
                    steps.push(format!("Q{}", s));
                }
            }
            4 => steps.push(format!("U{}", rng.below(nvalid as u64))),
            _ => {
                for s in 0..n {
                    steps.push(format!("Q{}", s));
                }
            }
        }
    }
    for s in 0..n {
        steps.push(format!("Q{}", s));
    }
    steps.join(";")
}

/// Cases with a scripted node (`S2@...`): refused connections, requested-shard misses (advanced shard awareness
/// gets blocked, the connection is dropped and retried on the regular port), excess connections, a sharder
/// change on refill. At most one connection is being opened at any time, so the accept order is determined.
fn emit_scripted(rng: &mut Rng, emit: &mut dyn FnMut(String)) {
    let sc = pick_names(rng, 2, false);
    let has_init = rng.bool();
    let init = if has_init { "0".to_owned() } else { "-".to_owned() };
    let mut node: Vec<String> = Vec::new();
    let mut steps: Vec<String> = vec!["W".into()];
    let q2 = |steps: &mut Vec<String>| {
        steps.push("Q0".into());
        steps.push("Q1".into());
    };
    let variant = rng.below(8);
    let mut blocked = false;
    match variant {
        0 => {
            node.extend(["0/2", "0/2", "0/2", "1/2"].map(String::from));
            blocked = true;
        }
        1 => node.extend(["x", "0/2", "1/2"].map(String::from)),
        2 => node.extend(["0/2", "x", "1/2"].map(String::from)),
        3 => node.extend(["0/2", "1/2"].map(String::from)),
        4 => {
            node.extend(["1/2", "1/2", "0/2"].map(String::from));
            blocked = true;
        }
        5 => {
            node.extend(["1/2", "x", "x", "0/2"].map(String::from));
        }
        // the first connection lands on shard 1, the second on shard 0: the walk over the buckets (shard 0 first) is
        // NOT the acceptance order. Then the USE fails differently on the two: which error is reported?
        _ => {
            node.extend(["1/2", "0/2"].map(String::from));
            let kinds = ["R", "M", "V"];
            let a = *rng.pick(&kinds);
            let b = *kinds.iter().filter(|k| **k != a).nth(rng.below(2) as usize).unwrap();
            let (sa, sb) = if rng.bool() { (0, 1) } else { (1, 0) };
            if !has_init {
                steps.push("U1".into());
            }
            steps.push(format!("{}0,{}", a, sa));
            steps.push(format!("{}0,{}", b, sb));
            steps.push("U0".into());
            q2(&mut steps);
            steps.push("X".into());
            steps.push("U0".into());
            q2(&mut steps);
            steps.push("W".into());
            steps.push("L".into());
            emit(format!("pool S2@{} {} {} {}", node.join("."), init, names_field(&sc.names), steps.join(";")));
            return;
        }
    }
    if !has_init || rng.bool() {
        steps.push("U0".into());
    }
    q2(&mut steps);
    if variant == 3 {
        // the node has resharded when the pool refills
        steps.push("K1".into());
        node.push("0/3".into());
        steps.push("W".into());
        steps.extend(["Q0", "Q1", "Q2"].map(String::from));
        steps.push("U1".into());
        steps.extend(["Q0", "Q1", "Q2"].map(String::from));
    } else {
        if rng.bool() {
            let s = rng.below(2);
            steps.push(format!("K{}", s));
            if blocked {
                // regular-port connections: the node puts the first on the other (full) shard, then on the right one
                if rng.bool() {
                    node.push(format!("{}/2", 1 - s));
                }
                node.push(format!("{}/2", s));
            } else if rng.bool() {
                // the refill is refused once
                node.push("x".into());
            }
            steps.push("W".into());
            q2(&mut steps);
        }
        steps.push("U1".into());
        q2(&mut steps);
    }
    steps.push("W".into());
    steps.push("L".into());
    emit(format!("pool S2@{} {} {} {}", node.join("."), init, names_field(&sc.names), steps.join(";")));
}

fn emit_pool(rng: &mut Rng, emit: &mut dyn FnMut(String), race: bool) {
    if !race && rng.chance(1, 6) {
        return emit_scripted(rng, emit);
    }
    let sharded = rng.chance(2, 3);
    let n = if sharded { rng.range(1, 3) as u64 } else { rng.range(1, 3) as u64 };
    let nvalid = rng.range(2, 4) as usize;
    let has_bad = !race && rng.chance(1, 4);
    let sc = pick_names(rng, nvalid, has_bad);
    let has_init = rng.chance(1, 4);
    let init = if has_init { rng.below(nvalid as u64).to_string() } else { "-".to_owned() };
    let script = if race { race_script(rng, n, nvalid) } else { pool_script(rng, sharded, n, nvalid, has_bad, has_init) };
    emit(format!(
        "{} {}{} {} {} {}",
        if race { "race" } else { "pool" },
        if sharded { "S" } else { "H" },
        n,
        init,
        names_field(&sc.names),
        script
    ));
}

pub fn generate(rng: &mut Rng, tier: Tier, emit: &mut dyn FnMut(String)) {
    let scale: u64 = if tier == Tier::Quick { 1 } else { 12 };
    // pool / race cases take 0.1-2 s each: they are spread between the (fast) name cases so that every
    // chunk of the runner gets its share
    let n_pool = 220 * scale;
    let n_race = 60 * scale;
    let mut name_cases: Vec<String> = Vec::new();
    // exhaustive: all strings of length 0..3 over the 12-character alphabet
    let a = SMALL_ALPHABET;
    name_cases.push("name - 0".into());
    name_cases.push("name - 1".into());
    for &c1 in &a {
        let s: String = [c1].iter().collect();
        name_cases.push(format!("name {} 0", hex(s.as_bytes())));
        name_cases.push(format!("name {} 1", hex(s.as_bytes())));
        for &c2 in &a {
            let s: String = [c1, c2].iter().collect();
            name_cases.push(format!("name {} {}", hex(s.as_bytes()), (c1 as u32 + c2 as u32) % 2));
            for &c3 in &a {
                let s: String = [c1, c2, c3].iter().collect();
                name_cases.push(format!("name {} {}", hex(s.as_bytes()), (c1 as u32 + c3 as u32) % 2));
            }
        }
    }
    // every single character next to the legal ranges, and the illegal pool, alone and inside a legal name
    for c in (0u32..=0x17f).filter_map(char::from_u32).chain(ILLEGAL.iter().copied()) {
        let s: String = [c].iter().collect();
        name_cases.push(format!("name {} {}", hex(s.as_bytes()), c as u32 % 2));
        let s = format!("ab{}cd", c);
        name_cases.push(format!("name {} {}", hex(s.as_bytes()), c as u32 % 2));
    }
    // length boundary with legal and multi-byte characters
    for len in 44..=52usize {
        for fill in ['a', '_', 'Z', '9', 'é', '五', '😀'] {
            let s: String = std::iter::repeat_n(fill, len).collect();
            name_cases.push(format!("name {} {}", hex(s.as_bytes()), len % 2));
        }
    }
    for _ in 0..12_000 * scale {
        let s = random_name(rng);
        name_cases.push(format!("name {} {}", hex(s.as_bytes()), rng.below(2)));
    }
    // one USE exchange on a real connection
    let n_resp = 500 * scale;
    let mut resp_cases: Vec<String> = Vec::new();
    for _ in 0..n_resp {
        let name = if rng.chance(1, 8) { random_name(rng) } else { let l = rng.range(1, 12) as usize; legal_string(rng, l) };
        let kind = *rng.pick(&["setks", "setks", "setks", "setks", "error", "void", "close"]);
        let resp: String = match rng.below(8) {
            0 => name.clone(),
            1 => name.to_ascii_lowercase(),
            2 => name.to_ascii_uppercase(),
            3 => name.to_lowercase(),
            4 => {
                // one character changed
                let mut cs: Vec<char> = name.chars().collect();
                if !cs.is_empty() {
                    let i = rng.below(cs.len() as u64) as usize;
                    cs[i] = *rng.pick(&['x', 'X', '_', '0', 'é', 'K', 'k', 'ſ', 'K']);
                }
                cs.into_iter().collect()
            }
            5 => format!("{}x", name),
            6 => name.chars().skip(1).collect(),
            _ => { let l = rng.range(0, 6) as usize; legal_string(rng, l) }
        };
        resp_cases.push(format!("resp {} {} {} {}", hex(name.as_bytes()), rng.below(2), kind, hex(resp.as_bytes())));
    }
    // interleave
    let slow: u64 = n_pool + n_race;
    let per = (name_cases.len() as u64 / slow.max(1)).max(1) as usize;
    let mut slow_left = slow;
    let mut resp_iter = resp_cases.into_iter();
    // use_keyspace_result on EVERY combination of per-target results, 0..4 targets
    {
        const LABELS: [&str; 6] = ["ok", "broken", "timeout", "db", "mismatch", "unexpected"];
        emit("ukr -".into());
        let mut combos: Vec<Vec<&str>> = vec![vec![]];
        for _ in 0..4 {
            combos = combos.iter().flat_map(|c| LABELS.iter().map(move |l| { let mut v = c.clone(); v.push(*l); v })).collect::<Vec<_>>();
            for c in &combos {
                emit(format!("ukr {}", c.join(",")));
            }
        }
    }
    let n_sess: u64 = 30 * scale;
    let sess_every = (name_cases.len() as u64 / n_sess.max(1)).max(1) as usize;
    let mut sess_left = n_sess;
    for (i, c) in name_cases.into_iter().enumerate() {
        emit(c);
        if i % sess_every == sess_every / 2 && sess_left > 0 {
            sess_generate(rng, emit);
            sess_left -= 1;
        }
        if i % 20 == 0
            && let Some(r) = resp_iter.next()
        {
            emit(r);
        }
        if i % per == 0 && slow_left > 0 {
            let race = slow_left % ((n_pool + n_race) / n_race.max(1)).max(1) == 0;
            if !race && slow_left % 20 == 7 {
                emit_bucket_order(rng, emit);
            } else {
                emit_pool(rng, emit, race);
            }
            slow_left -= 1;
        }
    }
    for r in resp_iter {
        emit(r);
    }
    while slow_left > 0 {
        emit_pool(rng, emit, slow_left % 4 == 0);
        slow_left -= 1;
    }
    // metadata refreshes that re-create known nodes (last, so that the cases above keep their random streams)
    for _ in 0..40 * scale {
        sess_topo_generate(rng, emit);
    }
}

/// In-bucket order of an unsharded pool (`Vec::swap_remove` in `remove_connection`, `push` on refill): under
/// PerHost(3..4), with staggered handshakes (`H<n>s`: connection j of the node = connection j of the pool), one or two
/// connections are killed and replaced, then two or three survivors fail the SAME `USE` in different ways: which error the
/// call reports is the one of the connection that comes first in the bucket.
fn emit_bucket_order(rng: &mut Rng, emit: &mut dyn FnMut(String)) {
    let n = rng.range(3, 4) as usize;
    let sc = pick_names(rng, 2, false);
    let mut live: Vec<usize> = (0..n).collect();
    let mut next = n;
    let mut steps: Vec<String> = vec!["W".into(), "U0".into()];
    for _ in 0..rng.range(1, 2) {
        let j = live.remove(rng.below(live.len() as u64) as usize);
        steps.push(format!("Kc{}", j));
        steps.push("W".into());
        live.push(next);
        next += 1;
    }
    for _ in 0..rng.range(1, 2) {
        let mut ids = live.clone();
        rng.shuffle(&mut ids);
        let mut kinds = vec!["R", "M", "V"];
        rng.shuffle(&mut kinds);
        for (id, kind) in ids.iter().zip(kinds.iter()).take(rng.range(2, 3) as usize) {
            steps.push(format!("{}1,c{}", kind, id));
        }
        steps.push("U1".into());
        steps.push("X".into());
    }
    steps.push("U1".into());
    steps.push("Q0".into());
    steps.push("L".into());
    emit(format!("pool H{}s - {} {}", n, names_field(&sc.names), steps.join(";")));
}

// ---------------------------------------------------------------------------------------------
// run
// ---------------------------------------------------------------------------------------------

fn parse_names(field: &str) -> Option<Vec<(String, bool)>> {
    field
        .split(',')
        .map(|e| {
            let (h, cs) = e.split_once(':')?;
            let name = String::from_utf8(unhex(h)?).ok()?;
            Some((name, cs == "1"))
        })
        .collect()
}

struct UseCall {
    idx: usize,
    start: u64,
    end: u64,
    ok: bool,
}

/// Model-independent judgement of everything the node saw.
fn judge(node: &Node, names: &[(String, bool)], init: Option<usize>, calls: &[UseCall], submits: &[(u64, u64)], ctx: &mut Ctx) {
    let s = node.st.lock().unwrap();
    let allowed_stmts: Vec<String> = names.iter().filter(|(n, _)| spec_valid(n)).map(|(n, cs)| spec_statement(n, *cs)).collect();
    for t in &s.texts {
        if t.starts_with("USE") && !allowed_stmts.contains(t) {
            ctx.fail(format!("the node received the statement {:?}, which is not `USE name` / `USE \"name\"` of a valid requested name", t));
        }
        for (n, _) in names.iter().filter(|(n, _)| !spec_valid(n) && !n.is_empty()) {
            if t.contains(n.as_str()) {
                ctx.fail(format!("invalid keyspace name {:?} reached the node inside {:?}", n, t));
            }
        }
    }
    let srv = |i: usize| server_keyspace_of(&spec_statement(&names[i].0, names[i].1));
    for q in &s.queries {
        let Some(&(_, submit)) = submits.iter().find(|(tag, _)| *tag == q.tag) else { continue };
        // the latest call that had returned Ok before the query was submitted (the initial keyspace counts as one)
        let mut base: Option<(u64, Option<String>)> = init.map(|i| (0, srv(i)));
        for c in calls {
            if c.ok && c.end < submit && base.as_ref().is_none_or(|b| c.start >= b.0) {
                base = Some((c.start, srv(c.idx)));
            }
        }
        let Some((base_start, base_ks)) = base else { continue };
        let mut allowed: Vec<Option<String>> = vec![base_ks.clone()];
        for c in calls {
            if c.start > base_start && c.start < q.stamp && spec_valid(&names[c.idx].0) {
                allowed.push(srv(c.idx));
                if !c.ok {
                    // the scripted node may have said it selected another keyspace (the call then failed)
                    allowed.push(Some("zz_other".to_owned()));
                }
            }
        }
        if !allowed.contains(&q.ks) {
            ctx.fail(format!(
                "query #{} was submitted after use_keyspace({:?}) had returned Ok, but arrived on connection {} whose keyspace at the node was {:?}",
                q.tag, base_ks, q.conn, q.ks
            ));
        }
    }
}

async fn wait_full(pool: &VerifPool, node: &Node, total: &dyn Fn(&Node) -> usize, limit_ms: u64) -> String {
    let t0 = std::time::Instant::now();
    loop {
        let total = total(node);
        let count = pool.connection_count();
        if node.live_count() == total && count == Ok(total) {
            return format!("w{}", total);
        }
        if t0.elapsed() > Duration::from_millis(limit_ms) {
            return match count {
                Ok(c) => format!("w{}", c),
                Err(_) => "w0".to_owned(),
            };
        }
        tokio::time::sleep(Duration::from_millis(3)).await;
    }
}

async fn run_pool(w: &[&str], race: bool, progress: &Mutex<String>, peek: &Mutex<Option<Arc<Mutex<State>>>>, ctx: &mut Ctx) -> Option<String> {
    let mode = w.get(1)?;
    let sharded = mode.starts_with('S');
    let (base, script_field) = match mode.split_once('@') {
        Some((b, sc)) => (b, Some(sc)),
        None => (*mode, None),
    };
    // `H<n>s`: the node staggers its handshakes (60 ms apart), so that the order in which it accepts connections IS the
    // order in which the pool gets them: connections can then be addressed one by one (`Kc<j>`, `<rule><i>,c<j>`)
    let stagger = !sharded && base.ends_with('s');
    let base = if stagger { &base[..base.len() - 1] } else { base };
    let n: u16 = base.get(1..)?.parse().ok()?;
    if n == 0 || n > 8 || !(sharded || mode.starts_with('H')) {
        return None;
    }
    let mut node_script: Vec<AcceptRule> = Vec::new();
    if let Some(sc) = script_field {
        if !sharded {
            return None;
        }
        for e in sc.split('.') {
            if e == "x" {
                node_script.push(AcceptRule::Refuse);
            } else {
                let (a, b) = e.split_once('/')?;
                let (sh, nr): (u16, u16) = (a.parse().ok()?, b.parse().ok()?);
                if sh >= nr || nr > 8 {
                    return None;
                }
                node_script.push(AcceptRule::Place(sh, nr));
            }
        }
    }
    let names = parse_names(w.get(3)?)?;
    let init: Option<usize> = if w[2] == "-" { None } else { Some(w[2].parse().ok()?) };
    if init.is_some_and(|i| i >= names.len() || !spec_valid(&names[i].0)) {
        return None;
    }
    let node = if race && std::env::var_os("C20_NODE_SAME_RUNTIME").is_none() {
        Node::start_on_own_thread(if sharded { Some(n) } else { None }, node_script)
    } else {
        Node::start_scripted(if sharded { Some(n) } else { None }, node_script).await
    };
    node.st.lock().unwrap().stagger = stagger;
    *peek.lock().unwrap() = Some(Arc::clone(&node.st));
    let size = if sharded {
        scylla::client::PoolSize::PerShard(NonZeroUsize::new(1).unwrap())
    } else {
        scylla::client::PoolSize::PerHost(NonZeroUsize::new(n as usize).unwrap())
    };
    // connections of a full pool: PerHost(n), or one per shard the node currently reports
    let total = |node: &Node| -> usize { if sharded { node.st.lock().unwrap().cur_n.unwrap_or(n) as usize } else { n as usize } };
    // scripts in which the node holds back USE answers make a call run into the pool's USE timeout (= the connect
    // timeout): 1 s instead of the default 5 s, so that many such histories fit into a run; the waits of the script are
    // then given more room (a connection attempt may itself hit the short timeout on a loaded machine and be retried)
    let short_timeout = w.get(4).is_some_and(|sc| sc.split(';').any(|st| st == "D" || st.starts_with('E')));
    let pool = Arc::new(
        VerifPool::new_with(
            node.addr,
            size,
            init.map(|i| (names[i].0.as_str(), names[i].1)),
            true,
            None,
            if short_timeout { Some(Duration::from_millis(1000)) } else { None },
            None,
        )
        .ok()?,
    );
    pool.wait_until_initialized().await;
    let mut out: Vec<String> = Vec::new();
    let mut calls: Vec<UseCall> = Vec::new();
    let mut submits: Vec<(u64, u64)> = Vec::new();
    let mut tag = 0u64;
    let rule_stmt = |i: usize| names.get(i).map(|(n, cs)| spec_statement(n, *cs));
    let stmts: Vec<String> = names.iter().map(|(n, cs)| spec_statement(n, *cs)).collect();
    for (step_no, step) in w.get(4)?.split(';').filter(|s| !s.is_empty()).enumerate() {
        *progress.lock().unwrap() = format!("step {} `{}`", step_no, step);
        let (op, arg) = step.split_at(1);
        match op {
            "U" => {
                let i: usize = arg.parse().ok()?;
                let (name, cs) = names.get(i)?;
                let start = node.tick();
                let r = pool.use_keyspace(name, *cs).await;
                let end = node.tick();
                calls.push(UseCall { idx: i, start, end, ok: r.is_ok() });
                if r.is_ok() && !spec_valid(name) {
                    ctx.fail(format!("use_keyspace({:?}) returned Ok for an invalid name", name));
                }
                out.push(match r {
                    Ok(()) => "ok".to_owned(),
                    Err(l) => format!("e:{}", l.split(':').next().unwrap_or("")),
                });
            }
            "B" => {
                // use_keyspace concurrently with a burst of queries on every shard
                let i: usize = arg.parse().ok()?;
                let (name, cs) = names.get(i)?.clone();
                let start = node.tick();
                let p2 = Arc::clone(&pool);
                let call = tokio::spawn(async move { p2.use_keyspace(&name, cs).await });
                let mut qs = Vec::new();
                for round in 0..3u32 {
                    for s in 0..n {
                        tag += 1;
                        submits.push((tag, node.tick()));
                        let p2 = Arc::clone(&pool);
                        let text = format!("SELECT {}", tag);
                        qs.push(tokio::spawn(async move {
                            if sharded { p2.query_on_shard(s as u32, &text).await } else { p2.query_on_random(&text).await }
                        }));
                    }
                    if round == 1 {
                        tokio::task::yield_now().await;
                    }
                }
                *progress.lock().unwrap() = format!("step {} `{}`: awaiting use_keyspace", step_no, step);
                let r = call.await.ok()?;
                let end = node.tick();
                calls.push(UseCall { idx: i, start, end, ok: r.is_ok() });
                for (k, q) in qs.into_iter().enumerate() {
                    *progress.lock().unwrap() = format!("step {} `{}`: use_keyspace returned {:?}, awaiting query {} of the burst (last tag {})", step_no, step, r, k, tag);
                    let _ = q.await;
                }
            }
            "Q" | "J" => {
                let s: u32 = if op == "J" { 0 } else { arg.parse().ok()? };
                tag += 1;
                submits.push((tag, node.tick()));
                let text = format!("SELECT {}", tag);
                let r = if sharded && op == "Q" { pool.query_on_shard(s, &text).await } else { pool.query_on_random(&text).await };
                let seen = node.st.lock().unwrap().queries.iter().find(|q| q.tag == tag).map(|q| q.ks.clone());
                out.push(match (r, seen) {
                    (Ok((reported, true)), Some(ks)) => format!(
                        "q{}@{}",
                        ks.unwrap_or_else(|| "-".to_owned()),
                        reported.map_or("-".to_owned(), |s| s.to_string())
                    ),
                    _ => "q!".to_owned(),
                });
            }
            "Y" => {
                // a user statement `USE names[i]` written on the connection of shard s (what Session::query does
                // before it calls use_keyspace itself)
                let (i, sh) = arg.split_once(',')?;
                let i: usize = i.parse().ok()?;
                let sh: u32 = sh.parse().ok()?;
                let (name, cs) = names.get(i)?;
                if !spec_valid(name) {
                    return None;
                }
                let start = node.tick();
                let stmt = spec_statement(name, *cs);
                let r = if sharded { pool.query_on_shard(sh, &stmt).await } else { pool.query_on_random(&stmt).await };
                let end = node.tick();
                // for the oracle this is a keyspace change that started and did not (yet) return Ok
                calls.push(UseCall { idx: i, start, end, ok: false });
                out.push(if matches!(r, Ok((_, true))) { "y".into() } else { "y!".into() });
            }
            "K" => {
                let by_id: Option<usize> = match arg.strip_prefix('c') {
                    Some(j) => Some(j.parse().ok()?),
                    None => None,
                };
                let s: u16 = if by_id.is_some() { 0 } else { arg.parse().ok()? };
                let victim = {
                    let mut st = node.st.lock().unwrap();
                    let pos = match by_id {
                        Some(j) => st.conns.get(j).filter(|c| c.live).map(|_| j),
                        None => canonical_victim(&st, &stmts, if sharded { Some(s) } else { None }),
                    };
                    pos.map(|i| {
                        st.conns[i].live = false;
                        Arc::clone(&st.conns[i].kill)
                    })
                };
                match victim {
                    Some(k) => {
                        k.notify_one();
                        out.push("k".into());
                    }
                    None => out.push("k-".into()),
                }
            }
            "W" => out.push(wait_full(&pool, &node, &total, if short_timeout { 6000 } else { 1500 }).await),
            "Z" => tokio::time::sleep(Duration::from_millis(arg.parse().ok()?)).await,
            "R" | "M" | "V" | "P" | "C" => {
                let (i, s) = arg.split_once(',')?;
                let kind = match op {
                    "R" => RuleKind::Reject,
                    "M" => RuleKind::Mismatch,
                    "V" => RuleKind::Void,
                    "P" => RuleKind::Upper,
                    _ => RuleKind::CloseOnce,
                };
                let by_id: Option<usize> = match s.strip_prefix('c') {
                    Some(j) => Some(j.parse().ok()?),
                    None => None,
                };
                let shard = if s == "*" || by_id.is_some() { None } else { Some(s.parse().ok()?) };
                let stmt = rule_stmt(i.parse().ok()?)?;
                let mut st = node.st.lock().unwrap();
                let conn = if kind == RuleKind::CloseOnce { canonical_victim(&st, &stmts, shard) } else { by_id };
                if kind == RuleKind::CloseOnce && conn.is_none() {
                    continue;
                }
                st.rules.push(Rule { stmt, shard, conn, kind, spent: false });
            }
            "X" => node.st.lock().unwrap().rules.clear(),
            "D" => node.st.lock().unwrap().hold_new = true,
            "E" => {
                // hold back the `USE` answers on the EXISTING connections too: all of them (`E`), or only the next
                // k (`E<k>`): later ones are then answered while the held ones are still in flight (out of order)
                let k: u32 = if arg.is_empty() { u32::MAX } else { arg.parse().ok()? };
                for c in node.st.lock().unwrap().conns.iter_mut().filter(|c| c.live) {
                    c.hold = k;
                }
            }
            "O" => {
                // the node answers, now, the k-th held `USE` of the connection of shard s (k > 0: out of order)
                let (sh, k) = arg.split_once(',')?;
                let (sh, k): (u16, usize) = (sh.parse().ok()?, k.parse().ok()?);
                let target = {
                    let mut st = node.st.lock().unwrap();
                    let pos = st.conns.iter().position(|c| c.live && c.pending.len() > k && (!sharded || c.shard == Some(sh)));
                    pos.map(|i| {
                        st.conns[i].answer_now.push(k);
                        (i, Arc::clone(&st.conns[i].wake), st.conns[i].pending.len())
                    })
                };
                match target {
                    Some((i, wake, before)) => {
                        wake.notify_one();
                        let t0 = std::time::Instant::now();
                        while node.st.lock().unwrap().conns[i].pending.len() >= before && t0.elapsed() < Duration::from_millis(1000) {
                            tokio::time::sleep(Duration::from_millis(1)).await;
                        }
                        tokio::time::sleep(Duration::from_millis(3)).await;
                        out.push("o".into());
                    }
                    None => out.push("o-".into()),
                }
            }
            "H" => {
                let t0 = std::time::Instant::now();
                loop {
                    if node.st.lock().unwrap().conns.iter().any(|c| c.live && !c.pending.is_empty()) {
                        out.push("h".into());
                        break;
                    }
                    if t0.elapsed() > Duration::from_millis(if short_timeout { 6000 } else { 1500 }) {
                        out.push("h-".into());
                        break;
                    }
                    tokio::time::sleep(Duration::from_millis(2)).await;
                }
            }
            "G" => {
                {
                    let mut st = node.st.lock().unwrap();
                    st.hold_new = false;
                    for c in st.conns.iter_mut() {
                        c.release = true;
                        c.hold = 0;
                        c.wake.notify_one();
                    }
                }
                // the held statements are answered, oldest first
                let t0 = std::time::Instant::now();
                while node.st.lock().unwrap().conns.iter().any(|c| c.live && (!c.pending.is_empty() || c.release)) && t0.elapsed() < Duration::from_millis(1000) {
                    tokio::time::sleep(Duration::from_millis(1)).await;
                }
                tokio::time::sleep(Duration::from_millis(3)).await;
            }
            "L" => {
                let st = node.st.lock().unwrap();
                let mut rows: Vec<String> = st
                    .conns
                    .iter()
                    .filter(|c| c.live)
                    .map(|c| {
                        let acks: Vec<String> =
                            c.acked.iter().map(|a| stmts.iter().position(|s| s == a).map_or("?".to_owned(), |i| i.to_string())).collect();
                        format!("{}", acks.join(">"))
                    })
                    .collect();
                rows.sort();
                out.push(format!("l[{}]", rows.join(",")));
            }
            _ => return None,
        }
    }
    judge(&node, &names, init, &calls, &submits, ctx);
    node.close_all().await;
    drop(pool);
    Some(if race { "race".to_owned() } else { out.join(";") })
}

async fn run_resp(w: &[&str], ctx: &mut Ctx) -> Option<String> {
    let name = String::from_utf8(unhex(w.get(1)?)?).ok()?;
    let cs = *w.get(2)? == "1";
    let kind = *w.get(3)?;
    if !["setks", "error", "void", "close"].contains(&kind) || !["0", "1"].contains(&w[2]) {
        return None;
    }
    let resp = String::from_utf8(unhex(w.get(4)?)?).ok()?;
    let node = Node::start(None).await;
    node.st.lock().unwrap().fixed_reply = Some((kind.to_owned(), resp.clone()));
    let conn = VerifConn::open(node.addr, VerifConnOptions::default()).await.ok()?;
    let r = conn.use_keyspace(&name, cs).await;
    node.close_all().await;
    let st = node.st.lock().unwrap();
    for t in &st.texts {
        if !spec_valid(&name) {
            ctx.fail(format!("invalid keyspace name {:?} reached the node inside {:?}", name, t));
        } else if *t != spec_statement(&name, cs) {
            ctx.fail(format!("the node received {:?} for use_keyspace({:?}, {})", t, name, cs));
        }
    }
    if r.is_ok() && !(kind == "setks" && resp.eq_ignore_ascii_case(&name)) {
        ctx.fail(format!("use_keyspace({:?}) returned Ok although the node answered {} {:?}", name, kind, resp));
    }
    Some(match r {
        Ok(()) => "ok".to_owned(),
        Err(l) => {
            let mut parts = l.split(':');
            let head = parts.next().unwrap_or("");
            if head == "BadKeyspaceName" { format!("err BadKeyspaceName:{}", parts.next().unwrap_or("")) } else { format!("err {}", head) }
        }
    })
}


// ---------------------------------------------------------------------------------------------
// `sess`: a REAL Session against the mock cluster, compared token by token with the session / cluster model
// ---------------------------------------------------------------------------------------------
//
// `sess <n>[/<mask>[/<zmask>]] <name:cs,...> <step;...>`   n unsharded nodes (one pool connection each); bit i of the
// mask: the session is built with a host filter that rejects node i (it is known, has no pool, answers a fan-out with
// Ok); bit i of zmask: node i owns NO tokens (known, pooled, absent from the ring - reached by targeted requests). Steps:
//   `U<i>`         session.use_keyspace(names[i])                      → `ok` | `e:<label>`
//   `R<i>,<n|*>`   node n (all nodes) answers `USE names[i]` with an Invalid error      `X` no more rejections
//   `T<n>`         node n stops answering `USE` (the call times out after 700 ms)     `t` all nodes answer again
//   `K<n>`         node n closes its pool connections → `k`            `W` wait until all pools are full → `w1` | `w0`
//   `A`            a node joins (metadata refresh) → `a<nodes>`
//   `Q<k>`         k requests → `q<keyspace at arrival>@<node>,...`    `Q<k>@<n>` the same TARGETED at node n
//   `P`            Session::prepare of a fresh statement → `p<keyspace at arrival>@<node>,...` of its PREPARE frames
//   `L`            per node the live pool connections with the keyspaces each acknowledged → `l[n0:ka>kb|n1:...]`
// The oracle of the `pool` cases applies (arrival keyspace after an Ok call; invalid names never on the wire).

fn sess_generate(rng: &mut Rng, emit: &mut dyn FnMut(String)) {
    let n = rng.range(1, 3) as usize;
    let nvalid = rng.range(2, 3) as usize;
    let has_bad = rng.chance(1, 4);
    let sc = pick_names(rng, nvalid, has_bad);
    let mut steps: Vec<String> = vec!["W".into()];
    let mut nodes = n;
    // every third case: the session is built with a host filter that rejects some of the nodes (possibly all of them,
    // possibly one that joins later): those are known, have no pool and answer the fan-out with Ok
    let host_mask: u64 = if rng.chance(1, 3) { 1 + rng.below((1 << (n + 1)) - 1) } else { 0 };
    if host_mask != 0 && rng.bool() {
        // the connections of the nodes that do have a pool break right before the FIRST use_keyspace: the call may be
        // answered Ok with no acknowledgement at all; the connections opened afterwards must carry the keyspace
        for i in (0..n).filter(|i| host_mask >> i & 1 == 0) {
            steps.push(format!("K{}", i));
        }
        steps.push(format!("U{}", rng.below(nvalid as u64)));
        steps.push("W".into());
        steps.push(format!("Q{}", rng.range(2, 4)));
    }
    for _ in 0..rng.range(3, 6) {
        match rng.below(10) {
            0 | 1 | 2 => {
                steps.push(format!("U{}", rng.below(nvalid as u64)));
                steps.push(format!("Q{}", rng.range(1, 3)));
            }
            // rejected by one node or by all, retried with the same name
            3 | 4 => {
                let i = rng.below(nvalid as u64);
                let who = if rng.bool() { "*".to_owned() } else { rng.below(nodes as u64).to_string() };
                steps.push(format!("R{},{}", i, who));
                steps.push(format!("U{}", i));
                steps.push(format!("Q{}", rng.range(1, 2)));
                steps.push("X".into());
                steps.push(format!("U{}", i));
                steps.push(format!("Q{}", rng.range(1, 3)));
            }
            5 | 6 => {
                steps.push(format!("K{}", rng.below(nodes as u64)));
                steps.push("W".into());
                steps.push(format!("Q{}", rng.range(2, 4)));
            }
            7 if nodes < 4 => {
                nodes += 1;
                steps.push("A".into());
                steps.push(format!("Q{}", rng.range(2, 4)));
            }
            // one node does not answer the USE (its pool times out, its connections stay published), the others do
            9 if nodes >= 2 || rng.chance(1, 3) => {
                let i = rng.below(nvalid as u64);
                steps.push(format!("T{}", rng.below(nodes as u64)));
                steps.push(format!("U{}", i));
                steps.push(format!("Q{}", rng.range(2, 4)));
                steps.push("t".into());
                steps.push(format!("U{}", i));
                steps.push(format!("Q{}", rng.range(2, 4)));
            }
            // two nodes fail differently (one rejects, one does not answer): which error the call reports follows a
            // HashMap's order in the code - any of them is accepted, Ok is not
            8 if nodes >= 2 => {
                let i = rng.below(nvalid as u64);
                let a = rng.below(nodes as u64);
                let b = (a + 1 + rng.below(nodes as u64 - 1)) % nodes as u64;
                steps.push(format!("R{},{}", i, a));
                steps.push(format!("T{}", b));
                steps.push(format!("U{}", i));
                steps.push(format!("Q{}", rng.range(2, 4)));
                steps.push("X".into());
                steps.push("t".into());
                steps.push(format!("U{}", i));
                steps.push(format!("Q{}", rng.range(2, 3)));
            }
            8 if has_bad => {
                steps.push(format!("U{}", nvalid));
                steps.push(format!("U{}", nvalid));
                steps.push(format!("Q{}", rng.range(1, 2)));
            }
            _ => {
                let i = rng.below(nvalid as u64);
                steps.push(format!("U{}", i));
                steps.push(format!("U{}", i));
                steps.push(format!("Q{}", rng.range(1, 3)));
            }
        }
    }
    steps.push("W".into());
    steps.push("L".into());
    // every third case: some nodes own NO tokens (coordinator-only nodes: known and pooled, outside the ring; at least one
    // initial node keeps its tokens). Requests TARGETED at single nodes (the only way to reach a token-less node) and
    // `Session::prepare` (one connection per known node) are mixed in after the untargeted requests
    let zero_mask: u64 = if n >= 2 && rng.chance(1, 3) {
        let keep = rng.below(n as u64);
        (1 + rng.below((1 << (n + 1)) - 1)) & !(1 << keep)
    } else if rng.chance(1, 6) {
        1 << n
    } else {
        0
    };
    let mut mixed: Vec<String> = Vec::new();
    let mut present = n as u64;
    for st in steps {
        let untargeted_q = st.starts_with('Q');
        if st == "A" {
            present += 1;
        }
        mixed.push(st);
        if untargeted_q {
            let tokenless: Vec<u64> = (0..present).filter(|i| zero_mask >> i & 1 == 1).collect();
            if !tokenless.is_empty() && rng.chance(3, 4) {
                mixed.push(format!("Q{}@{}", rng.range(1, 2), rng.pick(&tokenless)));
            }
            if rng.chance(1, 3) {
                mixed.push(format!("Q{}@{}", rng.range(1, 2), rng.below(present)));
            }
            if rng.chance(1, 3) {
                mixed.push("P".into());
            }
        }
    }
    let steps = mixed;
    let n_field = if zero_mask != 0 {
        format!("{}/{}/{}", n, host_mask, zero_mask)
    } else if host_mask == 0 {
        n.to_string()
    } else {
        format!("{}/{}", n, host_mask)
    };
    emit(format!("sess {} {} {}", n_field, names_field(&sc.names), steps.join(";")));
}

/// `sess` cases in which metadata refreshes RE-CREATE the `Node` of an already known host after (and before) a
/// successful use_keyspace: the cluster reports another datacenter (`D<h>`) or rack (`B<h>`) for it, or the host filter's
/// answer for it flips (`F<h>`: accepted -> rejected drops the pool, rejected -> accepted builds a new one). Every
/// re-created node is then hit by TARGETED requests: they must arrive on connections that acknowledged the keyspace
/// (`ClusterState::calculate_new_topology` hands `node_config.used_keyspace` to every `Node::new`).
fn sess_topo_generate(rng: &mut Rng, emit: &mut dyn FnMut(String)) {
    let n = rng.range(1, 3) as usize;
    let sc = pick_names(rng, 2, false);
    let with_filter = rng.chance(1, 2);
    // at least one node stays accepted throughout (`keep`)
    let keep = rng.below(n as u64) as usize;
    let host_mask: usize = if with_filter && rng.bool() { (rng.below(1 << n) as usize) & !(1 << keep) } else { 0 };
    let mut mask = host_mask;
    let mut nodes = n;
    let mut steps: Vec<String> = vec!["W".into()];
    let change = |rng: &mut Rng, steps: &mut Vec<String>, mask: &mut usize, nodes: usize| {
        let h = rng.below(nodes as u64) as usize;
        let op = match rng.below(if with_filter { 4 } else { 2 }) {
            0 => "D",
            1 => "B",
            _ if h != keep => "F",
            _ => "D",
        };
        if op == "F" {
            *mask ^= 1 << h;
        }
        steps.push(format!("{}{}", op, h));
        if *mask >> h & 1 == 0 || rng.chance(1, 4) {
            steps.push(format!("Q{}@{}", rng.range(1, 2), h));
        }
        steps.push(format!("Q{}", rng.range(1, 3)));
    };
    // sometimes a change before any keyspace is set (the new pool starts without one)
    if rng.chance(1, 3) {
        change(rng, &mut steps, &mut mask, nodes);
    }
    steps.push(format!("U{}", rng.below(2)));
    steps.push(format!("Q{}", rng.range(1, 2)));
    for _ in 0..rng.range(2, 4) {
        match rng.below(8) {
            0 => {
                steps.push(format!("U{}", rng.below(2)));
                steps.push(format!("Q{}", rng.range(1, 3)));
            }
            1 => {
                let h = rng.below(nodes as u64);
                steps.push(format!("K{}", h));
                steps.push("W".into());
                steps.push(format!("Q{}@{}", rng.range(1, 2), h));
            }
            2 if nodes < 4 => {
                nodes += 1;
                steps.push("A".into());
                steps.push(format!("Q{}", rng.range(1, 3)));
            }
            _ => change(rng, &mut steps, &mut mask, nodes),
        }
    }
    change(rng, &mut steps, &mut mask, nodes);
    if rng.bool() {
        steps.push("P".into());
    }
    steps.push("W".into());
    steps.push("L".into());
    let has_f = steps.iter().any(|s| s.starts_with('F'));
    let n_field = if host_mask == 0 && !has_f { n.to_string() } else { format!("{}/{}", n, host_mask) };
    emit(format!("sess {} {} {}", n_field, names_field(&sc.names), steps.join(";")));
}

/// The session's host filter of the `sess <n>/<mask>` cases: rejects the addresses of the nodes whose bit is set in the
/// mask (the mask can change between two metadata refreshes: step `F<h>`).
struct RejectMask(Vec<std::net::IpAddr>, Arc<std::sync::atomic::AtomicUsize>);
impl scylla::policies::host_filter::HostFilter for RejectMask {
    fn accept(&self, peer: &scylla::cluster::metadata::Peer) -> bool {
        let mask = self.1.load(std::sync::atomic::Ordering::SeqCst);
        !self.0.iter().enumerate().any(|(i, ip)| mask >> i & 1 == 1 && *ip == peer.address.ip())
    }
}

fn run_sess(w: &[&str], ctx: &mut Ctx) -> Option<String> {
    use crate::e2e::common::{Shape, Strat, connect, row_specs, std_table, with_std_prepare};
    use crate::mockcluster::{Act, KeyspaceSpec, MockCluster, NodeSpec, Req, act_error, host_id_of, rows_body, simple_strategy};
    use crate::mocknode::ShardMode;
    // `<n>` or `<n>/<mask>`: bit i of the mask = the session's host filter rejects node i
    // bit i of the second mask = node i owns NO tokens (a coordinator-only node: known, pooled, outside the ring)
    let parts: Vec<&str> = w.get(1)?.split('/').collect();
    let (n, host_mask, zero_mask): (usize, usize, usize) = match parts[..] {
        [a] => (a.parse().ok()?, 0, 0),
        [a, m] => (a.parse().ok()?, m.parse().ok()?, 0),
        [a, m, z] => (a.parse().ok()?, m.parse().ok()?, z.parse().ok()?),
        _ => return None,
    };
    // at least one of the initial nodes must own tokens (the driver refuses the metadata otherwise)
    if !(1..=4).contains(&n) || host_mask >= 256 || zero_mask >= 256 || (0..n).all(|i| zero_mask >> i & 1 == 1) {
        return None;
    }
    use std::sync::atomic::{AtomicUsize, Ordering as AO};
    let names = parse_names(w.get(2)?)?;
    let steps: Vec<&str> = w.get(3)?.split(';').filter(|s| !s.is_empty()).collect();
    // the filter's current mask (`F<h>` flips bit h); a filter is installed when some node is rejected at some time
    let mask_now = Arc::new(AtomicUsize::new(host_mask));
    let use_filter = host_mask != 0 || steps.iter().any(|s| s.starts_with('F'));
    let filtered = {
        let m = Arc::clone(&mask_now);
        move |i: usize| m.load(AO::SeqCst) >> i & 1 == 1
    };
    let shape = Shape { nodes: n, dcs: 1, racks: 1, shards: 0, msb: 12, vnodes: 2, strat: Strat::Simple(1), seed: 7 };
    let mut topo = shape.topology();
    for (i, node) in topo.nodes.iter_mut().enumerate() {
        if zero_mask >> i & 1 == 1 {
            node.tokens.clear();
        }
    }
    for (name, cs) in names.iter().filter(|(nm, _)| spec_valid(nm)) {
        if let Some(k) = server_keyspace_of(&spec_statement(name, *cs))
            && !topo.keyspaces.iter().any(|x| x.name == k)
        {
            topo.keyspaces.push(KeyspaceSpec { name: k, replication: simple_strategy(1), tables: vec![std_table()], initial_tablets: None });
        }
    }
    // (statement text, node or all)
    let rules: Arc<Mutex<Vec<(String, Option<usize>)>>> = Default::default();
    let rules_h = Arc::clone(&rules);
    // nodes that do not answer `USE` at all
    let muted: Arc<Mutex<Vec<usize>>> = Default::default();
    let muted_h = Arc::clone(&muted);
    let handler = with_std_prepare(move |r: &Req| match &r.parsed {
        Parsed::Query { text, .. } if text.starts_with("USE ") => {
            if muted_h.lock().unwrap().contains(&r.node) {
                return vec![];
            }
            if rules_h.lock().unwrap().iter().any(|(stmt, node)| stmt == text && (node.is_none() || *node == Some(r.node))) {
                return vec![act_error(0x2200, "Keyspace does not exist", &[])];
            }
            match server_keyspace_of(text) {
                Some(k) => vec![Act::Respond(RESP_RESULT, body_set_keyspace(&k)), Act::AckKeyspace(k)],
                None => vec![act_error(0x2000, "syntax error", &[])],
            }
        }
        Parsed::Query { .. } => vec![Act::Respond(RESP_RESULT, rows_body(&row_specs(), true, None, &[]))],
        _ => vec![crate::mockcluster::act_void()],
    });
    let rt = crate::mockcluster::runtime(1);
    rt.block_on(async {
        let cluster = MockCluster::start(topo, handler).await;
        cluster.set_auto_use(false);
        // a call whose USE is not answered by some node times out after the connection timeout
        let with_timeouts = steps.iter().any(|s| s.starts_with('T'));
        // the host filter: rejects the nodes of the mask (by address; nodes that join later included)
        let all_ips: Vec<std::net::IpAddr> = (0..8).map(|i| cluster.addr(i).ip()).collect();
        // (from, to, mask): the filter's answers between two flips, on the cluster's logical clock (the time of a flip's
        // refresh belongs to neither side)
        let mut mask_hist: Vec<(u64, u64, usize)> = vec![(0, u64::MAX, host_mask)];
        let (mut alt_dc, mut alt_rack) = (0usize, 0usize);
        // waits until the session knows all nodes and every node the filter accepts has its pool connection
        let wait_full = async |session: &scylla::client::session::Session, timeout: Duration| -> bool {
            if !use_filter {
                return cluster.wait_pools_full(session, timeout).await;
            }
            let t0 = std::time::Instant::now();
            loop {
                let full = || session.get_cluster_state().get_nodes_info().len() == cluster.n_nodes() && (0..cluster.n_nodes()).all(|i| filtered(i) || !cluster.live_shards(i).is_empty());
                if full() {
                    tokio::time::sleep(Duration::from_millis(15)).await;
                    if full() {
                        return true;
                    }
                }
                if t0.elapsed() > timeout {
                    return false;
                }
                tokio::time::sleep(Duration::from_millis(5)).await;
            }
        };
        let customise = |b: scylla::client::session_builder::SessionBuilder| {
            let b = if with_timeouts { b.connection_timeout(Duration::from_millis(700)) } else { b };
            if !use_filter { b } else { b.host_filter(Arc::new(RejectMask(all_ips.clone(), Arc::clone(&mask_now)))) }
        };
        let built = if !use_filter {
            connect(&cluster, customise).await
        } else {
            match customise(cluster.session_builder()).build().await {
                Ok(s) => {
                    if wait_full(&s, Duration::from_secs(10)).await {
                        Ok(s)
                    } else {
                        Err("pools-not-full".to_owned())
                    }
                }
                Err(e) => Err(format!("session-build-failed {}", e)),
            }
        };
        let session = match built {
            Ok(s) => s,
            Err(e) => {
                ctx.fail(format!("sess: the session could not be set up against the mock cluster ({})", e));
                return Some("sess-skip".to_owned());
            }
        };
        let mut out: Vec<String> = Vec::new();
        let mut confirmed: Option<String> = None;
        let mut next_id = 0usize;
        // (request id, allowed keyspace)
        let mut expect: Vec<(usize, Option<String>)> = Vec::new();
        for step in steps {
            let (op, arg) = step.split_at(1);
            match op {
                "U" => {
                    let (name, cs) = names.get(arg.parse::<usize>().ok()?)?;
                    let valid = spec_valid(name);
                    let r = session.use_keyspace(name.clone(), *cs).await;
                    match &r {
                        Ok(()) => {
                            if !valid {
                                ctx.fail(format!("sess: use_keyspace({:?}) returned Ok for an invalid name", name));
                            }
                            if muted.lock().unwrap().iter().any(|i| !filtered(*i)) {
                                ctx.fail(format!(
                                    "sess: use_keyspace({:?}) returned Ok although node(s) {:?} (with live pool connections) never answered the USE: their pools timed out and their connections stay published without the keyspace",
                                    name, muted.lock().unwrap()
                                ));
                            }
                            confirmed = server_keyspace_of(&spec_statement(name, *cs));
                        }
                        Err(_) if valid => confirmed = None,
                        Err(_) => {}
                    }
                    use scylla::errors::UseKeyspaceError as E;
                    out.push(match r {
                        Ok(()) => "ok".to_owned(),
                        Err(E::BadKeyspaceName(_)) => "e:BadKeyspaceName".to_owned(),
                        Err(E::RequestError(_)) => "e:RequestError".to_owned(),
                        Err(E::KeyspaceNameMismatch { .. }) => "e:KeyspaceNameMismatch".to_owned(),
                        Err(E::RequestTimeout(_)) => "e:RequestTimeout".to_owned(),
                        #[allow(unreachable_patterns)]
                        Err(_) => "e:Other".to_owned(),
                    });
                }
                "R" => {
                    let (i, who) = arg.split_once(',')?;
                    let (name, cs) = names.get(i.parse::<usize>().ok()?)?;
                    let node = if who == "*" { None } else { Some(who.parse().ok()?) };
                    rules.lock().unwrap().push((spec_statement(name, *cs), node));
                }
                "X" => rules.lock().unwrap().clear(),
                "T" => muted.lock().unwrap().push(arg.parse().ok()?),
                "t" => muted.lock().unwrap().clear(),
                "K" => {
                    let i: usize = arg.parse().ok()?;
                    if i >= cluster.n_nodes() {
                        return None;
                    }
                    cluster.kill_connections(i, false);
                    out.push("k".into());
                }
                "W" => out.push(if wait_full(&session, Duration::from_secs(3)).await { "w1".into() } else { "w0".into() }),
                "A" => {
                    let i = cluster.n_nodes();
                    cluster
                        .add_node(NodeSpec {
                            host_id: host_id_of(i),
                            dc: Shape::dc_name(0),
                            rack: "r1".into(),
                            tokens: if zero_mask >> i & 1 == 1 { vec![] } else { vec![1000 + i as i64, -5000 - i as i64] },
                            shards: ShardMode::None,
                        })
                        .await;
                    let _ = session.refresh_metadata().await;
                    wait_full(&session, Duration::from_secs(3)).await;
                    out.push(format!("a{}", cluster.n_nodes()));
                }
                // `D<h>` / `B<h>`: the cluster reports another datacenter / rack for node h (toggled); `F<h>`: the host
                // filter's answer for node h flips. Then a metadata refresh: calculate_new_topology keeps, re-creates or
                // disables the `Node` of every host. Token: per host `=` same Arc<Node> (enabled), `-` same (disabled),
                // `n` new enabled Node, `x` new disabled Node
                "D" | "B" | "F" => {
                    let h: usize = arg.parse().ok()?;
                    if h >= cluster.n_nodes() || (op == "F" && !use_filter) {
                        return None;
                    }
                    let before: Vec<Arc<scylla::cluster::Node>> = session.get_cluster_state().get_nodes_info().to_vec();
                    match op {
                        "D" => {
                            alt_dc ^= 1 << h;
                            cluster.set_node_dc(h, &Shape::dc_name(alt_dc >> h & 1));
                        }
                        "B" => {
                            alt_rack ^= 1 << h;
                            cluster.set_node_rack(h, if alt_rack >> h & 1 == 1 { "r2" } else { "r1" });
                        }
                        _ => {
                            mask_hist.last_mut().unwrap().1 = cluster.now();
                            mask_now.fetch_xor(1 << h, AO::SeqCst);
                        }
                    }
                    let _ = session.refresh_metadata().await;
                    let tok: String = {
                        let state = session.get_cluster_state();
                        (0..cluster.n_nodes())
                            .map(|i| {
                                let id = uuid::Uuid::from_bytes(host_id_of(i));
                                match state.get_nodes_info().iter().find(|x| x.host_id == id) {
                                    None => '?',
                                    Some(x) => match (before.iter().any(|o| Arc::ptr_eq(o, x)), x.is_enabled()) {
                                        (true, true) => '=',
                                        (true, false) => '-',
                                        (false, true) => 'n',
                                        (false, false) => 'x',
                                    },
                                }
                            })
                            .collect()
                    };
                    // the old Node objects (and their pools) go away with the last reference
                    drop(before);
                    // settle: every accepted node has exactly its one pool connection, every rejected node none
                    let t0 = std::time::Instant::now();
                    loop {
                        let conns = cluster.conns();
                        let settled = (0..cluster.n_nodes()).all(|i| {
                            let live = conns.iter().filter(|c| c.node == i && !c.control && c.ready.is_some() && c.closed.is_none()).count();
                            live == if use_filter && filtered(i) { 0 } else { 1 }
                        });
                        if (settled && wait_full(&session, Duration::from_millis(200)).await) || t0.elapsed() > Duration::from_secs(4) {
                            break;
                        }
                        tokio::time::sleep(Duration::from_millis(5)).await;
                    }
                    if op == "F" {
                        mask_hist.push((cluster.now(), u64::MAX, mask_now.load(AO::SeqCst)));
                    }
                    out.push(format!("d{}", tok));
                }
                "P" => {
                    // Session::prepare: one random connection per known node (cluster/state.rs
                    // iter_working_connections_to_nodes), all working connections as the fallback
                    let id = next_id;
                    next_id += 1;
                    expect.push((id, confirmed.clone()));
                    let text = format!("SELECT pk, v FROM t WHERE pk = 0x{:08x}", id);
                    let ok = session.prepare(text.clone()).await.is_ok();
                    let mut toks: Vec<String> = cluster
                        .user_frames()
                        .into_iter()
                        .filter(|f| matches!(&f.parsed, Parsed::Prepare { text: t } if *t == text))
                        .map(|f| format!("p{}@{}", f.keyspace.unwrap_or_else(|| "-".to_owned()), f.node))
                        .collect();
                    toks.sort();
                    out.push(if ok && !toks.is_empty() { toks.join(",") } else { "p!".to_owned() });
                }
                "Q" => {
                    // `Q<k>`: k requests wherever the default policy sends them; `Q<k>@<node>`: k requests TARGETED at
                    // that node (SingleTargetLoadBalancingPolicy) - the only way a request reaches a token-less node
                    let (k, target) = match arg.split_once('@') {
                        None => (arg, None),
                        Some((k, t)) => (k, Some(t.parse::<usize>().ok()?)),
                    };
                    let k: usize = k.parse().ok()?;
                    let mut toks = Vec::new();
                    for _ in 0..k.min(16) {
                        let id = next_id;
                        next_id += 1;
                        expect.push((id, confirmed.clone()));
                        let text = format!("SELECT pk, v FROM t WHERE pk = 0x{:08x}", id);
                        let mut stmt = scylla::statement::Statement::new(text.clone());
                        if let Some(t) = target {
                            use scylla::policies::load_balancing::{NodeIdentifier, SingleTargetLoadBalancingPolicy};
                            stmt.set_load_balancing_policy(Some(SingleTargetLoadBalancingPolicy::new(NodeIdentifier::HostId(uuid::Uuid::from_bytes(host_id_of(t))), None)));
                        }
                        let ok = session.query_unpaged(stmt, ()).await.is_ok();
                        let frame = cluster.user_frames().into_iter().find(|f| matches!(&f.parsed, Parsed::Query { text: t, .. } if *t == text));
                        toks.push(match (ok, frame) {
                            (true, Some(f)) => format!("q{}@{}", f.keyspace.unwrap_or_else(|| "-".to_owned()), f.node),
                            _ => "q!".to_owned(),
                        });
                    }
                    out.push(toks.join(","));
                }
                "L" => {
                    let conns = cluster.conns();
                    let mut per_node: Vec<String> = Vec::new();
                    for node in 0..cluster.n_nodes() {
                        let mut rows: Vec<String> = conns
                            .iter()
                            .filter(|c| c.node == node && !c.control && c.ready.is_some() && c.closed.is_none())
                            .map(|c| c.keyspace_acks.iter().map(|(_, k)| k.clone()).collect::<Vec<_>>().join(">"))
                            .collect();
                        rows.sort();
                        per_node.push(format!("n{}:{}", node, rows.join(",")));
                    }
                    out.push(format!("l[{}]", per_node.join("|")));
                }
                _ => return None,
            }
        }
        // oracle at the nodes
        let rejected_at = |node: usize, t: u64| mask_hist.iter().any(|(from, to, m)| *from <= t && t <= *to && m >> node & 1 == 1);
        for c in cluster.conns().iter().filter(|c| rejected_at(c.node, c.opened) && !c.control) {
            ctx.fail(format!("sess: the host filter rejects node {}, yet a pool connection was opened to it (acknowledged {:?})", c.node, c.keyspace_acks));
        }
        for f in cluster.frames() {
            let text = match &f.parsed {
                Parsed::Query { text, .. } | Parsed::Prepare { text } => text.clone(),
                _ => continue,
            };
            if rejected_at(f.node, f.seq) && text.starts_with("SELECT pk, v FROM t WHERE pk = 0x") {
                ctx.fail(format!("sess: the request {:?} ran on node {}, which the host filter rejects (it has no pool, so no connection there ever acknowledged a keyspace)", text, f.node));
            }
            for (nm, _) in names.iter().filter(|(nm, _)| !spec_valid(nm) && !nm.is_empty()) {
                if text.contains(nm.as_str()) {
                    ctx.fail(format!("sess: the invalid keyspace name {:?} reached node {} inside {:?}", nm, f.node, text));
                }
            }
            if let Some(idhex) = text.strip_prefix("SELECT pk, v FROM t WHERE pk = 0x")
                && let Ok(id) = usize::from_str_radix(idhex, 16)
                && let Some((_, Some(want))) = expect.iter().find(|(i, _)| *i == id)
                && f.keyspace.as_ref() != Some(want)
            {
                ctx.fail(format!(
                    "sess: request {} was submitted after use_keyspace({}) had returned Ok, but arrived at node {} on a connection that had acknowledged {:?}",
                    id, want, f.node, f.keyspace
                ));
            }
        }
        Some(out.join(";"))
    })
}

pub fn run(case: &str, ctx: &mut Ctx) -> String {
    let w: Vec<&str> = case.split_whitespace().collect();
    match w.first().copied() {
        Some("name") if w.len() == 3 => {
            let Some(Ok(name)) = unhex(w[1]).map(String::from_utf8) else { return "bad-case".into() };
            let cs = match w[2] {
                "0" => false,
                "1" => true,
                _ => return "bad-case".into(),
            };
            match verify_keyspace_name(&name, cs) {
                Ok(stmt) => {
                    if !spec_valid(&name) {
                        ctx.fail(format!("the invalid keyspace name {:?} was accepted and would be sent as {:?}", name, stmt));
                    }
                    if stmt != spec_statement(&name, cs) {
                        ctx.fail(format!("statement for ({:?}, case_sensitive={}) is {:?}", name, cs, stmt));
                    }
                    format!("ok {}", hex(stmt.as_bytes()))
                }
                Err(kind) => format!("err {}", kind),
            }
        }
        Some("sess") if w.len() == 4 => run_sess(&w, ctx).unwrap_or_else(|| "bad-case".into()),
        Some("ukr") if w.len() == 2 => {
            // `use_keyspace_result` (cluster/worker.rs) on one combination of per-target results
            const LABELS: [&str; 6] = ["ok", "broken", "timeout", "db", "mismatch", "unexpected"];
            let labels: Vec<&str> = if w[1] == "-" { vec![] } else { w[1].split(',').collect() };
            if labels.iter().any(|l| !LABELS.contains(l)) || labels.len() > 8 {
                return "bad-case".into();
            }
            let res = std::panic::catch_unwind(|| scylla::verif_hooks::cluster_worker::use_keyspace_result_labels(&labels));
            let out = res.unwrap_or_else(|_| "panic".to_owned());
            // oracle, from the property: Ok only if nothing but Ok / broken-connection results and at least one Ok;
            // any other error (a TIMEOUT included: that target's connections stay published) fails the call
            let first_other = labels.iter().find(|l| **l != "ok" && **l != "broken");
            let expect = match first_other {
                Some(l) => format!("err:{}", l),
                None if labels.contains(&"ok") => "ok".to_owned(),
                None if labels.is_empty() => "panic".to_owned(),
                None => "err:broken".to_owned(),
            };
            if out != expect {
                ctx.fail(format!("use_keyspace_result({:?}) = {} (the property requires {})", labels, out, expect));
            }
            out
        }
        Some("resp") if w.len() == 5 => {
            let rt = tokio::runtime::Builder::new_current_thread().enable_all().build().unwrap();
            rt.block_on(run_resp(&w, ctx)).unwrap_or_else(|| "bad-case".into())
        }
        Some(kind @ ("pool" | "race")) if w.len() == 5 => {
            // Watchdog (a hard oracle): no step of a script can legitimately take longer than a few seconds (the
            // longest is the pool's own 5 s USE timeout). A case that has not finished after 25 s gets a second
            // chance on the SAME run - the harness just keeps waiting another 60 s, so mere slowness of a loaded
            // machine is tolerated, but nothing is re-run and a request that never completes is never masked.
            // Still unfinished after that = a request (or use_keyspace call) hangs: oracle failure.
            let race = kind == "race";
            let rt = if race && std::env::var_os("C20_RACE_CURRENT_THREAD").is_none() {
                tokio::runtime::Builder::new_multi_thread().worker_threads(3).enable_all().build().unwrap()
            } else {
                tokio::runtime::Builder::new_current_thread().enable_all().build().unwrap()
            };
            let progress = Mutex::new(String::new());
            let peek: Mutex<Option<Arc<Mutex<State>>>> = Mutex::new(None);
            let mut local = Ctx::default();
            let log = |what: &str| {
                use std::io::Write;
                if let Ok(mut f) = std::fs::OpenOptions::new().create(true).append(true).open("/verif/work/C20-hangs.log") {
                    let _ = writeln!(f, "{} at {}: {}", what, progress.lock().unwrap(), case);
                    if let Some(st) = peek.lock().unwrap().as_ref()
                        && let Ok(st) = st.lock()
                    {
                        let conns: Vec<String> =
                            st.conns.iter().enumerate().map(|(i, c)| format!("#{} shard={:?} live={} answered={} ks={:?}", i, c.shard, c.live, c.answered, c.ks)).collect();
                        let answered: Vec<u64> = st.queries.iter().map(|q| q.tag).collect();
                        let tail: Vec<&String> = st.texts.iter().rev().take(12).collect();
                        let _ = writeln!(f, "    node: conns [{}]; queries answered {:?}; last texts (newest first) {:?}", conns.join("; "), answered, tail);
                    }
                }
            };
            let res = rt.block_on(async {
                let fut = run_pool(&w, race, &progress, &peek, &mut local);
                tokio::pin!(fut);
                match tokio::time::timeout(Duration::from_secs(25), &mut fut).await {
                    Ok(r) => Some(r),
                    Err(_) => {
                        log("slow (still running after 25 s, waiting 60 s more)");
                        tokio::time::timeout(Duration::from_secs(60), &mut fut).await.ok()
                    }
                }
            });
            rt.shutdown_timeout(Duration::from_secs(2));
            ctx.oracle_failures.append(&mut local.oracle_failures);
            match res {
                Some(r) => r.unwrap_or_else(|| "bad-case".into()),
                None => {
                    log("HANG (unfinished after 85 s)");
                    let at = progress.lock().unwrap().clone();
                    ctx.fail(format!("a request or use_keyspace call never completed: the case was still at {} after 85 s", at));
                    "HANG".into()
                }
            }
        }
        _ => "bad-case".into(),
    }
}

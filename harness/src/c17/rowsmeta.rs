//! `rowsmeta` cases of C17: WHICH result metadata the rows of one RESULT::Rows response are type-checked and decoded
//! against (`scylla_cql::frame::response::result::deserialize_with_features(body, cached_metadata, features)` →
//! `RawMetadataAndRawRows::deserialize_metadata()` → `rows_iter::<T>()`): the real parser is handed a CACHED metadata
//! (as `Connection::send_request` does for a prepared statement with `skip_metadata`) and a body whose flags
//! (0x0004 NO_METADATA, 0x0008 METADATA_CHANGED) and own metadata are scripted.
//!
//! Case: `rowsmeta <target> <ext 0|1> <flags> | none or <id|-> cols | <new id> cols | <rows>`
//!   cols as in `pager`; the new id is on the wire iff flag 0x0008 is set AND the extension is on (a server without
//!   the extension never sends one); the rows are laid out per the SENT columns unless NO_METADATA (then per the
//!   cached ones: the server honoured skip_metadata; nothing cached = no columns).
//! Output: `err presence` | `cols=<cols in force> id=<-|n> iter=ok rows=<n>|typecheck`
use super::pager::{cell, cols_str, expected_value, parse_cols, target_fits, PCol, PkV, PTYPES};
use crate::mocknode::{w_bytes, w_int, w_short, w_short_bytes, w_string};
use crate::Ctx;
use bytes::Bytes;
use scylla::value::{CqlValue, Row};
use scylla_cql::frame::response::result::{self, ColumnSpec, ColumnType, NativeType, ResultMetadata, TableSpec};
use scylla_cql_core::frame::protocol_features::ProtocolFeatures;
use std::sync::Arc;

fn native(ty: &str) -> NativeType {
    match ty {
        "int" => NativeType::Int,
        "bigint" => NativeType::BigInt,
        "double" => NativeType::Double,
        "text" => NativeType::Text,
        _ => NativeType::Boolean,
    }
}

fn native_name(t: &ColumnType) -> &'static str {
    match t {
        ColumnType::Native(NativeType::Int) => "int",
        ColumnType::Native(NativeType::BigInt) => "bigint",
        ColumnType::Native(NativeType::Double) => "double",
        ColumnType::Native(NativeType::Text) => "text",
        ColumnType::Native(NativeType::Boolean) => "boolean",
        _ => "?",
    }
}

/// A `ResultMetadata` as a prepared statement holds it.  One WITH an id has no public constructor: it is obtained the
/// way the driver obtains it, from a response that announces the id (extension on, METADATA_CHANGED).
fn make_meta(id: Option<u8>, cs: &[PCol]) -> Option<Arc<ResultMetadata<'static>>> {
    match id {
        None => {
            let specs: Vec<ColumnSpec<'static>> = cs
                .iter()
                .map(|c| ColumnSpec::owned(c.name.clone(), ColumnType::Native(native(c.ty)), TableSpec::owned("ks".to_owned(), "t".to_owned())))
                .collect();
            Some(Arc::new(ResultMetadata::new_for_test(specs.len(), specs)))
        }
        Some(i) => {
            let mut b = Vec::new();
            w_int(&mut b, 2);
            w_int(&mut b, 0x0009);
            w_int(&mut b, cs.len() as i32);
            w_short_bytes(&mut b, &[i; 16]);
            w_string(&mut b, "ks");
            w_string(&mut b, "t");
            for c in cs {
                w_string(&mut b, &c.name);
                w_short(&mut b, PTYPES.iter().find(|(t, _)| *t == c.ty).unwrap().1);
            }
            w_int(&mut b, 0);
            let mut features = ProtocolFeatures::default();
            features.scylla_metadata_id_supported = true;
            match result::deserialize_with_features(Bytes::from(b), None, &features) {
                Ok(result::Result::Rows((raw, _))) => {
                    let dm = raw.deserialize_metadata().ok()?;
                    let m = dm.metadata().clone().into_owned();
                    (m.id() == Some(&[i; 16][..])).then(|| Arc::new(m))
                }
                _ => None,
            }
        }
    }
}

macro_rules! through {
    ($dm:expr, $t:ty, $conv:expr) => {{
        match $dm.rows_iter::<$t>() {
            Err(_) => None,
            Ok(it) => Some(it.map(|r| r.ok().map($conv)).collect::<Vec<Option<Vec<(String, CqlValue)>>>>()),
        }
    }};
}

pub fn run(line: &str, ctx: &mut Ctx) -> String {
    let segs: Vec<&str> = line.split(" | ").map(|s| s.trim()).collect();
    if segs.len() != 4 {
        return "bad-case".to_owned();
    }
    let hd: Vec<&str> = segs[0].split_whitespace().collect();
    if hd.len() != 4 || hd[0] != "rowsmeta" || !(hd[2] == "0" || hd[2] == "1") {
        return "bad-case".to_owned();
    }
    let target = hd[1];
    let ext = hd[2] == "1";
    let (Ok(flags), Ok(nrows)) = (hd[3].parse::<i32>(), segs[3].parse::<usize>()) else { return "bad-case".to_owned() };
    if target_fits(target, &[]).is_none() || flags < 0 {
        return "bad-case".to_owned();
    }
    let ctoks: Vec<&str> = segs[1].split_whitespace().collect();
    let cached: Option<(Option<u8>, Vec<PCol>)> = if ctoks == ["none"] {
        None
    } else {
        let Some(idw) = ctoks.first() else { return "bad-case".to_owned() };
        let id = if *idw == "-" {
            None
        } else {
            match idw.parse::<u8>() {
                Ok(i) => Some(i),
                Err(_) => return "bad-case".to_owned(),
            }
        };
        let Some(cs) = parse_cols(&ctoks[1..]) else { return "bad-case".to_owned() };
        Some((id, cs))
    };
    let stoks: Vec<&str> = segs[2].split_whitespace().collect();
    let (Some(Ok(new_id)), Some(sent)) = (stoks.first().map(|s| s.parse::<u8>()), stoks.get(1..).and_then(parse_cols)) else {
        return "bad-case".to_owned();
    };
    let no_metadata = flags & 0x0004 != 0;
    // the layout of the row bytes: what the server SENT, else what the client holds
    let layout: Vec<PCol> = if !no_metadata { sent.clone() } else { cached.as_ref().map(|c| c.1.clone()).unwrap_or_default() };

    // ---- the body ----
    let mut b = Vec::new();
    w_int(&mut b, 2);
    w_int(&mut b, flags);
    w_int(&mut b, layout.len() as i32);
    if flags & 0x0008 != 0 && ext {
        w_short_bytes(&mut b, &[new_id; 16]);
    }
    if !no_metadata {
        if flags & 0x0001 != 0 {
            w_string(&mut b, "ks");
            w_string(&mut b, "t");
        }
        for c in &sent {
            if flags & 0x0001 == 0 {
                w_string(&mut b, "ks");
                w_string(&mut b, "t");
            }
            w_string(&mut b, &c.name);
            w_short(&mut b, PTYPES.iter().find(|(t, _)| *t == c.ty).unwrap().1);
        }
    }
    w_int(&mut b, nrows as i32);
    for g in 0..nrows {
        for (i, c) in layout.iter().enumerate() {
            w_bytes(&mut b, Some(&cell(c.ty, g, i)));
        }
    }
    let cached_arc: Option<Arc<ResultMetadata<'static>>> = match cached.as_ref().map(|(id, cs)| make_meta(*id, cs)) {
        Some(None) => return "bad-case cached".to_owned(),
        Some(Some(m)) => Some(m),
        None => None,
    };
    let mut features = ProtocolFeatures::default();
    features.scylla_metadata_id_supported = ext;
    let raw = match result::deserialize_with_features(Bytes::from(b), cached_arc.as_ref(), &features) {
        Ok(result::Result::Rows((raw, _))) => raw,
        Ok(_) => return "bad-case body".to_owned(),
        Err(_) => {
            // the only refusal a well-formed body can meet: both flags, the second one honoured
            if !(no_metadata && ext && flags & 0x0008 != 0) {
                ctx.fail("a well-formed RESULT::Rows body was refused".to_owned());
            }
            return "err presence".to_owned();
        }
    };
    let dm = match raw.deserialize_metadata() {
        Ok(d) => d,
        Err(e) => {
            ctx.fail(format!("deserialize_metadata failed on a well-formed body: {e}"));
            return "err metadata".to_owned();
        }
    };
    let in_force: Vec<(String, &'static str)> = dm.metadata().col_specs().iter().map(|s| (s.name().to_owned(), native_name(s.typ()))).collect();
    let in_force_str = format!("{}{}", in_force.len(), in_force.iter().map(|(n, t)| format!(" {} {}", n, t)).collect::<String>());
    // ---- oracle 1 (the property's text, one layer down): a response that carries metadata is read with THAT metadata
    if !no_metadata && in_force_str != cols_str(&sent) {
        ctx.fail(format!(
            "reinterpretation: the response carries the metadata `{}` (its rows are laid out in it) but the rows are type-checked and decoded against `{}`",
            cols_str(&sent),
            in_force_str
        ));
    }
    if dm.rows_count() != nrows {
        ctx.fail(format!("rows_count {} for {} rows sent", dm.rows_count(), nrows));
    }
    let idx = |i: usize| i.to_string();
    let res = std::panic::catch_unwind(std::panic::AssertUnwindSafe(|| match target {
        "t_i32_i64" => through!(dm, (i32, i64), |r: (i32, i64)| vec![(idx(0), CqlValue::Int(r.0)), (idx(1), CqlValue::BigInt(r.1))]),
        "t_i32_str" => through!(dm, (i32, String), |r: (i32, String)| vec![(idx(0), CqlValue::Int(r.0)), (idx(1), CqlValue::Text(r.1))]),
        "t_i32" => through!(dm, (i32,), |r: (i32,)| vec![(idx(0), CqlValue::Int(r.0))]),
        "s_pk_v" => through!(dm, PkV, |r: PkV| vec![("pk".to_owned(), CqlValue::Int(r.pk)), ("v".to_owned(), CqlValue::BigInt(r.v))]),
        _ => through!(dm, Row, |r: Row| r.columns.into_iter().enumerate().map(|(i, c)| (idx(i), c.unwrap_or(CqlValue::Empty))).collect::<Vec<_>>()),
    }));
    let res = match res {
        Ok(r) => r,
        Err(_) => {
            ctx.fail("reinterpretation: decoding the rows panicked after the typed iterator was handed out".to_owned());
            return "PANIC".to_owned();
        }
    };
    // ---- oracle 2: a typed iterator exists iff the target fits the LAYOUT of the row bytes; the values are the sent ones
    let fits = target_fits(target, &layout) == Some(true);
    let iter = match &res {
        None => {
            if fits {
                ctx.fail(format!("docs: the rows are laid out in `{}`, which fits {}, but rows_iter refused", cols_str(&layout), target));
            }
            "typecheck".to_owned()
        }
        Some(items) => {
            if !fits {
                ctx.fail(format!(
                    "reinterpretation: rows laid out in `{}` were handed out as {} (first item {:?})",
                    cols_str(&layout),
                    target,
                    items.first()
                ));
            } else {
                if items.len() != nrows {
                    ctx.fail(format!("{} items for {} rows", items.len(), nrows));
                }
                for (g, item) in items.iter().enumerate() {
                    let Some(vals) = item else {
                        ctx.fail(format!("row {} of a fitting, intact response failed to decode", g));
                        continue;
                    };
                    for (key, got) in vals {
                        let ci = key.parse::<usize>().ok().or_else(|| layout.iter().position(|c| c.name == *key));
                        match ci {
                            Some(ci) if ci < layout.len() => {
                                let want = expected_value(layout[ci].ty, g, ci);
                                if *got != want {
                                    ctx.fail(format!("row {} column {}: delivered {:?}, the server sent {:?}", g, key, got, want));
                                }
                            }
                            _ => ctx.fail(format!("row {}: delivered a column `{}` the response does not have", g, key)),
                        }
                    }
                }
            }
            format!("ok rows={}", nrows)
        }
    };
    let id = match dm.metadata().id() {
        Some(i) if i.len() == 16 && i.iter().all(|x| *x == i[0]) => i[0].to_string(),
        Some(_) => "?".to_owned(),
        None => "-".to_owned(),
    };
    // ---- oracle 3: the id announced is the response's own iff the flag is honoured
    if !no_metadata {
        let want = if ext && flags & 0x0008 != 0 { new_id.to_string() } else { "-".to_owned() };
        if id != want {
            ctx.fail(format!("metadata id in force {} but the response announces {}", id, want));
        }
    }
    format!("cols={} id={} iter={}", in_force_str, id, iter)
}

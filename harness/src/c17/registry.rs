// ------------------------------------------------------------------------------------------------
// registry of concrete Rust carrier types
// ------------------------------------------------------------------------------------------------

pub struct Entry {
    pub label: &'static str,
    pub cd: CD,
    pub natural: Ty,
    pub shape: fn(u32) -> String,
    /// add representative value `v` to the SerializedValues
    pub add: Option<fn(u32, &ColumnType, &mut SerializedValues) -> Result<(), SerializationError>>,
    pub tc: Option<fn(&ColumnType) -> Result<(), TypeCheckError>>,
    /// deserialize the cell body (None = null cell) and give the canonical shape of the result
    pub deser: Option<fn(&ColumnType<'static>, Option<&[u8]>) -> Result<String, String>>,
    pub canon: fn(u32) -> String,
    /// the `CqlValue` behind representative value `v` (dynamic carriers only)
    pub dynval: Option<fn(u32) -> CqlValue>,
}

fn add_fn<T: Car>(v: u32, ct: &ColumnType, sv: &mut SerializedValues) -> Result<(), SerializationError> {
    sv.add_value(&T::rep(v), ct)
}
fn tc_fn<T: for<'f, 'm> DeserializeValue<'f, 'm>>(ct: &ColumnType) -> Result<(), TypeCheckError> {
    <T as DeserializeValue>::type_check(ct)
}
fn deser_fn<T: Car + for<'f, 'm> DeserializeValue<'f, 'm>>(ct: &ColumnType<'static>, body: Option<&[u8]>) -> Result<String, String> {
    let bytes = body.map(Bytes::copy_from_slice);
    let slice = bytes.as_ref().map(FrameSlice::new);
    match <T as DeserializeValue>::deserialize(ct, slice) {
        Ok(x) => Ok(x.shape(true)),
        Err(e) => Err(format!("{}", e).chars().take(160).collect()),
    }
}

/// serialize-only carrier
fn so<T: Car>(label: &'static str) -> Entry {
    Entry { label, cd: T::cd(), natural: T::natural(), shape: |v| T::rep(v).shape(false), add: Some(add_fn::<T>), tc: None, deser: None, canon: |v| T::rep(v).shape(true), dynval: None }
}
/// dynamic carrier (`CqlValue` of shape `K`)
fn dy<const K: u8>(label: &'static str) -> Entry {
    Entry { dynval: Some(|v| dyn_value(K, v).0), ..so::<Dyn<K>>(label) }
}
/// carrier with both traits
fn sd<T: Car + for<'f, 'm> DeserializeValue<'f, 'm>>(label: &'static str) -> Entry {
    Entry { tc: Some(tc_fn::<T>), deser: Some(deser_fn::<T>), ..so::<T>(label) }
}
/// type-check-only carrier (borrowed / iterator types)
fn tco(label: &'static str, cd: CD, natural: Ty, tc: fn(&ColumnType) -> Result<(), TypeCheckError>) -> Entry {
    Entry { label, cd, natural, shape: |_| String::new(), add: None, tc: Some(tc), deser: None, canon: |_| String::new(), dynval: None }
}

fn entries() -> Vec<Entry> {
    let int = || Ty::Native(NativeType::Int);
    let text = || Ty::Native(NativeType::Text);
    let sc = |s: &'static str| Box::new(CD::Scalar(s));
    vec![
        // leaves (both directions)
        sd::<i8>("i8"), sd::<i16>("i16"), sd::<i32>("i32"), sd::<i64>("i64"), sd::<f32>("f32"), sd::<f64>("f64"),
        sd::<bool>("bool"), sd::<String>("String"), sd::<Vec<u8>>("Vec<u8>"), sd::<Bytes>("Bytes"), sd::<IpAddr>("IpAddr"),
        sd::<uuid::Uuid>("Uuid"), sd::<CqlTimeuuid>("CqlTimeuuid"), sd::<CqlDate>("CqlDate"), sd::<CqlTime>("CqlTime"),
        sd::<CqlTimestamp>("CqlTimestamp"), sd::<CqlDuration>("CqlDuration"), sd::<CqlVarint>("CqlVarint"),
        sd::<CqlDecimal>("CqlDecimal"), sd::<Counter>("Counter"),
        // serialize-only leaves and markers
        so::<&'static str>("&str"), so::<&'static [u8]>("&[u8]"), so::<[u8; 3]>("[u8;3]"), so::<Cow<'static, str>>("Cow<str>"),
        so::<CqlVarintBorrowed<'static>>("CqlVarintBorrowed"), so::<CqlDecimalBorrowed<'static>>("CqlDecimalBorrowed"),
        so::<Unset>("Unset"), so::<MaybeUnset<i32>>("MaybeUnset<i32>"), so::<MaybeUnset<String>>("MaybeUnset<String>"),
        so::<Vec<MaybeUnset<i64>>>("Vec<MaybeUnset<i64>>"), so::<(MaybeUnset<String>, Option<i64>)>("(MaybeUnset<String>,Option<i64>)"),
        // wrappers
        sd::<Option<i32>>("Option<i32>"), sd::<Option<String>>("Option<String>"), sd::<Option<Vec<i32>>>("Option<Vec<i32>>"),
        sd::<MaybeEmpty<i32>>("MaybeEmpty<i32>"), sd::<MaybeEmpty<uuid::Uuid>>("MaybeEmpty<Uuid>"),
        sd::<Option<MaybeEmpty<i64>>>("Option<MaybeEmpty<i64>>"), sd::<Box<i32>>("Box<i32>"), sd::<Arc<String>>("Arc<String>"),
        sd::<Box<Vec<Option<i16>>>>("Box<Vec<Option<i16>>>"),
        // sequences
        sd::<Vec<i32>>("Vec<i32>"), sd::<Vec<String>>("Vec<String>"), sd::<Vec<f32>>("Vec<f32>"), sd::<Vec<i64>>("Vec<i64>"),
        sd::<Vec<Vec<u8>>>("Vec<Vec<u8>>"), sd::<Vec<Option<i32>>>("Vec<Option<i32>>"), sd::<Vec<Option<String>>>("Vec<Option<String>>"),
        sd::<Vec<MaybeEmpty<i32>>>("Vec<MaybeEmpty<i32>>"), sd::<Vec<Vec<i32>>>("Vec<Vec<i32>>"), sd::<Vec<(i32, String)>>("Vec<(i32,String)>"),
        sd::<Vec<BTreeMap<i32, String>>>("Vec<BTreeMap<i32,String>>"), sd::<Vec<CqlDuration>>("Vec<CqlDuration>"),
        sd::<HashSet<i32, DH>>("HashSet<i32>"), sd::<HashSet<String, DH>>("HashSet<String>"), sd::<HashSet<Vec<i32>, DH>>("HashSet<Vec<i32>>"),
        sd::<BTreeSet<i32>>("BTreeSet<i32>"), sd::<BTreeSet<String>>("BTreeSet<String>"), sd::<BTreeSet<(i32, i64)>>("BTreeSet<(i32,i64)>"),
        // maps
        sd::<HashMap<String, i64, DH>>("HashMap<String,i64>"), sd::<HashMap<i32, Option<String>, DH>>("HashMap<i32,Option<String>>"),
        sd::<BTreeMap<i32, String>>("BTreeMap<i32,String>"), sd::<BTreeMap<String, Vec<i32>>>("BTreeMap<String,Vec<i32>>"),
        sd::<BTreeMap<i32, BTreeMap<i32, i32>>>("BTreeMap<i32,BTreeMap<i32,i32>>"), sd::<BTreeMap<uuid::Uuid, (i32, f64)>>("BTreeMap<Uuid,(i32,f64)>"),
        // tuples
        sd::<(i32,)>("(i32,)"), sd::<(i32, String)>("(i32,String)"), sd::<(i32, i32, String)>("(i32,i32,String)"),
        sd::<(Option<i32>, Option<String>, Option<Vec<f32>>)>("(Option<i32>,Option<String>,Option<Vec<f32>>)"),
        sd::<((i64,), Vec<i64>)>("((i64,),Vec<i64>)"), sd::<(bool, f64, CqlDate, Counter)>("(bool,f64,CqlDate,Counter)"),
        // CqlValue
        dy::<0>("CqlValue:int"), dy::<1>("CqlValue:text"), dy::<2>("CqlValue:empty"), dy::<3>("CqlValue:list"),
        dy::<4>("CqlValue:set"), dy::<5>("CqlValue:vector"), dy::<6>("CqlValue:map"), dy::<7>("CqlValue:tuple"),
        dy::<8>("CqlValue:udt"), dy::<9>("CqlValue:udt-names"), dy::<10>("CqlValue:list-of-tuples"), dy::<11>("CqlValue:map-of-lists"),
        dy::<12>("CqlValue:udt3"), dy::<13>("CqlValue:udt3-names"), dy::<14>("CqlValue:list-of-udt"), dy::<15>("CqlValue:tuple-of-udt"),
        dy::<16>("CqlValue:udt-in-udt"), dy::<17>("CqlValue:map-of-udt"), dy::<18>("CqlValue:list-of-long-tuples"), dy::<19>("CqlValue:set-of-vectors"),
        dy::<20>("CqlValue:list-of-empty"), dy::<21>("CqlValue:map-of-empty"), dy::<22>("CqlValue:tuple-of-empty"), dy::<23>("CqlValue:udt-of-empty"),
        // type-check-only
        // CqlValue reads every column type: all its `deser` cases are pairs that pass type_check
        Entry {
            deser: Some(|ct, body| {
                let bytes = body.map(Bytes::copy_from_slice);
                let slice = bytes.as_ref().map(FrameSlice::new);
                <CqlValue as DeserializeValue>::deserialize(ct, slice).map(|_| String::new()).map_err(|e| format!("{}", e).chars().take(120).collect())
            }),
            ..tco("CqlValue", CD::Dyn, int(), |ct| <CqlValue as DeserializeValue>::type_check(ct))
        },
        tco("&str(de)", CD::Scalar("str"), text(), |ct| <&str as DeserializeValue>::type_check(ct)),
        tco("&[u8](de)", CD::Scalar("blob"), Ty::Native(NativeType::Blob), |ct| <&[u8] as DeserializeValue>::type_check(ct)),
        tco("Box<str>", CD::Scalar("str"), text(), |ct| <Box<str> as DeserializeValue>::type_check(ct)),
        tco("Arc<str>", CD::Scalar("str"), text(), |ct| <Arc<str> as DeserializeValue>::type_check(ct)),
        tco("Cow<str>(de)", CD::Scalar("str"), text(), |ct| <Cow<str> as DeserializeValue>::type_check(ct)),
        tco("ListlikeIterator<i32>", CD::ListIter(sc("i32")), Ty::List(Box::new(int())), |ct| <ListlikeIterator<i32> as DeserializeValue>::type_check(ct)),
        tco("ListlikeIterator<Vec<String>>", CD::ListIter(Box::new(CD::Vec(sc("str")))), Ty::Set(Box::new(Ty::List(Box::new(text())))), |ct| {
            <ListlikeIterator<Vec<String>> as DeserializeValue>::type_check(ct)
        }),
        tco("VectorIterator<f32>", CD::VecIter(sc("f32")), Ty::Vector(Box::new(Ty::Native(NativeType::Float)), 2), |ct| <VectorIterator<f32> as DeserializeValue>::type_check(ct)),
        tco("MapIterator<i32,String>", CD::MapIter(sc("i32"), sc("str")), Ty::Map(Box::new(int()), Box::new(text())), |ct| {
            <MapIterator<i32, String> as DeserializeValue>::type_check(ct)
        }),
        tco("UdtIterator", CD::UdtIter, udt_ty(&[("a", int())]), |ct| <UdtIterator as DeserializeValue>::type_check(ct)),
        tco("()", CD::Tuple(vec![]), Ty::Tuple(vec![]), |ct| <() as DeserializeValue>::type_check(ct)),
    ]
}

pub fn all_entries() -> &'static [Entry] {
    static ALL: std::sync::OnceLock<Vec<Entry>> = std::sync::OnceLock::new();
    ALL.get_or_init(entries)
}

pub fn entry(label: &str) -> Option<&'static Entry> {
    all_entries().iter().find(|e| e.label == label)
}

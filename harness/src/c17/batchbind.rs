// ------------------------------------------------------------------------------------------------
// `batch`: a BATCH request whose value lists are bound through `RawBatchValuesAdapter` (one
// `RowSerializationContext` per statement) by `Batch::serialize` (scylla-cql frame/request/batch.rs:82-135)
// ------------------------------------------------------------------------------------------------

fn run_batch(case: &str, ctx: &mut Ctx) -> String {
    use scylla_cql::frame::request::batch::{Batch, BatchStatement, BatchType};
    use scylla_cql::frame::frame_errors::CqlRequestSerializationError as E;
    use scylla_cql::frame::request::SerializableRequest;
    use scylla_cql::frame::frame_errors::{BatchSerializationError as BE, BatchStatementSerializationError as BSE};
    use scylla_cql::serialize::batch::BatchValuesFromIterator;
    use scylla_cql::serialize::raw_batch::RawBatchValuesAdapter;
    let segs: Vec<&str> = case.split(" | ").map(|s| s.trim()).collect();
    if segs.len() != 3 {
        return "bad-case".to_owned();
    }
    let carrier = segs[0].split_whitespace().nth(1).unwrap_or("");
    let groups = |s: &str| -> Vec<String> { if s == "." { vec![] } else { s.split(" || ").map(|x| x.trim().to_owned()).collect() } };
    let items = |s: &str| -> Vec<String> { if s == "-" { vec![] } else { s.split(" ; ").map(|x| x.trim().to_owned()).collect() } };
    let mut stmts: Vec<Vec<(String, Ty)>> = Vec::new();
    for g in groups(segs[1]) {
        let mut cols = Vec::new();
        for c in items(&g) {
            let Some((name, t)) = c.split_once(' ') else { return "bad-case".to_owned() };
            let Some(ty) = parse_ty_str(t) else { return "bad-case".to_owned() };
            cols.push((name.to_owned(), ty));
        }
        stmts.push(cols);
    }
    let mut rows: Vec<Vec<CqlValue>> = Vec::new();
    for g in groups(segs[2]) {
        let mut vals = Vec::new();
        for it in items(&g) {
            let toks: Vec<&str> = it.split_whitespace().collect();
            if toks.len() < 2 {
                return "bad-case".to_owned();
            }
            let Some((k, v)) = parse_ref(toks[0]) else { return "bad-case".to_owned() };
            let value = dyn_value(k, v).0;
            if dyn_shape(&value) != toks[1..].join(" ") {
                return "bad-case shape-does-not-match-the-value".to_owned();
            }
            vals.push(value);
        }
        rows.push(vals);
    }
    let specs: Vec<Vec<ColumnSpec<'static>>> = stmts
        .iter()
        .map(|cols| cols.iter().map(|(n, t)| ColumnSpec::owned(n.clone(), to_column_type(t), TableSpec::owned("ks".into(), "t".into()))).collect())
        .collect();
    let ids: Vec<Vec<u8>> = (0..stmts.len()).map(|i| vec![0xA0 + i as u8; 4]).collect();
    let statements: Vec<BatchStatement> = ids.iter().map(|i| BatchStatement::Prepared { id: Cow::Borrowed(i.as_slice()) }).collect();
    let contexts = specs.iter().map(|s| RowSerializationContext::from_specs(s.as_slice()));
    let mut buf: Vec<u8> = Vec::new();
    macro_rules! go {
        ($bv:expr) => {{
            let b = Batch {
                statements: Cow::Owned(statements),
                batch_type: BatchType::Logged,
                consistency: scylla_cql::Consistency::One,
                serial_consistency: None,
                timestamp: None,
                values: RawBatchValuesAdapter::new($bv, contexts),
            };
            b.serialize(&mut buf)
        }};
    }
    let res = match (carrier, rows.len()) {
        ("vec", _) => go!(&rows),
        ("iter", _) => go!(BatchValuesFromIterator::new(rows.iter())),
        ("tuple", 1) => go!((&rows[0],)),
        ("tuple", 2) => go!((&rows[0], &rows[1])),
        ("tuple", 3) => go!((&rows[0], &rows[1], &rows[2])),
        _ => return "bad-case carrier".to_owned(),
    };
    // independent expectation: as many value lists as statements, every list matches ITS OWN statement
    let row_ok = |i: usize| rows[i].len() == stmts[i].len() && rows[i].iter().zip(&stmts[i]).all(|(v, (_, t))| dyn_fits(v, t));
    let expected_ok = rows.len() == stmts.len() && (0..rows.len()).all(row_ok);
    match res {
        Err(e) => {
            let s = match &e {
                E::BatchSerialization(BE::ValuesAndStatementsLengthMismatch { .. }) => "err CountsMismatch".to_owned(),
                E::BatchSerialization(BE::StatementSerialization { statement_idx, error }) => match error {
                    BSE::ValuesSerialiation(err) => format!("err stmt {} {}", statement_idx, bind_err_str(err)),
                    BSE::TooManyValues(_) => format!("err stmt {} err TooManyValues", statement_idx),
                    _ => format!("err stmt {} other", statement_idx),
                },
                _ => "err other".to_owned(),
            };
            if expected_ok {
                ctx.fail(format!("batch-bind: every value list matches its statement but the batch was refused: {}", s));
            }
            if let E::BatchSerialization(BE::StatementSerialization { statement_idx, .. }) = &e {
                // the statement named is the first one whose value list does not match it
                let first_bad = (0..rows.len().min(stmts.len())).find(|i| !row_ok(*i));
                if first_bad != Some(*statement_idx) {
                    ctx.fail(format!("batch-bind: the error names statement {}, the first value list that does not match its statement is {:?}", statement_idx, first_bad));
                }
            }
            s
        }
        Ok(()) => {
            if !expected_ok {
                ctx.fail("batch-bind: a batch with a value list that does not match its OWN statement's bind markers was serialized".to_owned());
            }
            // parse the body (CQL v4 §4.1.7): <type><n> n x (<kind=1><short bytes id><n values><value>…) <consistency><flags>
            let mut out = format!("ok {}", stmts.len());
            let mut p = 0usize;
            let rd = |p: &mut usize, n: usize| -> Option<&[u8]> {
                let s = buf.get(*p..*p + n)?;
                *p += n;
                Some(s)
            };
            let ok: Option<()> = (|| {
                let _ty = rd(&mut p, 1)?;
                let n = u16::from_be_bytes(rd(&mut p, 2)?.try_into().ok()?) as usize;
                if n != stmts.len() {
                    ctx.fail(format!("batch-bind: the frame announces {} statements, {} were given", n, stmts.len()));
                }
                for i in 0..n {
                    let kind = rd(&mut p, 1)?[0];
                    let idlen = u16::from_be_bytes(rd(&mut p, 2)?.try_into().ok()?) as usize;
                    let id = rd(&mut p, idlen)?;
                    if kind != 1 || id != ids[i].as_slice() {
                        ctx.fail(format!("batch-bind: statement {} of the frame is not the {}-th prepared statement", i, i));
                    }
                    let count = u16::from_be_bytes(rd(&mut p, 2)?.try_into().ok()?) as usize;
                    let start = p;
                    for _ in 0..count {
                        let len = i32::from_be_bytes(rd(&mut p, 4)?.try_into().ok()?);
                        if len >= 0 {
                            rd(&mut p, len as usize)?;
                        }
                    }
                    let cells = &buf[start..p];
                    if count != stmts[i].len() {
                        ctx.fail(format!("count: statement {} has {} bind markers, the frame carries {} values", i, stmts[i].len(), count));
                    }
                    // the cells are the CQL v4 encodings of this statement's values against ITS columns
                    let mut want = Vec::new();
                    let mut known = true;
                    for (v, (_, t)) in rows[i].iter().zip(&stmts[i]) {
                        let val = crate::c01::from_cql(v);
                        match (crate::c01::classify(t, &val, true) == crate::c01::Dom::In, crate::c01::spec_cell(t, &val)) {
                            (true, Some(c)) => want.extend(c),
                            _ => known = false,
                        }
                    }
                    if known && want != cells {
                        ctx.fail(format!("wire-bytes: statement {} carries {} but its values encode to {}", i, hex(cells), hex(&want)));
                    }
                    out.push_str(&format!(" [{} cells={} {}]", count, parse_cells(cells).map(|c| c.to_string()).unwrap_or("bad".into()), digest(cells)));
                }
                Some(())
            })();
            if ok.is_none() {
                ctx.fail("batch-bind: the serialized BATCH body does not parse".to_owned());
            }
            out
        }
    }
}

// ------------------------------------------------------------------------------------------------
// `bindrow`: SerializeRow for positional rows (Vec / slice / tuple) and by-name maps through
// from_serializable; `frame`: SerializedValues::new_from_frame
// ------------------------------------------------------------------------------------------------

fn bind_err_str(e: &SerializationError) -> String {
    use scylla_cql_core::serialize::row::{BuiltinTypeCheckError as RTc, BuiltinTypeCheckErrorKind as RTk};
    if let Some(inner) = e.downcast_ref::<SerializationError>() {
        return bind_err_str(inner);
    }
    if let Some(t) = e.downcast_ref::<RTc>() {
        return match &t.kind {
            RTk::WrongColumnCount { .. } => "err WrongColumnCount".to_owned(),
            RTk::NoColumnWithName { name } => format!("err NoColumnWithName {}", name),
            RTk::ValueMissingForColumn { name } => format!("err ValueMissingForColumn {}", name),
            _ => "err OtherRowTypeCheck".to_owned(),
        };
    }
    if let Some(r) = e.downcast_ref::<RowSerErr>() {
        return match &r.kind {
            RSK::TooManyValues => "err TooManyValues".to_owned(),
            RSK::ColumnSerializationFailed { name, err } => format!("err col {} {}", name, ser_err_str(err)),
            _ => "err OtherRow".to_owned(),
        };
    }
    "err Other".to_owned()
}

/// the tuple of the `tup3` cases and its fields in the model's notation
fn tup3_value() -> (i32, String, Vec<i32>) {
    (42, "abc".to_owned(), vec![42, i32::MIN])
}
pub fn tup3_shapes() -> String {
    let t = tup3_value();
    format!("x {} ; x {} ; x {}", t.0.shape(false), t.1.shape(false), t.2.shape(false))
}

/// derived rows, default (by-name) flavor: every bind marker takes the value of the like-named field
#[derive(scylla::SerializeRow)]
struct RowAB {
    a: i32,
    b: String,
}
#[derive(scylla::SerializeRow)]
struct RowABC {
    a: i32,
    b: String,
    c: Vec<i32>,
}
/// fields declared in REVERSE alphabetical order: `check_missing` names the first unvisited field in DECLARATION order
#[derive(scylla::SerializeRow)]
struct RowCBA {
    c: Vec<i32>,
    b: String,
    a: i32,
}
pub fn struct_shapes_cba() -> String {
    let t = tup3_value();
    format!("c x {} ; b x {} ; a x {}", t.2.shape(false), t.1.shape(false), t.0.shape(false))
}
pub fn struct_shapes(n: usize) -> String {
    let t = tup3_value();
    let all = [format!("a x {}", t.0.shape(false)), format!("b x {}", t.1.shape(false)), format!("c x {}", t.2.shape(false))];
    all[..n].join(" ; ")
}

fn parse_ref(r: &str) -> Option<(u8, u32)> {
    let (k, v) = r.split_once(':')?;
    Some((k.parse().ok()?, v.parse().ok()?))
}

fn run_bindrow(case: &str, ctx: &mut Ctx) -> String {
    let segs: Vec<&str> = case.split(" | ").map(|s| s.trim()).collect();
    if segs.len() != 3 {
        return "bad-case".to_owned();
    }
    let kind = segs[0].split_whitespace().nth(1).unwrap_or("");
    let items = |s: &str| -> Vec<String> { if s == "-" { vec![] } else { s.split(" ; ").map(|x| x.trim().to_owned()).collect() } };
    let mut cols: Vec<(String, Ty)> = Vec::new();
    for c in items(segs[1]) {
        let Some((name, t)) = c.split_once(' ') else { return "bad-case".to_owned() };
        let Some(ty) = parse_ty_str(t) else { return "bad-case".to_owned() };
        cols.push((name.to_owned(), ty));
    }
    let specs: Vec<ColumnSpec<'static>> =
        cols.iter().map(|(n, t)| ColumnSpec::owned(n.clone(), to_column_type(t), TableSpec::owned("ks".into(), "t".into()))).collect();
    let rctx = RowSerializationContext::from_specs(&specs);
    // the values (as CqlValues: positional, or keyed)
    let mut vals: Vec<(String, CqlValue)> = Vec::new();
    let fixed_kind = matches!(kind, "tup3" | "tup2" | "tup1" | "unit" | "u80" | "struct2" | "struct3" | "structcba");
    for it in if fixed_kind { vec![] } else { items(segs[2]) } {
        let toks: Vec<&str> = it.split_whitespace().collect();
        let (name, r, shape) = if kind == "map" {
            if toks.len() < 3 { return "bad-case".to_owned() }
            (toks[0].to_owned(), toks[1], toks[2..].join(" "))
        } else {
            if toks.len() < 2 { return "bad-case".to_owned() }
            (String::new(), toks[0], toks[1..].join(" "))
        };
        let Some((k, v)) = parse_ref(r) else { return "bad-case".to_owned() };
        let value = dyn_value(k, v).0;
        if dyn_shape(&value) != shape {
            return "bad-case shape-does-not-match-the-value".to_owned();
        }
        vals.push((name, value));
    }
    let fits_all: bool;
    let expected_ok: bool;
    let res = match kind {
        "seq" => {
            let v: Vec<CqlValue> = vals.iter().map(|(_, v)| v.clone()).collect();
            fits_all = v.iter().zip(&cols).all(|(v, (_, t))| dyn_fits(v, t));
            expected_ok = v.len() == cols.len() && fits_all;
            let a = SerializedValues::from_serializable(&rctx, &v);
            let b = SerializedValues::from_serializable(&rctx, &v.as_slice());
            if a.as_ref().ok() != b.as_ref().ok() {
                ctx.fail("from_serializable(Vec<T>) and from_serializable(&[T]) disagree".to_owned());
            }
            if v.len() != cols.len() && !matches!(&a, Err(e) if bind_err_str(e) == "err WrongColumnCount") {
                ctx.fail(format!("row-bind: {} values for {} bind markers was not refused as WrongColumnCount", v.len(), cols.len()));
            }
            a
        }
        // the same through a Rust tuple: the three values are fixed by the type
        "tup3" => {
            let t = tup3_value();
            let eq = [CqlValue::Int(42), CqlValue::Text("abc".into()), CqlValue::List(vec![CqlValue::Int(42), CqlValue::Int(i32::MIN)])];
            if segs[2] != tup3_shapes() {
                return "bad-case tuple-values".to_owned();
            }
            fits_all = eq.iter().zip(&cols).all(|(v, (_, t))| dyn_fits(v, t));
            expected_ok = cols.len() == 3 && fits_all;
            SerializedValues::from_serializable(&rctx, &t)
        }
        // the other arities, and the two empty rows `()` / `[u8; 0]`
        "tup1" | "tup2" | "unit" | "u80" => {
            let eq: Vec<CqlValue> = match kind {
                "tup1" => vec![CqlValue::Int(42)],
                "tup2" => vec![CqlValue::Int(42), CqlValue::Text("abc".into())],
                _ => vec![],
            };
            let want = match kind {
                "tup1" => format!("x {}", 42i32.shape(false)),
                "tup2" => format!("x {} ; x {}", 42i32.shape(false), "abc".to_owned().shape(false)),
                _ => "-".to_owned(),
            };
            if segs[2] != want {
                return "bad-case tuple-values".to_owned();
            }
            fits_all = eq.iter().zip(&cols).all(|(v, (_, t))| dyn_fits(v, t));
            expected_ok = cols.len() == eq.len() && fits_all;
            let r = match kind {
                "tup1" => SerializedValues::from_serializable(&rctx, &(42i32,)),
                "tup2" => SerializedValues::from_serializable(&rctx, &(42i32, "abc".to_owned())),
                "unit" => SerializedValues::from_serializable(&rctx, &()),
                _ => SerializedValues::from_serializable(&rctx, &[0u8; 0]),
            };
            if cols.len() != eq.len() && !matches!(&r, Err(e) if bind_err_str(e) == "err WrongColumnCount") {
                ctx.fail(format!("row-bind: {} values for {} bind markers was not refused as WrongColumnCount", eq.len(), cols.len()));
            }
            r
        }
        // derived structs (by name): the fields are the keys
        "struct2" | "struct3" | "structcba" => {
            let n = if kind == "struct2" { 2 } else { 3 };
            if segs[2] != (if kind == "structcba" { struct_shapes_cba() } else { struct_shapes(n) }) {
                return "bad-case struct-values".to_owned();
            }
            let t = tup3_value();
            let fields: Vec<(&str, CqlValue)> = vec![
                ("a", CqlValue::Int(t.0)),
                ("b", CqlValue::Text(t.1.clone())),
                ("c", CqlValue::List(t.2.iter().map(|x| CqlValue::Int(*x)).collect())),
            ];
            let fields = &fields[..n];
            let all_found = cols.iter().all(|(name, _)| fields.iter().any(|(f, _)| f == name));
            let unused: Vec<&str> = fields.iter().map(|(f, _)| *f).filter(|f| !cols.iter().any(|(name, _)| name == f)).collect();
            fits_all = cols.iter().all(|(name, t)| fields.iter().find(|(f, _)| f == name).is_none_or(|(_, v)| dyn_fits(v, t)));
            expected_ok = all_found && unused.is_empty() && fits_all;
            let r = if n == 2 {
                SerializedValues::from_serializable(&rctx, &RowAB { a: t.0, b: t.1.clone() })
            } else if kind == "structcba" {
                SerializedValues::from_serializable(&rctx, &RowCBA { c: t.2.clone(), b: t.1.clone(), a: t.0 })
            } else {
                SerializedValues::from_serializable(&rctx, &RowABC { a: t.0, b: t.1.clone(), c: t.2.clone() })
            };
            if r.is_ok() && !unused.is_empty() {
                ctx.fail(format!(
                    "row-bind: the bind succeeded although no bind marker takes the value of field(s) {:?}: the value was silently dropped (markers: {:?})",
                    unused,
                    cols.iter().map(|(n, _)| n.as_str()).collect::<Vec<_>>()
                ));
            }
            if r.is_ok() && !all_found {
                ctx.fail("row-bind: a bind marker without a like-named field was accepted".to_owned());
            }
            r
        }
        "map" => {
            let hm: HashMap<String, CqlValue> = vals.iter().cloned().collect();
            let bm: BTreeMap<&str, CqlValue> = vals.iter().map(|(n, v)| (n.as_str(), v.clone())).collect();
            if hm.len() != vals.len() {
                return "bad-case duplicate-key".to_owned();
            }
            let all_found = cols.iter().all(|(n, _)| hm.contains_key(n));
            let all_used = hm.keys().all(|k| cols.iter().any(|(n, _)| n == k));
            fits_all = cols.iter().all(|(n, t)| hm.get(n).is_none_or(|v| dyn_fits(v, t)));
            expected_ok = all_found && all_used && fits_all;
            let a = SerializedValues::from_serializable(&rctx, &hm);
            let b = SerializedValues::from_serializable(&rctx, &bm);
            if a.as_ref().ok() != b.as_ref().ok() || a.as_ref().err().map(bind_err_str) != b.as_ref().err().map(bind_err_str) {
                ctx.fail("from_serializable(HashMap<String, T>) and from_serializable(BTreeMap<&str, T>) disagree".to_owned());
            }
            if let Ok(_) = &a {
                if !all_found {
                    ctx.fail("row-bind: a bind marker without a value of its name was accepted".to_owned());
                }
                if !all_used {
                    ctx.fail("row-bind: a value whose name matches no bind marker was silently dropped".to_owned());
                }
            }
            if let Err(e) = &a {
                let s = bind_err_str(e);
                if let Some(name) = s.strip_prefix("err NoColumnWithName ") {
                    let min_unused = hm.keys().filter(|k| !cols.iter().any(|(n, _)| n == *k)).min();
                    if min_unused.map(|k| k.as_str()) != Some(name) {
                        ctx.fail(format!("row-bind: NoColumnWithName names `{}`, the smallest unused key is {:?}", name, min_unused));
                    }
                }
                if let Some(name) = s.strip_prefix("err ValueMissingForColumn ") {
                    let first_missing = cols.iter().map(|(n, _)| n).find(|n| !hm.contains_key(*n));
                    if first_missing.map(|k| k.as_str()) != Some(name) {
                        ctx.fail(format!("row-bind: ValueMissingForColumn names `{}`, the first marker without a value is {:?}", name, first_missing));
                    }
                }
            }
            a
        }
        _ => return "bad-case".to_owned(),
    };
    match res {
        Ok(sv) => {
            if !expected_ok {
                ctx.fail(format!("row-bind: the bind was accepted although {}", if fits_all { "the row does not match the bind markers" } else { "a value does not fit its column's type" }));
            }
            let bytes = sv_bytes(&sv);
            let cells = parse_cells(&bytes);
            if cells != Some(sv.element_count() as usize) || sv.element_count() as usize != cols.len() {
                ctx.fail(format!("count: {} bind markers, element_count() = {}, {:?} cells in the buffer", cols.len(), sv.element_count(), cells));
            }
            format!("ok count={} cells={} {}", sv.element_count(), cells.map(|c| c.to_string()).unwrap_or("bad".into()), digest(&bytes))
        }
        Err(e) => {
            let s = bind_err_str(&e);
            if expected_ok && !(s.ends_with("SizeOverflow") || s.ends_with("TooManyElements") || s.ends_with("TooManyValues")) {
                ctx.fail(format!("row-bind: a row that matches its bind markers was refused: {}", s));
            }
            s
        }
    }
}

fn run_frame(h: &str, ctx: &mut Ctx) -> String {
    let Some(buf) = crate::util::unhex(h) else { return "bad-case".to_owned() };
    let mut slice: &[u8] = &buf;
    match SerializedValues::new_from_frame(&mut slice) {
        Err(_) => "err".to_owned(),
        Ok(sv) => {
            let bytes = sv_bytes(&sv);
            let cells = parse_cells(&bytes);
            if cells != Some(sv.element_count() as usize) {
                ctx.fail(format!("count: new_from_frame gives element_count() = {} over {:?} cells", sv.element_count(), cells));
            }
            if sv.iter().count() != sv.element_count() as usize {
                ctx.fail("count: new_from_frame: element_count() != iter().count()".to_owned());
            }
            let consumed = buf.len() - slice.len();
            if consumed != 2 + bytes.len() || buf[2..consumed] != bytes[..] || buf.len() < 2 || u16::from_be_bytes([buf[0], buf[1]]) != sv.element_count() {
                ctx.fail("new_from_frame consumed other bytes than [short n] + the values it kept".to_owned());
            }
            format!("ok count={} cells={} rest={} {}", sv.element_count(), cells.map(|c| c.to_string()).unwrap_or("bad".into()), slice.len(), digest(&bytes))
        }
    }
}

// ------------------------------------------------------------------------------------------------
// CqlValue carriers (`dyn`): a fixed family of shapes, selected by the const parameter
// ------------------------------------------------------------------------------------------------

/// `Dyn<K>` serializes exactly like the `CqlValue` it wraps.
#[derive(Clone, Debug, PartialEq)]
pub struct Dyn<const K: u8>(pub CqlValue);

impl<const K: u8> SerializeValue for Dyn<K> {
    fn serialize<'b>(
        &self,
        typ: &ColumnType,
        writer: scylla_cql_core::serialize::CellWriter<'b>,
    ) -> Result<scylla_cql_core::serialize::writers::WrittenCellProof<'b>, SerializationError> {
        self.0.serialize(typ, writer)
    }
}

fn opt_shape(v: &Option<CqlValue>) -> String {
    match v {
        None => "none".to_owned(),
        Some(x) => format!("some {}", dyn_shape(x)),
    }
}

pub fn dyn_shape(v: &CqlValue) -> String {
    use NativeType as N;
    let leaf = |name: &str, n: N| format!("s {} {}", name, body_of(v, n));
    match v {
        CqlValue::Ascii(_) => leaf("str", N::Ascii),
        CqlValue::Text(_) => leaf("str", N::Text),
        CqlValue::Boolean(_) => leaf("bool", N::Boolean),
        CqlValue::Blob(_) => leaf("blob", N::Blob),
        CqlValue::Counter(_) => leaf("counter", N::Counter),
        CqlValue::Decimal(_) => leaf("decimal", N::Decimal),
        CqlValue::Date(_) => leaf("date", N::Date),
        CqlValue::Double(_) => leaf("f64", N::Double),
        CqlValue::Duration(_) => leaf("duration", N::Duration),
        CqlValue::Empty => "meempty".to_owned(),
        CqlValue::Float(_) => leaf("f32", N::Float),
        CqlValue::Int(_) => leaf("i32", N::Int),
        CqlValue::BigInt(_) => leaf("i64", N::BigInt),
        CqlValue::Timestamp(_) => leaf("timestamp", N::Timestamp),
        CqlValue::Inet(_) => leaf("inet", N::Inet),
        CqlValue::SmallInt(_) => leaf("i16", N::SmallInt),
        CqlValue::TinyInt(_) => leaf("i8", N::TinyInt),
        CqlValue::Time(_) => leaf("time", N::Time),
        CqlValue::Timeuuid(_) => leaf("timeuuid", N::Timeuuid),
        CqlValue::Uuid(_) => leaf("uuid", N::Uuid),
        CqlValue::Varint(_) => leaf("varint", N::Varint),
        CqlValue::List(l) | CqlValue::Set(l) | CqlValue::Vector(l) => seq_shape("vec", l.iter().map(dyn_shape).collect(), false),
        CqlValue::Map(m) => seq_shape("map", m.iter().map(|(k, v)| format!("{} {}", dyn_shape(k), dyn_shape(v))).collect(), false),
        CqlValue::Tuple(fs) => seq_shape("tuple", fs.iter().map(opt_shape).collect(), false),
        CqlValue::UserDefinedType { keyspace, name, fields } => format!(
            "udt {} {} {}{}",
            hex(keyspace.as_bytes()),
            hex(name.as_bytes()),
            fields.len(),
            fields.iter().map(|(n, v)| format!(" {} {}", hex(n.as_bytes()), opt_shape(v))).collect::<String>()
        ),
        _ => "bad".to_owned(),
    }
}

pub fn udt_ty(fields: &[(&str, Ty)]) -> Ty {
    Ty::Udt("ks".into(), "typ".into(), fields.iter().map(|(n, t)| (n.to_string(), t.clone())).collect())
}

fn dyn_value(k: u8, v: u32) -> (CqlValue, Ty) {
    use CqlValue as V;
    let int = Ty::Native(NativeType::Int);
    let text = Ty::Native(NativeType::Text);
    let udt = |fields: Vec<(&str, Option<CqlValue>)>| V::UserDefinedType {
        keyspace: "ks".into(),
        name: "typ".into(),
        fields: fields.into_iter().map(|(n, v)| (n.to_owned(), v)).collect(),
    };
    match k {
        0 => (V::Int(42 + v as i32), int),
        1 => (if v == 1 { V::Ascii("z".into()) } else { V::Text("abc".into()) }, text),
        2 => (V::Empty, int),
        // heterogeneous list: the LAST element has another type (fails after the first ones were written)
        3 => (
            match v {
                0 => V::List(vec![V::Int(1), V::Int(2)]),
                1 => V::List(vec![]),
                2 => V::List(vec![V::Int(1), V::Int(2), V::Text("x".into())]),
                _ => V::List(vec![V::Int(1), V::Empty]),
            },
            Ty::List(Box::new(int)),
        ),
        4 => (V::Set(if v == 1 { vec![] } else { vec![V::Text("a".into()), V::Text("b".into())] }), Ty::Set(Box::new(text))),
        5 => (
            V::Vector(match v {
                0 => vec![V::Float(1.0), V::Float(2.0)],
                1 => vec![],
                2 => vec![V::Float(1.0), V::Float(2.0), V::Float(3.0)],
                _ => vec![V::Float(1.0), V::Double(2.0)],
            }),
            Ty::Vector(Box::new(Ty::Native(NativeType::Float)), 2),
        ),
        6 => (
            V::Map(match v {
                0 => vec![(V::Int(1), V::Text("a".into())), (V::Int(2), V::Text("b".into()))],
                1 => vec![],
                2 => vec![(V::Int(1), V::Text("a".into())), (V::Int(2), V::Int(3))],
                _ => vec![(V::Int(1), V::Text("a".into())), (V::Text("k".into()), V::Text("b".into()))],
            }),
            Ty::Map(Box::new(int), Box::new(text)),
        ),
        7 => (
            V::Tuple(match v {
                0 => vec![Some(V::Int(1)), Some(V::Text("a".into()))],
                1 => vec![Some(V::Int(1))],
                2 => vec![Some(V::Int(1)), None],
                _ => vec![Some(V::Int(1)), Some(V::Text("a".into())), Some(V::Int(3))],
            }),
            Ty::Tuple(vec![int, text]),
        ),
        8 => (
            match v {
                0 => udt(vec![("a", Some(V::Int(1))), ("b", Some(V::Text("x".into())))]),
                1 => udt(vec![]),
                2 => udt(vec![("b", Some(V::Text("x".into()))), ("a", None)]),
                _ => udt(vec![("a", Some(V::Int(1))), ("zz", Some(V::Int(2)))]),
            },
            udt_ty(&[("a", int), ("b", text)]),
        ),
        // a UDT value whose names differ from the column's
        9 => (
            V::UserDefinedType { keyspace: "ks".into(), name: if v == 1 { "typ".into() } else { "other".into() }, fields: vec![("a".into(), Some(V::Int(1)))] },
            udt_ty(&[("a", int), ("b", text)]),
        ),
        // nested: list of tuples, the second tuple's second field has the wrong type
        10 => (
            V::List(match v {
                0 => vec![V::Tuple(vec![Some(V::Int(1)), Some(V::Text("a".into()))])],
                1 => vec![V::Tuple(vec![])],
                _ => vec![V::Tuple(vec![Some(V::Int(1)), Some(V::Text("a".into()))]), V::Tuple(vec![Some(V::Int(2)), Some(V::Int(3))])],
            }),
            Ty::List(Box::new(Ty::Tuple(vec![int, text]))),
        ),
        11 => (V::Map(vec![(V::Text("k".into()), V::List(vec![V::BigInt(1), V::BigInt(2)]))]), Ty::Map(Box::new(text), Box::new(Ty::List(Box::new(Ty::Native(NativeType::BigInt)))))),
        // a three-field UDT column; the value names a field the type lacks, with FEWER / AS MANY / MORE fields than the type
        12 => (
            match v {
                0 => udt(vec![("a", Some(V::Int(1))), ("b", Some(V::Text("x".into()))), ("c", Some(V::Int(3)))]),
                1 => udt(vec![("a", Some(V::Int(1))), ("zzz", Some(V::Int(2)))]),
                2 => udt(vec![("a", Some(V::Int(1))), ("b", Some(V::Text("x".into()))), ("x", Some(V::Int(3)))]),
                _ => udt(vec![("a", Some(V::Int(1))), ("b", Some(V::Text("x".into()))), ("c", Some(V::Int(3))), ("x", Some(V::Int(4)))]),
            },
            udt_ty(&[("a", int.clone()), ("b", text.clone()), ("c", int.clone())]),
        ),
        // renamed / reordered / null-valued unknown fields
        13 => (
            match v {
                0 => udt(vec![("c", Some(V::Int(3))), ("b", Some(V::Text("x".into()))), ("a", Some(V::Int(1)))]),
                1 => udt(vec![("a", Some(V::Int(1))), ("B", Some(V::Text("x".into())))]),
                2 => udt(vec![("a", None), ("q", None)]),
                _ => udt(vec![("a", Some(V::Int(1))), ("a ", Some(V::Int(1)))]),
            },
            udt_ty(&[("a", int.clone()), ("b", text.clone()), ("c", int.clone())]),
        ),
        // the same at depth: list<udt>, tuple<int, udt>, udt in udt, map<int, udt>
        14 => (
            V::List(match v {
                0 => vec![udt(vec![("a", Some(V::Int(1))), ("b", Some(V::Text("x".into())))]), udt(vec![("a", Some(V::Int(2)))])],
                1 => vec![],
                2 => vec![udt(vec![("a", Some(V::Int(1))), ("b", Some(V::Text("x".into())))]), udt(vec![("a", Some(V::Int(2))), ("x", Some(V::Int(3)))])],
                _ => vec![udt(vec![("x", Some(V::Int(3)))])],
            }),
            Ty::List(Box::new(udt_ty(&[("a", int.clone()), ("b", text.clone()), ("c", int.clone())]))),
        ),
        15 => (
            V::Tuple(match v {
                0 => vec![Some(V::Int(1)), Some(udt(vec![("a", Some(V::Int(1))), ("b", Some(V::Text("x".into())))]))],
                1 => vec![Some(V::Int(1))],
                2 => vec![Some(V::Int(1)), Some(udt(vec![("a", Some(V::Int(1))), ("zzz", Some(V::Int(2)))]))],
                _ => vec![None, Some(udt(vec![("a", Some(V::Int(1))), ("b", None), ("c", None), ("x", None)]))],
            }),
            Ty::Tuple(vec![int.clone(), udt_ty(&[("a", int.clone()), ("b", text.clone()), ("c", int.clone())])]),
        ),
        16 => {
            let outer = |fields: Vec<(&str, Option<CqlValue>)>| V::UserDefinedType {
                keyspace: "ks".into(),
                name: "outer".into(),
                fields: fields.into_iter().map(|(n, v)| (n.to_owned(), v)).collect(),
            };
            (
                match v {
                    0 => outer(vec![("u", Some(udt(vec![("a", Some(V::Int(1))), ("b", Some(V::Text("x".into())))]))), ("n", Some(V::Int(1)))]),
                    1 => outer(vec![("n", Some(V::Int(1)))]),
                    2 => outer(vec![("u", Some(udt(vec![("a", Some(V::Int(1))), ("x", Some(V::Int(2)))]))), ("n", Some(V::Int(1)))]),
                    _ => outer(vec![("u", Some(udt(vec![("a", Some(V::Int(1)))]))), ("extra", Some(V::Int(1)))]),
                },
                Ty::Udt("ks".into(), "outer".into(), vec![("u".into(), udt_ty(&[("a", int.clone()), ("b", text.clone()), ("c", int.clone())])), ("n".into(), int.clone())]),
            )
        }
        17 => (
            V::Map(match v {
                0 => vec![(V::Int(1), udt(vec![("a", Some(V::Int(1)))])), (V::Int(2), udt(vec![("b", Some(V::Text("x".into())))]))],
                1 => vec![],
                2 => vec![(V::Int(1), udt(vec![("a", Some(V::Int(1)))])), (V::Int(2), udt(vec![("a", Some(V::Int(1))), ("y", Some(V::Int(2)))]))],
                _ => vec![(V::Int(1), udt(vec![("a", Some(V::Text("not an int".into())))]))],
            }),
            Ty::Map(Box::new(int.clone()), Box::new(udt_ty(&[("a", int.clone()), ("b", text.clone()), ("c", int.clone())]))),
        ),
        // a tuple value longer than the tuple type, at depth
        18 => (
            V::List(match v {
                0 => vec![V::Tuple(vec![Some(V::Int(1)), Some(V::Text("a".into()))]), V::Tuple(vec![Some(V::Int(2))])],
                1 => vec![V::Tuple(vec![None, None])],
                2 => vec![V::Tuple(vec![Some(V::Int(1)), Some(V::Text("a".into()))]), V::Tuple(vec![Some(V::Int(2)), Some(V::Text("b".into())), Some(V::Int(3))])],
                _ => vec![V::Tuple(vec![None, None, None])],
            }),
            Ty::List(Box::new(Ty::Tuple(vec![int.clone(), text.clone()]))),
        ),
        // Empty at the top is kind 2; Empty one level down: in a list / set / vector, as map key and value, as tuple
        // field, as UDT field (the column types come from the generator: every non-emptiable and emptiable type)
        20 => (V::List(match v { 0 => vec![V::Empty, V::Empty], 1 => vec![], 2 => vec![V::Int(1), V::Empty], _ => vec![V::Empty] }), Ty::List(Box::new(int.clone()))),
        21 => (V::Map(match v { 0 => vec![(V::Empty, V::Empty)], 1 => vec![], 2 => vec![(V::Int(1), V::Empty)], _ => vec![(V::Empty, V::Int(1))] }), Ty::Map(Box::new(int.clone()), Box::new(int.clone()))),
        22 => (V::Tuple(match v { 0 => vec![Some(V::Empty), Some(V::Empty)], 1 => vec![None, Some(V::Empty)], 2 => vec![Some(V::Int(1)), Some(V::Empty)], _ => vec![Some(V::Empty)] }), Ty::Tuple(vec![int.clone(), int.clone()])),
        23 => (
            match v {
                0 => udt(vec![("a", Some(V::Empty)), ("b", Some(V::Empty))]),
                1 => udt(vec![("b", Some(V::Empty))]),
                2 => udt(vec![("a", Some(V::Int(1))), ("b", Some(V::Empty))]),
                _ => udt(vec![("a", Some(V::Empty))]),
            },
            udt_ty(&[("a", int.clone()), ("b", int.clone())]),
        ),
        // a vector value of the wrong length, at depth
        _ => (
            V::Set(match v {
                0 => vec![V::Vector(vec![V::Int(1), V::Int(2)]), V::Vector(vec![V::Int(3), V::Int(4)])],
                1 => vec![],
                2 => vec![V::Vector(vec![V::Int(1), V::Int(2)]), V::Vector(vec![V::Int(3)])],
                _ => vec![V::Vector(vec![V::Int(1), V::Int(2), V::Int(3)])],
            }),
            Ty::Set(Box::new(Ty::Vector(Box::new(int.clone()), 2))),
        ),
    }
}

impl<const K: u8> Car for Dyn<K> {
    fn cd() -> CD { CD::Dyn }
    fn natural() -> Ty { dyn_value(K, 0).1 }
    fn rep(v: u32) -> Self { Dyn(dyn_value(K, v).0) }
    fn shape(&self, _: bool) -> String { dyn_shape(&self.0) }
}

//! `sbatch` / `squery` cases of C17: binding through a real `Session` on a one-node mock cluster
//! (`Session::batch` -> `peek_first_token` -> `BatchValuesFirstSerialized` -> `Connection::batch_with_consistency` ->
//! `RawBatchValuesAdapter`; `Session::query_unpaged` with values -> PREPARE, `serialize_values`, EXECUTE per attempt).
//! The frames that reach the node are captured by the mock and parsed by ITS request parser.
//!
//!   `sbatch <vec|tuple> | <P|Q> name T ; … || <P|Q> … | <ref> V ; … || …`   (P = prepared by the caller, Q = unprepared)
//!   `squery | name T ; … | <ref> V ; …`
use super::types::parse_ty_str;
use super::{bind_err_str, dyn_fits, dyn_shape, dyn_value, native_id};
use crate::c01::{to_column_type, Ty};
use crate::e2e::common::{connect, Shape, Strat};
use crate::mockcluster::{act_void, prepared_body, runtime, Act, ClusterHandler, CqlT, MockCluster, Req, Specs};
use crate::mocknode::{md5ish, BatchStmt, Parsed, RESP_RESULT};
use crate::util::hex;
use crate::Ctx;
use scylla::client::session::Session;
use scylla::errors::{BadQuery, ExecutionError, RequestAttemptError};
use scylla::statement::batch::{Batch, BatchType};
use scylla::statement::unprepared::Statement;
use scylla::value::CqlValue;
use scylla_cql::frame::frame_errors::{BatchSerializationError as BE, BatchStatementSerializationError as BSE, CqlRequestSerializationError as CE};
use std::cell::RefCell;
use std::collections::HashMap;
use std::sync::{Arc, Mutex};

type ColMap = Arc<Mutex<HashMap<String, Vec<(String, Ty)>>>>;

struct Env {
    cluster: MockCluster,
    session: Session,
    cols: ColMap,
}

thread_local! {
    static RT: tokio::runtime::Runtime = runtime(1);
    static ENV: RefCell<Option<Env>> = const { RefCell::new(None) };
    static CASE_NO: std::cell::Cell<u64> = const { std::cell::Cell::new(0) };
}

fn cqlt(t: &Ty) -> Option<CqlT> {
    Some(match t {
        Ty::Native(n) => CqlT::Native(native_id(n)),
        Ty::List(e) => CqlT::List(Box::new(cqlt(e)?)),
        Ty::Set(e) => CqlT::Set(Box::new(cqlt(e)?)),
        Ty::Map(k, v) => CqlT::Map(Box::new(cqlt(k)?), Box::new(cqlt(v)?)),
        _ => return None,
    })
}

fn handler(cols: ColMap) -> ClusterHandler {
    Box::new(move |r: &Req| match &r.parsed {
        Parsed::Prepare { text } => {
            let m = cols.lock().unwrap();
            let bind: Vec<(String, CqlT)> = m.get(text).map(|c| c.iter().filter_map(|(n, t)| Some((n.clone(), cqlt(t)?))).collect()).unwrap_or_default();
            let refs: Vec<(&str, CqlT)> = bind.iter().map(|(n, t)| (n.as_str(), t.clone())).collect();
            vec![Act::Respond(RESP_RESULT, prepared_body(&md5ish(text), &Specs::new("ks", "t", &refs), &[], None))]
        }
        _ => vec![act_void()],
    })
}

fn items(s: &str) -> Vec<String> {
    if s == "-" { vec![] } else { s.split(" ; ").map(|x| x.trim().to_owned()).collect() }
}

fn parse_cols(s: &str) -> Option<Vec<(String, Ty)>> {
    items(s).iter().map(|c| { let (n, t) = c.split_once(' ')?; Some((n.to_owned(), parse_ty_str(t)?)) }).collect()
}

fn parse_vals(s: &str) -> Option<Vec<CqlValue>> {
    items(s)
        .iter()
        .map(|it| {
            let toks: Vec<&str> = it.split_whitespace().collect();
            let (k, v) = toks.first()?.split_once(':')?;
            let value = dyn_value(k.parse().ok()?, v.parse().ok()?).0;
            if dyn_shape(&value) != toks[1..].join(" ") { None } else { Some(value) }
        })
        .collect()
}

/// the independent encoding of a value list against its columns (C01's encoder), cell by cell
fn want_cells(vals: &[CqlValue], cols: &[(String, Ty)]) -> Option<Vec<Option<Vec<u8>>>> {
    vals.iter()
        .zip(cols)
        .map(|(v, (_, t))| {
            let val = crate::c01::from_cql(v);
            if crate::c01::classify(t, &val, true) != crate::c01::Dom::In {
                return None;
            }
            let cell = crate::c01::spec_cell(t, &val)?;
            Some(Some(cell[4..].to_vec()))
        })
        .collect()
}

fn cells_line(cells: &[Option<Vec<u8>>]) -> String {
    let mut bytes = Vec::new();
    for c in cells {
        match c {
            None => bytes.extend_from_slice(&[0xff; 4]),
            Some(b) => {
                bytes.extend_from_slice(&(b.len() as i32).to_be_bytes());
                bytes.extend_from_slice(b);
            }
        }
    }
    format!("[{} cells={} {}]", cells.len(), cells.len(), if bytes.len() <= 2048 { hex(&bytes) } else { format!("len={}", bytes.len()) })
}

fn exec_err(e: &ExecutionError) -> String {
    match e {
        ExecutionError::BadQuery(BadQuery::SerializationError(s)) => format!("err stmt 0 {}", bind_err_str(s)),
        ExecutionError::LastAttemptError(RequestAttemptError::SerializationError(s)) => bind_err_str(s),
        ExecutionError::LastAttemptError(RequestAttemptError::CqlRequestSerialization(CE::BatchSerialization(b))) => match b {
            BE::ValuesAndStatementsLengthMismatch { .. } => "err CountsMismatch".to_owned(),
            BE::StatementSerialization { statement_idx, error } => match error {
                BSE::ValuesSerialiation(s) => format!("err stmt {} {}", statement_idx, bind_err_str(s)),
                BSE::TooManyValues(_) => format!("err stmt {} err TooManyValues", statement_idx),
                _ => format!("err stmt {} other", statement_idx),
            },
            _ => "err batch-other".to_owned(),
        },
        other => format!("err other {}", format!("{:?}", other).chars().take(60).collect::<String>().replace(' ', "_")),
    }
}

async fn env(ctx: &mut Ctx) -> Option<Env> {
    if let Some(e) = ENV.with(|e| e.borrow_mut().take()) {
        return Some(e);
    }
    let cols: ColMap = Arc::new(Mutex::new(HashMap::new()));
    let shape = Shape { nodes: 1, dcs: 1, racks: 1, shards: 0, msb: 12, vnodes: 2, strat: Strat::Simple(1), seed: 1 };
    let cluster = MockCluster::start(shape.topology(), handler(Arc::clone(&cols))).await;
    match connect(&cluster, |b| b).await {
        Ok(session) => Some(Env { cluster, session, cols }),
        Err(l) => {
            ctx.fail(format!("harness: cannot build the session: {}", l));
            None
        }
    }
}

async fn run_sbatch(case: &str, ctx: &mut Ctx) -> String {
    let segs: Vec<&str> = case.split(" | ").map(|s| s.trim()).collect();
    if segs.len() != 3 {
        return "bad-case".to_owned();
    }
    let carrier = segs[0].split_whitespace().nth(1).unwrap_or("");
    let groups = |s: &str| -> Vec<String> { if s == "." { vec![] } else { s.split(" || ").map(|x| x.trim().to_owned()).collect() } };
    let mut stmts: Vec<(bool, Vec<(String, Ty)>)> = Vec::new();
    for g in groups(segs[1]) {
        let (kind, rest) = g.split_once(' ').unwrap_or((g.as_str(), "-"));
        let Some(cols) = parse_cols(rest) else { return "bad-case".to_owned() };
        if cols.iter().any(|(_, t)| cqlt(t).is_none()) {
            return "bad-case column-type".to_owned();
        }
        stmts.push((kind == "P", cols));
    }
    let mut rows: Vec<Vec<CqlValue>> = Vec::new();
    for g in groups(segs[2]) {
        let Some(v) = parse_vals(&g) else { return "bad-case".to_owned() };
        rows.push(v);
    }
    let Some(env) = env(ctx).await else { return "HARNESS-ERROR".to_owned() };
    let case_no = CASE_NO.with(|c| { c.set(c.get() + 1); c.get() });
    let texts: Vec<String> = stmts.iter().enumerate().map(|(i, (_, cols))| format!("INSERT INTO ks.t{}_{} VALUES ({})", case_no, i, vec!["?"; cols.len()].join(", "))).collect();
    {
        let mut m = env.cols.lock().unwrap();
        m.clear();
        for (t, (_, cols)) in texts.iter().zip(&stmts) {
            m.insert(t.clone(), cols.clone());
        }
    }
    let mut batch = Batch::new(BatchType::Logged);
    for (t, (prepared, _)) in texts.iter().zip(&stmts) {
        if *prepared {
            match env.session.prepare(Statement::new(t.clone())).await {
                Ok(p) => batch.append_statement(p),
                Err(e) => {
                    ctx.fail(format!("harness: prepare failed: {}", e));
                    ENV.with(|c| *c.borrow_mut() = Some(env));
                    return "HARNESS-ERROR".to_owned();
                }
            }
        } else {
            batch.append_statement(Statement::new(t.clone()));
        }
    }
    let mark = env.cluster.mark("c17-sbatch");
    let res = match (carrier, rows.len()) {
        ("vec", _) => env.session.batch(&batch, &rows).await,
        ("tuple", 1) => env.session.batch(&batch, (&rows[0],)).await,
        ("tuple", 2) => env.session.batch(&batch, (&rows[0], &rows[1])).await,
        ("tuple", 3) => env.session.batch(&batch, (&rows[0], &rows[1], &rows[2])).await,
        _ => {
            ENV.with(|c| *c.borrow_mut() = Some(env));
            return "bad-case carrier".to_owned();
        }
    };
    let frames: Vec<Req> = env.cluster.frames().into_iter().filter(|r| r.seq > mark).collect();
    let batches: Vec<&Req> = frames.iter().filter(|r| matches!(r.parsed, Parsed::Batch { .. })).collect();
    let prepares = frames.iter().filter(|r| matches!(r.parsed, Parsed::Prepare { .. })).count();
    // independent expectation: every value list against ITS OWN statement (an unprepared statement without values has none)
    let ctx_of = |i: usize| -> Vec<(String, Ty)> { if !stmts[i].0 && rows.get(i).is_none_or(|r| r.is_empty()) { vec![] } else { stmts[i].1.clone() } };
    let row_ok = |i: usize| { let c = ctx_of(i); rows[i].len() == c.len() && rows[i].iter().zip(&c).all(|(v, (_, t))| dyn_fits(v, t)) };
    let expected_ok = rows.len() == stmts.len() && (0..rows.len()).all(row_ok);
    let n_to_prepare = (0..stmts.len()).filter(|i| !stmts[*i].0 && rows.get(*i).is_some_and(|r| !r.is_empty())).count();
    let out = match &res {
        Err(e) => {
            let s = exec_err(e);
            if expected_ok {
                ctx.fail(format!("session-batch: every value list fits its own statement but Session::batch failed: {}", s));
            }
            if !batches.is_empty() {
                ctx.fail(format!("session-batch: the call failed ({}) but {} BATCH frame(s) reached the node", s, batches.len()));
            }
            if prepares > n_to_prepare {
                ctx.fail(format!("session-batch: a bind error was retried: {} PREPARE frames for {} unprepared statements with values", prepares, n_to_prepare));
            }
            s
        }
        Ok(_) => {
            if !expected_ok {
                let bad = (0..rows.len().min(stmts.len())).find(|i| !row_ok(*i));
                ctx.fail(format!(
                    "session-batch: a batch whose value list {:?} does not fit its OWN statement's bind markers was accepted and sent{}",
                    bad,
                    batches.first().map(|b| format!(": {:?}", b.parsed).chars().take(300).collect::<String>()).unwrap_or_default()
                ));
            }
            if batches.len() != 1 {
                ctx.fail(format!("session-batch: {} BATCH frames for one successful call", batches.len()));
            }
            let mut line = format!("ok {}", stmts.len());
            if let Some(Parsed::Batch { statements, .. }) = batches.first().map(|b| &b.parsed) {
                if statements.len() != stmts.len() {
                    ctx.fail(format!("session-batch: the frame carries {} statements, the batch has {}", statements.len(), stmts.len()));
                }
                for (i, st) in statements.iter().enumerate().take(stmts.len()) {
                    let cells = match st {
                        BatchStmt::Query(text, cells) => {
                            if *text != texts[i] || !ctx_of(i).is_empty() {
                                ctx.fail(format!("session-batch: statement {} went out unprepared", i));
                            }
                            cells
                        }
                        BatchStmt::Prepared(id, cells) => {
                            if *id != md5ish(&texts[i]) {
                                ctx.fail(format!("session-batch: statement {} of the frame is not the batch's statement {}", i, i));
                            }
                            cells
                        }
                    };
                    if let Some(row) = rows.get(i) {
                        if let Some(want) = want_cells(row, &ctx_of(i)) {
                            if row.len() == ctx_of(i).len() && *cells != want {
                                ctx.fail(format!("wire-bytes: statement {} carries {:?} but its own value list encodes to {:?}", i, cells, want));
                            }
                        }
                    }
                    line.push(' ');
                    line.push_str(&cells_line(cells));
                }
            }
            line
        }
    };
    ENV.with(|c| *c.borrow_mut() = Some(env));
    out
}

async fn run_squery(case: &str, ctx: &mut Ctx) -> String {
    let segs: Vec<&str> = case.split(" | ").map(|s| s.trim()).collect();
    if segs.len() != 3 {
        return "bad-case".to_owned();
    }
    let (Some(cols), Some(vals)) = (parse_cols(segs[1]), parse_vals(segs[2])) else { return "bad-case".to_owned() };
    if cols.iter().any(|(_, t)| cqlt(t).is_none()) {
        return "bad-case column-type".to_owned();
    }
    let Some(env) = env(ctx).await else { return "HARNESS-ERROR".to_owned() };
    let case_no = CASE_NO.with(|c| { c.set(c.get() + 1); c.get() });
    let text = format!("INSERT INTO ks.q{} VALUES ({})", case_no, vec!["?"; cols.len()].join(", "));
    {
        let mut m = env.cols.lock().unwrap();
        m.clear();
        m.insert(text.clone(), cols.clone());
    }
    let mark = env.cluster.mark("c17-squery");
    let res = env.session.query_unpaged(Statement::new(text.clone()), &vals).await;
    let frames: Vec<Req> = env.cluster.frames().into_iter().filter(|r| r.seq > mark).collect();
    let executes: Vec<&Req> = frames.iter().filter(|r| matches!(r.parsed, Parsed::Execute { .. })).collect();
    let queries = frames.iter().filter(|r| matches!(&r.parsed, Parsed::Query { text: t, .. } if *t == text)).count();
    let prepares = frames.iter().filter(|r| matches!(r.parsed, Parsed::Prepare { .. })).count();
    let expected_ok = vals.is_empty() || (vals.len() == cols.len() && vals.iter().zip(&cols).all(|(v, (_, t))| dyn_fits(v, t)));
    let out = match &res {
        Err(e) => {
            let s = exec_err(e);
            if expected_ok {
                ctx.fail(format!("session-query: the values fit the statement's bind markers but query_unpaged failed: {}", s));
            }
            if !executes.is_empty() || queries > 0 {
                ctx.fail(format!("session-query: the call failed ({}) but the statement reached the node", s));
            }
            if prepares > 1 {
                ctx.fail(format!("session-query: a bind error was retried ({} PREPARE round trips)", prepares));
            }
            s
        }
        Ok(_) => {
            if !expected_ok {
                ctx.fail("session-query: values that do not fit the statement's bind markers were accepted and sent".to_owned());
            }
            if vals.is_empty() {
                if queries != 1 || !executes.is_empty() {
                    ctx.fail("session-query: a statement without values must go out as one QUERY".to_owned());
                }
                "ok-unprepared".to_owned()
            } else {
                let mut line = "ok".to_owned();
                if executes.len() != 1 {
                    ctx.fail(format!("session-query: {} EXECUTE frames for one successful call", executes.len()));
                }
                if let Some(Parsed::Execute { id, params, .. }) = executes.first().map(|r| &r.parsed) {
                    if *id != md5ish(&text) {
                        ctx.fail("session-query: the EXECUTE names another statement".to_owned());
                    }
                    if let Some(want) = want_cells(&vals, &cols) {
                        if params.values != want {
                            ctx.fail(format!("wire-bytes: EXECUTE carries {:?} but the values encode to {:?}", params.values, want));
                        }
                    }
                    line = format!("ok {}", cells_line(&params.values));
                }
                line
            }
        }
    };
    ENV.with(|c| *c.borrow_mut() = Some(env));
    let _ = to_column_type;
    out
}

pub fn run(case: &str, ctx: &mut Ctx) -> String {
    let kind = case.split_whitespace().next().unwrap_or("");
    RT.with(|rt| rt.block_on(async { if kind == "sbatch" { run_sbatch(case, ctx).await } else { run_squery(case, ctx).await } }))
}

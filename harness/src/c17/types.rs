//! Column types of C17: parser of the notation, the universe of nesting <= 2, single-point mutations.
use crate::c01::{Ty, NATIVES};
use crate::rng::Rng;
use crate::util::unhex;
use scylla_cql_core::frame::response::result::NativeType;

pub fn parse_ty(toks: &[&str], pos: &mut usize) -> Option<Ty> {
    let tok = *toks.get(*pos)?;
    *pos += 1;
    let num = |pos: &mut usize| -> Option<usize> {
        let n = toks.get(*pos)?.parse().ok();
        *pos += 1;
        n
    };
    let string = |pos: &mut usize| -> Option<String> {
        let s = String::from_utf8(unhex(toks.get(*pos)?)?).ok();
        *pos += 1;
        s
    };
    Some(match tok {
        "list" => Ty::List(Box::new(parse_ty(toks, pos)?)),
        "set" => Ty::Set(Box::new(parse_ty(toks, pos)?)),
        "map" => {
            let k = parse_ty(toks, pos)?;
            Ty::Map(Box::new(k), Box::new(parse_ty(toks, pos)?))
        }
        "tuple" => {
            let n = num(pos)?;
            let mut ts = Vec::new();
            for _ in 0..n {
                ts.push(parse_ty(toks, pos)?)
            }
            Ty::Tuple(ts)
        }
        "udt" => {
            let ks = string(pos)?;
            let name = string(pos)?;
            let n = num(pos)?;
            let mut fs = Vec::new();
            for _ in 0..n {
                let f = string(pos)?;
                fs.push((f, parse_ty(toks, pos)?))
            }
            Ty::Udt(ks, name, fs)
        }
        "vector" => {
            let d = num(pos)?;
            if d > 65535 {
                return None;
            }
            Ty::Vector(Box::new(parse_ty(toks, pos)?), d as u16)
        }
        other => Ty::Native(NATIVES.iter().find(|(_, s)| *s == other)?.0.clone()),
    })
}

pub fn parse_ty_str(s: &str) -> Option<Ty> {
    let toks: Vec<&str> = s.split_whitespace().collect();
    let mut pos = 0;
    let t = parse_ty(&toks, &mut pos)?;
    if pos == toks.len() { Some(t) } else { None }
}

pub fn natives() -> Vec<Ty> {
    NATIVES.iter().map(|(n, _)| Ty::Native(n.clone())).collect()
}

fn udt1(t: Ty) -> Ty {
    Ty::Udt("ks".into(), "typ".into(), vec![("a".into(), t)])
}

/// every way of putting ONE constructor around `inner` types (maps / 2-tuples pair `a` with `b`)
fn wrap_all(a: &Ty, b: &Ty, out: &mut Vec<Ty>) {
    out.push(Ty::List(Box::new(a.clone())));
    out.push(Ty::Set(Box::new(a.clone())));
    out.push(Ty::Vector(Box::new(a.clone()), 2));
    out.push(Ty::Tuple(vec![a.clone()]));
    out.push(udt1(a.clone()));
    out.push(Ty::Map(Box::new(a.clone()), Box::new(b.clone())));
    out.push(Ty::Tuple(vec![a.clone(), b.clone()]));
}

/// all types with exactly one level of nesting (maps and 2-tuples over all native pairs, vectors of dimension 2;
/// plus a few other dimensions / arities): ~ 1000 types
pub fn depth1() -> Vec<Ty> {
    let ns = natives();
    let mut out = Vec::new();
    for a in &ns {
        out.push(Ty::List(Box::new(a.clone())));
        out.push(Ty::Set(Box::new(a.clone())));
        for d in [0u16, 1, 2, 3] {
            out.push(Ty::Vector(Box::new(a.clone()), d));
        }
        out.push(Ty::Tuple(vec![a.clone()]));
        out.push(udt1(a.clone()));
        for b in &ns {
            out.push(Ty::Map(Box::new(a.clone()), Box::new(b.clone())));
            out.push(Ty::Tuple(vec![a.clone(), b.clone()]));
        }
    }
    out.push(Ty::Tuple(vec![]));
    out.push(Ty::Udt("ks".into(), "typ".into(), vec![]));
    out
}

/// The universe of nesting exactly 2 is ~ 10^6 with all map / tuple pairs; `depth2_slice` enumerates the
/// part where maps and 2-tuples pair an inner type with itself or with `int` / `text` (~ 10^4 types) and
/// returns every `step`-th type starting at `offset`.
pub fn depth2_slice(offset: usize, step: usize) -> Vec<Ty> {
    let d1 = depth1();
    let int = Ty::Native(NativeType::Int);
    let text = Ty::Native(NativeType::Text);
    let mut out = Vec::new();
    let mut i = 0usize;
    for a in &d1 {
        let mut ws = Vec::new();
        wrap_all(a, a, &mut ws);
        ws.push(Ty::Map(Box::new(int.clone()), Box::new(a.clone())));
        ws.push(Ty::Map(Box::new(text.clone()), Box::new(a.clone())));
        ws.push(Ty::Map(Box::new(a.clone()), Box::new(int.clone())));
        ws.push(Ty::Tuple(vec![int.clone(), a.clone()]));
        ws.push(Ty::Tuple(vec![a.clone(), text.clone()]));
        ws.push(Ty::Tuple(vec![int.clone(), int.clone(), a.clone()]));
        for w in ws {
            if i % step == offset % step {
                out.push(w);
            }
            i += 1;
        }
    }
    out
}

pub fn random_ty(rng: &mut Rng, depth: u32) -> Ty {
    let ns = natives();
    if depth == 0 || rng.chance(1, 4) {
        return rng.pick(&ns).clone();
    }
    let sub = |rng: &mut Rng| Box::new(random_ty(rng, depth - 1));
    match rng.below(8) {
        0 => Ty::List(sub(rng)),
        1 => Ty::Set(sub(rng)),
        2 => Ty::Map(sub(rng), sub(rng)),
        3 => Ty::Vector(sub(rng), *rng.pick(&[0u16, 1, 2, 2, 2, 3])),
        4 => udt1(*sub(rng)),
        5 => Ty::Udt("ks".into(), "typ".into(), vec![("a".into(), *sub(rng)), ("b".into(), *sub(rng))]),
        _ => {
            let n = rng.below(4) as usize;
            Ty::Tuple((0..n).map(|_| *sub(rng)).collect())
        }
    }
}

/// All single-point mutations of `t`: a native replaced by every other native, a container kind replaced by
/// every other kind, tuple arity +-1, vector dimension changed, map key / value swapped, UDT field renamed /
/// added / dropped — at every position.
pub fn mutations(t: &Ty) -> Vec<Ty> {
    let mut out = Vec::new();
    let int = Ty::Native(NativeType::Int);
    // at the root
    match t {
        Ty::Native(n) => {
            for (m, _) in NATIVES.iter() {
                if m != n {
                    out.push(Ty::Native(m.clone()));
                }
            }
            wrap_all(t, t, &mut out);
        }
        Ty::List(e) | Ty::Set(e) | Ty::Vector(e, _) => {
            out.push(Ty::List(e.clone()));
            out.push(Ty::Set(e.clone()));
            for d in [0u16, 1, 2, 3, 65535] {
                out.push(Ty::Vector(e.clone(), d));
            }
            out.push(Ty::Tuple(vec![(**e).clone()]));
            out.push(Ty::Map(e.clone(), e.clone()));
            out.push(udt1((**e).clone()));
            out.push((**e).clone());
        }
        Ty::Map(k, v) => {
            out.push(Ty::Map(v.clone(), k.clone()));
            out.push(Ty::Tuple(vec![(**k).clone(), (**v).clone()]));
            out.push(Ty::List(k.clone()));
            out.push(Ty::Set(v.clone()));
            out.push(Ty::List(Box::new(Ty::Tuple(vec![(**k).clone(), (**v).clone()]))));
        }
        Ty::Tuple(ts) => {
            let mut more = ts.clone();
            more.push(int.clone());
            out.push(Ty::Tuple(more));
            if !ts.is_empty() {
                out.push(Ty::Tuple(ts[..ts.len() - 1].to_vec()));
                out.push(Ty::Tuple(ts[1..].to_vec()));
                let mut rev = ts.clone();
                rev.reverse();
                out.push(Ty::Tuple(rev));
                out.push(Ty::List(Box::new(ts[0].clone())));
                out.push(Ty::Udt("ks".into(), "typ".into(), ts.iter().enumerate().map(|(i, t)| (format!("f{}", i), t.clone())).collect()));
            }
        }
        Ty::Udt(ks, name, fs) => {
            out.push(Ty::Udt("other".into(), name.clone(), fs.clone()));
            out.push(Ty::Udt(ks.clone(), "other".into(), fs.clone()));
            let mut more = fs.clone();
            more.push(("extra".into(), int.clone()));
            out.push(Ty::Udt(ks.clone(), name.clone(), more));
            if !fs.is_empty() {
                out.push(Ty::Udt(ks.clone(), name.clone(), fs[1..].to_vec()));
                out.push(Ty::Udt(ks.clone(), name.clone(), fs[..fs.len() - 1].to_vec()));
                let mut rev = fs.clone();
                rev.reverse();
                out.push(Ty::Udt(ks.clone(), name.clone(), rev));
                let mut ren = fs.clone();
                ren[0].0 = "renamed".into();
                out.push(Ty::Udt(ks.clone(), name.clone(), ren));
                out.push(Ty::Tuple(fs.iter().map(|(_, t)| t.clone()).collect()));
            }
        }
    }
    // below the root
    match t {
        Ty::Native(_) => {}
        Ty::List(e) => out.extend(mutations(e).into_iter().map(|m| Ty::List(Box::new(m)))),
        Ty::Set(e) => out.extend(mutations(e).into_iter().map(|m| Ty::Set(Box::new(m)))),
        Ty::Vector(e, d) => out.extend(mutations(e).into_iter().map(|m| Ty::Vector(Box::new(m), *d))),
        Ty::Map(k, v) => {
            out.extend(mutations(k).into_iter().map(|m| Ty::Map(Box::new(m), v.clone())));
            out.extend(mutations(v).into_iter().map(|m| Ty::Map(k.clone(), Box::new(m))));
        }
        Ty::Tuple(ts) => {
            for i in 0..ts.len() {
                for m in mutations(&ts[i]) {
                    let mut c = ts.clone();
                    c[i] = m;
                    out.push(Ty::Tuple(c));
                }
            }
        }
        Ty::Udt(ks, name, fs) => {
            for i in 0..fs.len() {
                for m in mutations(&fs[i].1) {
                    let mut c = fs.clone();
                    c[i].1 = m;
                    out.push(Ty::Udt(ks.clone(), name.clone(), c));
                }
            }
        }
    }
    out.retain(|m| m != t);
    out
}

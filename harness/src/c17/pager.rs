//! `pager` cases of C17: the pager's typed stream (`Connection::execute_iter` -> `QueryPager` ->
//! `rows_stream::<T>()` -> `TypedRowStream`, scylla/src/client/pager.rs) against a scripted server whose pages
//! carry DIFFERENT result metadata: every row handed to the caller must come from a page whose own columns the
//! target type fits; a page that does not fit must give a type-check error before any of its rows.
//!
//! Case: `pager <target> <ext 0|1> <skip 0|1> <stop|all> | <prepared cols> | <page> | <page> | ...`
//!   consumer `stop`: stops at the first error item; `all`: keeps polling THROUGH error items to the end of the stream
//!   cols ::= n (<name> <type>)…      page ::= <rows> nometa | <rows> <newid 0|1> cols
//! Output: `ctor:TypeCheck` | stop: `rows=<delivered> fin=end|TypeCheck|err:<label>` | all: `seq=<run lengths: r2e3r1> fin=end|err:<label>`
use crate::mocknode::*;
use crate::Ctx;
use futures::StreamExt;
use scylla::client::session::Session;
use scylla::client::session_builder::SessionBuilder;
use scylla::errors::{NextPageError, NextRowError, PagerExecutionError};
use scylla::statement::unprepared::Statement;
use scylla::value::{CqlValue, Row};
use scylla::verif_hooks::connection::{VerifConn, VerifConnOptions};
use scylla::DeserializeRow;
use scylla_cql_core::serialize::row::SerializedValues;
use std::cell::RefCell;
use std::sync::atomic::{AtomicUsize, Ordering};
use std::sync::{Arc, Mutex};

#[derive(Clone, Debug, PartialEq)]
pub struct PCol {
    pub name: String,
    pub ty: &'static str,
}

pub const PTYPES: [(&str, u16); 5] = [("int", 0x0009), ("bigint", 0x0002), ("double", 0x0007), ("text", 0x000D), ("boolean", 0x0004)];

#[derive(Clone, Debug)]
pub struct PPage {
    pub rows: usize,
    /// None = NO_METADATA (the columns are the prepared statement's)
    pub cols: Option<Vec<PCol>>,
    pub new_id: bool,
    /// the page's bytes end inside this row (rows `cut..` are unreadable); None = intact
    pub cut: Option<usize>,
}

pub struct PCase {
    pub target: String,
    pub ext: bool,
    pub skip: bool,
    /// keep polling after error items
    pub poll_all: bool,
    pub prepared: Vec<PCol>,
    pub pages: Vec<PPage>,
}

pub fn parse_cols(toks: &[&str]) -> Option<Vec<PCol>> {
    let n: usize = toks.first()?.parse().ok()?;
    if toks.len() != 1 + 2 * n {
        return None;
    }
    (0..n)
        .map(|i| {
            let ty = PTYPES.iter().find(|(t, _)| *t == toks[2 + 2 * i])?.0;
            Some(PCol { name: toks[1 + 2 * i].to_owned(), ty })
        })
        .collect()
}

pub fn cols_str(cs: &[PCol]) -> String {
    format!("{}{}", cs.len(), cs.iter().map(|c| format!(" {} {}", c.name, c.ty)).collect::<String>())
}

pub fn parse_case(line: &str) -> Option<PCase> {
    let segs: Vec<&str> = line.split(" | ").map(|s| s.trim()).collect();
    let hd: Vec<&str> = segs.first()?.split_whitespace().collect();
    if hd.len() != 5 || hd[0] != "pager" || segs.len() < 3 || !(hd[4] == "stop" || hd[4] == "all") {
        return None;
    }
    let prepared = parse_cols(&segs[1].split_whitespace().collect::<Vec<_>>())?;
    let mut pages = Vec::new();
    for s in &segs[2..] {
        let mut t: Vec<&str> = s.split_whitespace().collect();
        let mut cut = None;
        if t.len() >= 2 && t[t.len() - 2] == "cut" {
            cut = Some(t[t.len() - 1].parse::<usize>().ok()?);
            t.truncate(t.len() - 2);
        }
        let rows: usize = t.first()?.parse().ok()?;
        if t.get(1) == Some(&"nometa") && t.len() == 2 {
            pages.push(PPage { rows, cols: None, new_id: false, cut });
        } else {
            let new_id = match *t.get(1)? {
                "0" => false,
                "1" => true,
                _ => return None,
            };
            pages.push(PPage { rows, cols: Some(parse_cols(&t[2..])?), new_id, cut });
        }
    }
    Some(PCase { target: hd[1].to_owned(), ext: hd[2] == "1", skip: hd[3] == "1", poll_all: hd[4] == "all", prepared, pages })
}

/// the value the server puts into column `i` of global row `g`
pub fn cell(ty: &str, g: usize, i: usize) -> Vec<u8> {
    let v = (g * 10 + i) as i64;
    match ty {
        "int" => (v as i32).to_be_bytes().to_vec(),
        "bigint" => v.to_be_bytes().to_vec(),
        "double" => (v as f64 + 0.5).to_be_bytes().to_vec(),
        "text" => format!("t{}", v).into_bytes(),
        _ => vec![(g % 2) as u8],
    }
}

pub fn expected_value(ty: &str, g: usize, i: usize) -> CqlValue {
    let v = (g * 10 + i) as i64;
    match ty {
        "int" => CqlValue::Int(v as i32),
        "bigint" => CqlValue::BigInt(v),
        "double" => CqlValue::Double(v as f64 + 0.5),
        "text" => CqlValue::Text(format!("t{}", v)),
        _ => CqlValue::Boolean(g % 2 == 1),
    }
}

/// The columns the rows of page `k` are laid out in: its own metadata, or for a NO_METADATA page the statement's
/// current result metadata = the prepared one, replaced by the metadata of the latest earlier page that
/// announced a new metadata id (only with the extension).
pub fn effective_cols(prepared: &[PCol], pages: &[PPage], k: usize, ext: bool) -> Vec<PCol> {
    if let Some(c) = &pages[k].cols {
        return c.clone();
    }
    if ext {
        for p in pages[..k].iter().rev() {
            if p.new_id {
                if let Some(c) = &p.cols {
                    return c.clone();
                }
            }
        }
    }
    prepared.to_vec()
}

#[derive(Default)]
struct Script {
    prepared: Vec<PCol>,
    pages: Vec<PPage>,
    pos: usize,
    next_row: usize,
    statement_id: Vec<u8>,
}

fn to_cols(cs: &[PCol]) -> Vec<Col> {
    cs.iter().map(|c| Col { name: c.name.clone(), type_id: PTYPES.iter().find(|(t, _)| *t == c.ty).unwrap().1 }).collect()
}

// --- the two control-connection queries of a Session (system.peers: no rows; system.local: this node) ---
const T_UUID: &[u8] = &[0x00, 0x0C];
const T_INET: &[u8] = &[0x00, 0x10];
const T_TEXT: &[u8] = &[0x00, 0x0D];
const T_SET_TEXT: &[u8] = &[0x00, 0x22, 0x00, 0x0D];

fn node_cols(local: bool) -> Vec<(&'static str, &'static [u8])> {
    let mut v = vec![("host_id", T_UUID), ("rpc_address", T_INET), ("data_center", T_TEXT), ("rack", T_TEXT), ("tokens", T_SET_TEXT)];
    if local {
        v.push(("cluster_name", T_TEXT));
    }
    v
}

fn write_meta_raw(b: &mut Vec<u8>, cols: &[(&str, &[u8])], table: &str, no_metadata: bool) {
    w_int(b, if no_metadata { 0x0004 } else { 0x0001 });
    w_int(b, cols.len() as i32);
    if !no_metadata {
        w_string(b, "system");
        w_string(b, table);
        for (name, ty) in cols {
            w_string(b, name);
            b.extend_from_slice(ty);
        }
    }
}

fn body_prepared_raw(id: &[u8], cols: &[(&str, &[u8])], table: &str) -> Vec<u8> {
    let mut b = Vec::new();
    w_int(&mut b, 4);
    w_short_bytes(&mut b, id);
    w_int(&mut b, 0x0001);
    w_int(&mut b, 0);
    w_int(&mut b, 0);
    w_string(&mut b, "system");
    w_string(&mut b, table);
    write_meta_raw(&mut b, cols, table, false);
    b
}

fn body_node_rows(local: bool, no_metadata: bool) -> Vec<u8> {
    let mut b = Vec::new();
    w_int(&mut b, 2);
    write_meta_raw(&mut b, &node_cols(local), if local { "local" } else { "peers" }, no_metadata);
    if !local {
        w_int(&mut b, 0);
        return b;
    }
    w_int(&mut b, 1);
    w_bytes(&mut b, Some(&[0x11; 16]));
    w_bytes(&mut b, Some(&[127, 0, 0, 1]));
    w_bytes(&mut b, Some(b"dc1"));
    w_bytes(&mut b, Some(b"r1"));
    let mut set = Vec::new();
    w_int(&mut set, 1);
    w_bytes(&mut set, Some(b"0"));
    w_bytes(&mut b, Some(&set));
    w_bytes(&mut b, Some(b"mock"));
    b
}

fn handler(script: Arc<Mutex<Script>>, min_conn: Arc<AtomicUsize>, ext: bool) -> Handler {
    let mut control: Vec<(Vec<u8>, bool)> = Vec::new();
    Box::new(move |req: &Request| match &req.parsed {
        Parsed::Prepare { text } if text.contains("system.peers") || text.contains("system.local") => {
            let local = text.contains("system.local");
            let id = md5ish(text);
            if !control.iter().any(|(i, _)| *i == id) {
                control.push((id.clone(), local));
            }
            vec![Action::Respond(RESP_RESULT, body_prepared_raw(&id, &node_cols(local), if local { "local" } else { "peers" }))]
        }
        Parsed::Execute { id, params, .. } if control.iter().any(|(i, _)| i == id) => {
            let local = control.iter().find(|(i, _)| i == id).unwrap().1;
            vec![Action::Respond(RESP_RESULT, body_node_rows(local, params.skip_metadata))]
        }
        Parsed::Execute { .. } | Parsed::Prepare { .. } if req.conn < min_conn.load(Ordering::SeqCst) => {
            vec![Action::Respond(RESP_ERROR, body_error(0x1001, "stale connection", &[]))]
        }
        Parsed::Prepare { text } => {
            let s = script.lock().unwrap();
            let rm = ResultMeta { cols: Some(to_cols(&s.prepared)), col_count: s.prepared.len() as i32, ..Default::default() };
            let rid = [0xAAu8; 16];
            vec![Action::Respond(RESP_RESULT, body_prepared(&md5ish(text), if ext { Some(&rid) } else { None }, &[], &[], &rm))]
        }
        Parsed::Execute { id, .. } => {
            let mut s = script.lock().unwrap();
            if *id != s.statement_id {
                return vec![Action::Respond(RESP_ERROR, body_error(0x1001, "statement of another case", &[]))];
            }
            let pos = s.pos;
            let (page, last) = match s.pages.get(pos) {
                Some(p) => (p.clone(), pos + 1 >= s.pages.len()),
                None => (PPage { rows: 0, cols: None, new_id: false, cut: None }, true),
            };
            let eff: Vec<PCol> = if pos < s.pages.len() { effective_cols(&s.prepared, &s.pages, pos, ext) } else { s.prepared.clone() };
            let first = s.next_row;
            let rows: Vec<Vec<Option<Vec<u8>>>> =
                (first..first + page.rows).map(|g| eff.iter().enumerate().map(|(i, c)| Some(cell(c.ty, g, i))).collect()).collect();
            s.next_row += page.rows;
            s.pos += 1;
            let rm = ResultMeta {
                cols: page.cols.as_ref().map(|c| to_cols(c)),
                col_count: eff.len() as i32,
                paging_state: if last { None } else { Some(vec![pos as u8 + 1]) },
                new_metadata_id: if page.new_id && page.cols.is_some() { Some(vec![pos as u8 + 1; 16]) } else { None },
            };
            let mut body = body_rows(&rm, &rows);
            if let Some(cut) = page.cut {
                if cut < rows.len() {
                    // keep the announced row count, end the bytes two bytes into row `cut`
                    let tail: usize = rows[cut..].iter().map(|r| r.iter().map(|c| 4 + c.as_ref().map(|b| b.len()).unwrap_or(0)).sum::<usize>()).sum();
                    body.truncate(body.len() - tail + 2);
                }
            }
            vec![Action::Respond(RESP_RESULT, body)]
        }
        _ => vec![Action::Respond(RESP_ERROR, body_error(0x2200, "invalid", &[]))],
    })
}

enum Client {
    Conn(VerifConn),
    Sess(Session),
}

struct Env {
    node: MockNode,
    script: Arc<Mutex<Script>>,
    min_conn: Arc<AtomicUsize>,
    conn: Option<Client>,
}

thread_local! {
    static RT: tokio::runtime::Runtime = tokio::runtime::Builder::new_current_thread().enable_all().build().unwrap();
    static ENV0: RefCell<Option<Env>> = const { RefCell::new(None) };
    static ENV1: RefCell<Option<Env>> = const { RefCell::new(None) };
    static SENV: RefCell<Option<Env>> = const { RefCell::new(None) };
    static CASE_NO: std::cell::Cell<u64> = const { std::cell::Cell::new(0) };
}

/// derived row type: fields are matched to columns BY NAME
#[derive(DeserializeRow, Debug, PartialEq)]
pub struct PkV {
    pub pk: i32,
    pub v: i64,
}

/// Does the target row type fit these columns?  (documentation: a Rust tuple pairs with as many columns of the
/// documented types, in order; a derived struct pairs by name with exactly its fields; `Row` takes anything)
pub fn target_fits(target: &str, cols: &[PCol]) -> Option<bool> {
    let tys: Vec<&str> = cols.iter().map(|c| c.ty).collect();
    Some(match target {
        "row" => true,
        "t_i32_i64" => tys == ["int", "bigint"],
        "t_i32_str" => tys == ["int", "text"],
        "t_i32" => tys == ["int"],
        "s_pk_v" => {
            cols.len() == 2
                && cols.iter().any(|c| c.name == "pk" && c.ty == "int")
                && cols.iter().any(|c| c.name == "v" && c.ty == "bigint")
        }
        _ => return None,
    })
}

enum Decoded {
    Vals(Vec<(String, CqlValue)>), // (column name or index, value) as the caller received them
    TypeErr,                        // a type-check error item (only with the poll-to-end consumer)
    RawErr,                         // a row-deserialization error item (an unreadable row)
}

fn label(e: &NextRowError) -> String {
    match e {
        NextRowError::NextPageError(NextPageError::TypeCheckError(_)) => "TypeCheck".to_owned(),
        NextRowError::NextPageError(NextPageError::ResultMetadataParseError(_)) => "err:ResultMetadataParse".to_owned(),
        NextRowError::NextPageError(_) => "err:NextPage".to_owned(),
        NextRowError::RowDeserializationError(_) => "err:RowDeserialization".to_owned(),
        #[allow(unreachable_patterns)]
        _ => "err:Other".to_owned(),
    }
}

macro_rules! drive {
    ($pager:expr, $t:ty, $conv:expr, $poll_all:expr, $max:expr) => {{
        match $pager.rows_stream::<$t>() {
            Err(_) => (Vec::new(), "ctor:TypeCheck".to_owned()),
            Ok(mut stream) => {
                let mut out: Vec<Decoded> = Vec::new();
                let fin;
                loop {
                    if out.len() > $max {
                        fin = "err:runaway".to_owned();
                        break;
                    }
                    match stream.next().await {
                        None => {
                            fin = "end".to_owned();
                            break;
                        }
                        Some(Ok(r)) => out.push(Decoded::Vals($conv(r))),
                        Some(Err(e)) => {
                            let l = label(&e);
                            if $poll_all && l == "TypeCheck" {
                                out.push(Decoded::TypeErr); // keep polling: the stream is not fused by a type-check error
                            } else if $poll_all && l == "err:RowDeserialization" {
                                out.push(Decoded::RawErr);
                            } else {
                                fin = l;
                                break;
                            }
                        }
                    }
                }
                (out, fin)
            }
        }
    }};
}

async fn run_case(case: &PCase, ctx: &mut Ctx) -> String {
    // `S/<target>`: through Session::execute_iter (one-node mock cluster) instead of the single-connection hook
    let session = case.target.starts_with("S/");
    let target = case.target.trim_start_matches("S/").to_owned();
    let put_back = |env: Env| {
        if session {
            SENV.with(|c| *c.borrow_mut() = Some(env))
        } else if case.ext {
            ENV1.with(|c| *c.borrow_mut() = Some(env))
        } else {
            ENV0.with(|c| *c.borrow_mut() = Some(env))
        }
    };
    let mut env = if session {
        SENV.with(|e| e.borrow_mut().take())
    } else if case.ext {
        ENV1.with(|e| e.borrow_mut().take())
    } else {
        ENV0.with(|e| e.borrow_mut().take())
    };
    if env.is_none() {
        let script = Arc::new(Mutex::new(Script::default()));
        let min_conn = Arc::new(AtomicUsize::new(0));
        let node = MockNode::start(case.ext, None, handler(Arc::clone(&script), Arc::clone(&min_conn), case.ext)).await;
        env = Some(Env { node, script, min_conn, conn: None });
    }
    let mut env = env.unwrap();
    {
        let mut s = env.script.lock().unwrap();
        *s = Script { prepared: case.prepared.clone(), pages: case.pages.clone(), ..Default::default() };
    }
    if env.conn.is_none() {
        env.min_conn.store(env.node.conn_shards().len(), Ordering::SeqCst);
        if session {
            match SessionBuilder::new().known_node_addr(env.node.addr).fetch_schema_metadata(false).build().await {
                Ok(s) => env.conn = Some(Client::Sess(s)),
                Err(e) => {
                    ctx.fail(format!("harness: cannot build session: {e}"));
                    return "HARNESS-ERROR".to_owned();
                }
            }
        } else {
            match VerifConn::open(env.node.addr, VerifConnOptions::default()).await {
                Ok(c) => env.conn = Some(Client::Conn(c)),
                Err(e) => {
                    ctx.fail(format!("harness: cannot open connection: {e}"));
                    return "HARNESS-ERROR".to_owned();
                }
            }
        }
    }
    let case_no = CASE_NO.with(|c| {
        c.set(c.get() + 1);
        c.get()
    });
    let text = format!("SELECT x FROM ks.t WHERE c17_case = {}", case_no);
    env.script.lock().unwrap().statement_id = md5ish(&text);
    let mut st = Statement::new(text);
    st.set_page_size(5000);
    let conn = env.conn.as_ref().unwrap();
    let prepared = match conn {
        Client::Conn(c) => c.prepare(&st).await,
        Client::Sess(s) => s.prepare(st).await.map_err(|e| e.to_string()),
    };
    let mut prepared = match prepared {
        Ok(p) => p,
        Err(e) => {
            ctx.fail(format!("harness: cannot prepare: {e}"));
            return "HARNESS-ERROR".to_owned();
        }
    };
    prepared.set_use_cached_result_metadata(case.skip);
    let pager = match conn {
        Client::Conn(c) => c.execute_iter_raw(prepared, SerializedValues::new()).await.map_err(|e| label(&e)),
        Client::Sess(s) => s.execute_iter(prepared, ()).await.map_err(|e| match e {
            PagerExecutionError::NextPageError(n) => label(&NextRowError::NextPageError(n)),
            _ => "err:PagerExecution".to_owned(),
        }),
    };
    let pager = match pager {
        Ok(p) => p,
        Err(l) => {
            put_back(env);
            return format!("ctor:{}", l);
        }
    };
    let idx = |i: usize| i.to_string();
    let poll_all = case.poll_all;
    let max_items: usize = case.pages.iter().map(|p| p.rows).sum::<usize>() + 8;
    let (out, fin): (Vec<Decoded>, String) = match target.as_str() {
        "t_i32_i64" => drive!(pager, (i32, i64), |r: (i32, i64)| vec![(idx(0), CqlValue::Int(r.0)), (idx(1), CqlValue::BigInt(r.1))], poll_all, max_items),
        "t_i32_str" => drive!(pager, (i32, String), |r: (i32, String)| vec![(idx(0), CqlValue::Int(r.0)), (idx(1), CqlValue::Text(r.1))], poll_all, max_items),
        "t_i32" => drive!(pager, (i32,), |r: (i32,)| vec![(idx(0), CqlValue::Int(r.0))], poll_all, max_items),
        "s_pk_v" => drive!(pager, PkV, |r: PkV| vec![("pk".to_owned(), CqlValue::Int(r.pk)), ("v".to_owned(), CqlValue::BigInt(r.v))], poll_all, max_items),
        "row" => drive!(pager, Row, |r: Row| r.columns.into_iter().enumerate().map(|(i, c)| (idx(i), c.unwrap_or(CqlValue::Empty))).collect::<Vec<_>>(), poll_all, max_items),
        _ => {
            put_back(env);
            return "bad-case".to_owned();
        }
    };
    put_back(env);

    // ---- oracle: every delivered row against the columns of the page it came from ----
    let eff = |pi: usize| -> Vec<PCol> { effective_cols(&case.prepared, &case.pages, pi, case.ext) };
    // a row without columns has no bytes: such a page cannot be truncated
    let cut_of = |pi: usize| -> Option<usize> { if eff(pi).is_empty() { None } else { case.pages[pi].cut } };
    let mut page_of: Vec<usize> = Vec::new();
    for (pi, p) in case.pages.iter().enumerate() {
        for _ in 0..p.rows {
            page_of.push(pi);
        }
    }
    let total = page_of.len();
    for (k, item) in out.iter().enumerate() {
        let Some(&pi) = page_of.get(k) else {
            ctx.fail(format!("row {} delivered but the server sent only {} rows", k, total));
            break;
        };
        let cols = eff(pi);
        let vals = match item {
            Decoded::Vals(v) => v,
            Decoded::RawErr => {
                // only a row at / after the cut of its page is unreadable
                let within: usize = k - page_of.iter().position(|&p| p == pi).unwrap();
                if cut_of(pi).is_none_or(|c| within < c) {
                    ctx.fail(format!("row {} of page {} is intact but the stream answered a row-deserialization error", k, pi));
                }
                continue;
            }
            Decoded::TypeErr => {
                // every item stands for one row (a refused row is consumed): the page it belongs to must not fit
                if target_fits(&target, &cols) == Some(true) {
                    ctx.fail(format!("docs: row {} of page {} (columns `{}`) fits {} but was refused with a type-check error", k, pi, cols_str(&cols), target));
                }
                continue;
            }
        };
        {
            let within: usize = k - page_of.iter().position(|&p| p == pi).unwrap();
            if cut_of(pi).is_some_and(|c| within >= c) {
                ctx.fail(format!("row {} of page {} lies behind the end of the page's bytes but was delivered", k, pi));
                continue;
            }
        }
        if target_fits(&target, &cols) != Some(true) {
            ctx.fail(format!(
                "reinterpretation: row {} of page {} (columns `{}`) was decoded as {} = {:?} although the page's own columns do not fit that type",
                k, pi, cols_str(&cols), target, vals
            ));
            continue;
        }
        // fitting page: the values are the ones that were sent
        for (key, got) in vals {
            let ci = key.parse::<usize>().ok().or_else(|| cols.iter().position(|c| c.name == *key));
            match ci {
                Some(ci) if ci < cols.len() => {
                    let want = expected_value(cols[ci].ty, k, ci);
                    if *got != want {
                        ctx.fail(format!("row {} column {}: delivered {:?}, the server sent {:?}", k, key, got, want));
                    }
                }
                _ => ctx.fail(format!("row {}: delivered a column `{}` the page does not have", k, key)),
            }
        }
    }
    let first_cols = if case.pages.is_empty() { case.prepared.clone() } else { eff(0) };
    match fin.as_str() {
        "ctor:TypeCheck" => {
            if target_fits(&target, &first_cols) == Some(true) {
                ctx.fail("docs: rows_stream::<T>() refused a first page whose columns fit T".to_owned());
            }
        }
        "TypeCheck" => match page_of.get(out.len()) {
            Some(&pi) if target_fits(&target, &eff(pi)) == Some(true) => {
                ctx.fail(format!("docs: page {} fits {} but the stream answered a type-check error", pi, target))
            }
            Some(_) => {}
            None => ctx.fail("type-check error after the last row".to_owned()),
        },
        "end" => {
            if out.len() != total {
                ctx.fail(format!("the stream ended after {} of {} rows", out.len(), total));
            }
        }
        "err:RowDeserialization" => match page_of.get(out.len()) {
            Some(&pi) => {
                let within: usize = out.len() - page_of.iter().position(|&p| p == pi).unwrap();
                if cut_of(pi).is_none_or(|c| within < c) {
                    ctx.fail(format!("row-deserialization error on an intact row of page {}", pi));
                }
            }
            None => ctx.fail("row-deserialization error after the last row".to_owned()),
        },
        other => ctx.fail(format!("unexpected end of the typed stream: {}", other)),
    }
    if fin == "ctor:TypeCheck" {
        fin
    } else if case.poll_all {
        let mut rle = String::new();
        let mut i = 0;
        while i < out.len() {
            let tag = |d: &Decoded| match d {
                Decoded::Vals(_) => "r",
                Decoded::TypeErr => "e",
                Decoded::RawErr => "x",
            };
            let mut j = i;
            while j < out.len() && tag(&out[j]) == tag(&out[i]) {
                j += 1;
            }
            rle.push_str(&format!("{}{}", tag(&out[i]), j - i));
            i = j;
        }
        format!("seq={} fin={}", if rle.is_empty() { "-" } else { &rle }, fin)
    } else {
        format!("rows={} fin={}", out.len(), fin)
    }
}

pub fn run(line: &str, ctx: &mut Ctx) -> String {
    let Some(case) = parse_case(line) else { return "bad-case".to_owned() };
    if target_fits(case.target.trim_start_matches("S/"), &[]).is_none() || (case.target.starts_with("S/") && case.ext) {
        return "bad-case".to_owned();
    }
    RT.with(|rt| rt.block_on(run_case(&case, ctx)))
}

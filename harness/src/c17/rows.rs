// ------------------------------------------------------------------------------------------------
// `rows`: the real call site of type_check — a RESULT/Rows body parsed by the driver, then
// `DeserializedMetadataAndRawRows::rows_iter::<T>()` (scylla-cql result.rs:437-450 → TypedRowIterator::new,
// scylla-cql-core deserialize/result.rs:103-111; `QueryRowsResult::rows` is a one-line delegation to it)
// ------------------------------------------------------------------------------------------------

fn native_id(n: &NativeType) -> u16 {
    use NativeType::*;
    match n {
        Ascii => 0x01, BigInt => 0x02, Blob => 0x03, Boolean => 0x04, Counter => 0x05, Decimal => 0x06, Double => 0x07,
        Float => 0x08, Int => 0x09, Timestamp => 0x0B, Uuid => 0x0C, Text => 0x0D, Varint => 0x0E, Timeuuid => 0x0F,
        Inet => 0x10, Date => 0x11, Time => 0x12, SmallInt => 0x13, TinyInt => 0x14, Duration => 0x15,
        _ => 0x00,
    }
}

/// CQL v4 `[option]` encoding of a column type (written from the protocol spec §4.2.5.2); vectors are custom
/// types on the wire and are not used by this case kind.
fn write_type(b: &mut Vec<u8>, t: &Ty) -> bool {
    use crate::mocknode::{w_short, w_string};
    match t {
        Ty::Native(n) => w_short(b, native_id(n)),
        Ty::List(e) => {
            w_short(b, 0x20);
            return write_type(b, e);
        }
        Ty::Set(e) => {
            w_short(b, 0x22);
            return write_type(b, e);
        }
        Ty::Map(k, v) => {
            w_short(b, 0x21);
            return write_type(b, k) && write_type(b, v);
        }
        Ty::Tuple(ts) => {
            w_short(b, 0x31);
            w_short(b, ts.len() as u16);
            return ts.iter().all(|t| write_type(b, t));
        }
        Ty::Udt(ks, name, fs) => {
            w_short(b, 0x30);
            w_string(b, ks);
            w_string(b, name);
            w_short(b, fs.len() as u16);
            return fs.iter().all(|(n, t)| {
                w_string(b, n);
                write_type(b, t)
            });
        }
        Ty::Vector(..) => return false,
    }
    true
}

/// a cell that is a valid value of column type `t`: the representative value of the registered carrier whose
/// natural type is `t` (None = no such carrier: a null cell)
fn cell_for(t: &Ty, v: u32) -> Option<Vec<u8>> {
    let e = all_entries().iter().find(|e| e.add.is_some() && e.deser.is_some() && e.natural == *t)?;
    let mut sv = SerializedValues::new();
    (e.add.unwrap())(v, &to_column_type(t), &mut sv).ok()?;
    let bytes = sv_bytes(&sv);
    split_body(&bytes).flatten().map(|b| b.to_vec())
}

pub fn row_cds(label: &str) -> Option<Vec<CD>> {
    let sc = |s: &'static str| CD::Scalar(s);
    Some(match label {
        "()" => vec![],
        "(i32,)" => vec![sc("i32")],
        "(i32,String)" => vec![sc("i32"), sc("str")],
        "(Option<i32>,Vec<String>,CqlValue)" => vec![CD::Opt(Box::new(sc("i32"))), CD::Vec(Box::new(sc("str"))), CD::Dyn],
        "(i64,BTreeMap<i32,String>,(i32,f32),Option<HashSet<i32>>)" => vec![
            sc("i64"),
            CD::BMap(Box::new(sc("i32")), Box::new(sc("str"))),
            CD::Tuple(vec![sc("i32"), sc("f32")]),
            CD::Opt(Box::new(CD::HSet(Box::new(sc("i32"))))),
        ],
        _ => return None,
    })
}

macro_rules! rows_through {
    ($label:expr, $dm:expr, $($name:literal => $t:ty),+ $(,)?) => {
        match $label {
            $($name => Some(match $dm.rows_iter::<$t>() {
                Err(e) => Err(e),
                Ok(it) => {
                    // decode every row; a panic here means type_check let through something deserialize cannot handle
                    let mut ok = 0usize;
                    let mut errs = 0usize;
                    for r in it {
                        match r {
                            Ok(_) => ok += 1,
                            Err(_) => errs += 1,
                        }
                    }
                    Ok((ok, errs))
                }
            }),)+
            _ => None,
        }
    };
}

fn run_rows(label: &str, tys: &[Ty], nrows: usize, ctx: &mut Ctx) -> String {
    use crate::mocknode::{w_bytes, w_int, w_string};
    use scylla_cql::frame::protocol_features::ProtocolFeatures;
    use scylla_cql::frame::response::result;
    // RESULT/Rows body: kind, metadata (global table spec), rows
    let mut b = Vec::new();
    w_int(&mut b, 2);
    w_int(&mut b, 0x0001);
    w_int(&mut b, tys.len() as i32);
    w_string(&mut b, "ks");
    w_string(&mut b, "t");
    for (i, t) in tys.iter().enumerate() {
        w_string(&mut b, &format!("c{}", i));
        if !write_type(&mut b, t) {
            return "bad-case vector-column".to_owned();
        }
    }
    w_int(&mut b, nrows as i32);
    let mut all_valid = true;
    for r in 0..nrows {
        for t in tys {
            let cell = cell_for(t, if r % 2 == 0 { 0 } else { 3 });
            all_valid &= cell.is_some();
            w_bytes(&mut b, cell.as_deref());
        }
    }
    let parsed = match result::deserialize_with_features(Bytes::from(b), None, &ProtocolFeatures::default()) {
        Ok(result::Result::Rows((raw, _))) => raw,
        _ => return "bad-case body".to_owned(),
    };
    let dm = match parsed.deserialize_metadata() {
        Ok(d) => d,
        Err(_) => return "bad-case metadata".to_owned(),
    };
    if dm.metadata().col_specs().len() != tys.len() || dm.rows_count() != nrows {
        ctx.fail("the driver parsed other column specs / row count than the body carries".to_owned());
    }
    // the specs as the driver parsed them must be the ones that were sent
    for (spec, t) in dm.metadata().col_specs().iter().zip(tys) {
        if *spec.typ() != to_column_type(t) {
            ctx.fail(format!("column spec parsed as {:?}, sent {}", spec.typ(), ty_str(t)));
        }
    }
    let res = std::panic::catch_unwind(std::panic::AssertUnwindSafe(|| {
        rows_through!(label, dm,
            "Row" => Row,
            "ColumnIterator" => ColumnIterator,
            "()" => (),
            "(i32,)" => (i32,),
            "(i32,String)" => (i32, String),
            "(Option<i32>,Vec<String>,CqlValue)" => (Option<i32>, Vec<String>, CqlValue),
            "(i64,BTreeMap<i32,String>,(i32,f32),Option<HashSet<i32>>)" => (i64, BTreeMap<i32, String>, (i32, f32), Option<HashSet<i32>>),
        )
    }));
    let res = match res {
        Err(_) => {
            ctx.fail("reinterpretation: decoding rows panicked after the typed iterator was handed out (type_check did not prevent it)".to_owned());
            return "PANIC".to_owned();
        }
        Ok(None) => return "bad-case".to_owned(),
        Ok(Some(r)) => r,
    };
    // documentation oracle on the row type
    if let Some(cds) = row_cds(label) {
        let verdict = |strict: bool| -> Option<bool> {
            if cds.len() != tys.len() {
                return Some(false);
            }
            let rs: Vec<Option<bool>> = cds.iter().zip(tys).map(|(c, t)| compat(c, t, Side::De, strict)).collect();
            if rs.contains(&Some(false)) { Some(false) } else if rs.contains(&None) { None } else { Some(true) }
        };
        match (&res, verdict(true), verdict(false)) {
            (Err(e), Some(true), _) => ctx.fail(format!("docs: the row type {} fits these columns but rows::<T>() refused: {}", label, tc_err_str(e))),
            (Ok(_), _, Some(false)) => ctx.fail(format!("mismatch-accepted: rows::<{}>() handed out a typed iterator over columns the row type does not fit (rows would be reinterpreted)", label)),
            _ => {}
        }
    }
    match res {
        Err(e) => format!("typecheck-{}", tc_err_str(&e)),
        Ok((ok, errs)) => {
            if ok + errs != nrows {
                ctx.fail(format!("the typed iterator yielded {} items for {} rows", ok + errs, nrows));
            }
            if all_valid && errs > 0 {
                ctx.fail(format!("{} of {} rows of valid cells failed to decode after type_check passed", errs, nrows));
            }
            format!("ok rows={}", nrows)
        }
    }
}

// ------------------------------------------------------------------------------------------------
// `bind`: the 16-bit boundary on every bind path
// ------------------------------------------------------------------------------------------------

/// Independent parser of a value list: `[int len][len bytes]` cells, -1 null, -2 unset.  `None` = malformed.
pub fn parse_cells(mut b: &[u8]) -> Option<usize> {
    let mut n = 0usize;
    while !b.is_empty() {
        if b.len() < 4 {
            return None;
        }
        let len = i32::from_be_bytes(b[..4].try_into().unwrap());
        b = &b[4..];
        if len >= 0 {
            if b.len() < len as usize {
                return None;
            }
            b = &b[len as usize..];
        } else if len < -2 {
            return None;
        }
        n += 1;
    }
    Some(n)
}

fn int_specs(n: usize, name: Option<&str>) -> Vec<ColumnSpec<'static>> {
    (0..n)
        .map(|i| ColumnSpec::owned(name.map(|s| s.to_owned()).unwrap_or_else(|| format!("c{}", i)), ColumnType::Native(NativeType::Int), TableSpec::owned("ks".into(), "t".into())))
        .collect()
}

/// oracle for one finished bind of `bound` values
fn judge_bind(what: &str, bound: usize, res: Result<SerializedValues, SerializationError>, ctx: &mut Ctx) -> String {
    match res {
        Ok(sv) => {
            let bytes = sv_bytes(&sv);
            let cells = parse_cells(&bytes);
            if cells != Some(sv.element_count() as usize) {
                ctx.fail(format!("count: {} of {} values succeeded with element_count() = {} but the buffer holds {:?} cells", what, bound, sv.element_count(), cells));
            }
            if bound > u16::MAX as usize {
                ctx.fail(format!("too-many-values: {} of {} values (> 65535) was accepted", what, bound));
            } else if sv.element_count() as usize != bound {
                ctx.fail(format!("count: {} of {} values reports element_count() = {}", what, bound, sv.element_count()));
            }
            format!("ok count={} cells={} {}", sv.element_count(), cells.map(|c| c.to_string()).unwrap_or("bad".into()), digest(&bytes))
        }
        Err(e) => {
            let s = ser_err_str(&e);
            if bound <= u16::MAX as usize {
                ctx.fail(format!("too-many-values: {} of {} values (<= 65535) was refused: {}", what, bound, s));
            } else if !s.ends_with("TooManyValues") {
                ctx.fail(format!("too-many-values: {} of {} values was refused with {} instead of TooManyValues", what, bound, s));
            }
            format!("err {}", s.rsplit('/').next().unwrap_or("").trim_start_matches("ser ").trim_start_matches("tc "))
        }
    }
}

fn writer_cell(w: &mut RowWriter, i: usize) {
    let cw = w.make_cell_writer();
    match i % 3 {
        0 => {
            cw.set_null();
        }
        1 => {
            cw.set_unset();
        }
        _ => {
            cw.set_value(&[(i % 256) as u8]).unwrap();
        }
    }
}

fn ints_row(n: usize, ctx: &mut Ctx) -> SerializedValues {
    let mut sv = SerializedValues::new();
    let ct = ColumnType::Native(NativeType::Int);
    for i in 0..n {
        let _ = sv.add_value(&(i as i32), &ct);
    }
    if parse_cells(&sv_bytes(&sv)) != Some(sv.element_count() as usize) {
        ctx.fail(format!("count: {} add_value calls give element_count() = {} but {:?} cells", n, sv.element_count(), parse_cells(&sv_bytes(&sv))));
    }
    sv
}

fn run_bind(toks: &[&str], ctx: &mut Ctx) -> String {
    let nums: Option<Vec<usize>> = toks[1..].iter().map(|s| s.parse().ok()).collect();
    let Some(nums) = nums else { return "bad-case".to_owned() };
    match (toks[0], nums.as_slice()) {
        ("slice_i32", [n]) => {
            let vals: Vec<i32> = (0..*n).map(|i| i as i32).collect();
            let specs = int_specs(*n, None);
            let rctx = RowSerializationContext::from_specs(&specs);
            // through Vec<T> and through &[T]
            let a = SerializedValues::from_serializable(&rctx, &vals);
            let b = SerializedValues::from_serializable(&rctx, &vals.as_slice());
            if a.as_ref().ok() != b.as_ref().ok() || a.is_ok() != b.is_ok() {
                ctx.fail("from_serializable(Vec<T>) and from_serializable(&[T]) disagree".to_owned());
            }
            judge_bind("from_serializable(Vec<i32>)", *n, a, ctx)
        }
        ("slice_opt", [n]) => {
            let vals: Vec<Option<i32>> = (0..*n).map(|i| if i % 2 == 0 { None } else { Some(i as i32) }).collect();
            let specs = int_specs(*n, None);
            judge_bind("from_serializable(&[Option<i32>])", *n, SerializedValues::from_serializable(&RowSerializationContext::from_specs(&specs), &vals.as_slice()), ctx)
        }
        ("vec_str", [n]) => {
            let vals: Vec<String> = (0..*n).map(|i| ((b'a' + (i % 26) as u8) as char).to_string()).collect();
            let specs: Vec<ColumnSpec<'static>> =
                (0..*n).map(|i| ColumnSpec::owned(format!("c{}", i), ColumnType::Native(NativeType::Text), TableSpec::owned("ks".into(), "t".into()))).collect();
            judge_bind("from_serializable(Vec<String>)", *n, SerializedValues::from_serializable(&RowSerializationContext::from_specs(&specs), &vals), ctx)
        }
        // by-name carrier: one entry, `n` bind markers with that name
        ("map", [n]) => {
            let mut m: HashMap<&str, i32> = HashMap::new();
            if *n > 0 {
                m.insert("c", 7); // with no bind marker an entry would (rightly) be refused as NoColumnWithName
            }
            let specs = int_specs(*n, Some("c"));
            judge_bind("from_serializable(HashMap<&str, i32>)", *n, SerializedValues::from_serializable(&RowSerializationContext::from_specs(&specs), &m), ctx)
        }
        ("writer", [n]) => {
            let mut seen = 0usize;
            let res = SerializedValues::from_closure(|w| {
                for i in 0..*n {
                    writer_cell(w, i);
                }
                seen = w.value_count();
                Ok(())
            });
            if seen != *n {
                ctx.fail(format!("count: RowWriter::value_count() = {} after {} make_cell_writer calls", seen, n));
            }
            judge_bind("from_closure(make_cell_writer x n)", *n, res.map(|(sv, _)| sv), ctx)
        }
        ("append", parts) if !parts.is_empty() => {
            let rows: Vec<SerializedValues> = parts.iter().map(|n| ints_row(*n, ctx)).collect();
            let before: Vec<SerializedValues> = rows.clone();
            let total: usize = rows.iter().map(|r| r.element_count() as usize).sum();
            let mut seen = 0usize;
            let res = SerializedValues::from_closure(|w| {
                for r in &rows {
                    w.append_serialize_row(r);
                }
                seen = w.value_count();
                Ok(())
            });
            if seen != total {
                ctx.fail(format!("count: RowWriter::value_count() = {} after appending rows of {} values in total", seen, total));
            }
            if rows != before {
                ctx.fail("append_serialize_row changed the appended rows".to_owned());
            }
            judge_bind("from_closure(append_serialize_row ..)", total, res.map(|(sv, _)| sv), ctx)
        }
        ("mixed", [n, k]) => {
            let row = ints_row(*k, ctx);
            let total = n + row.element_count() as usize + 1;
            let mut seen = 0usize;
            let res = SerializedValues::from_closure(|w| {
                for i in 0..*n {
                    writer_cell(w, i);
                }
                w.append_serialize_row(&row);
                w.make_cell_writer().set_null();
                seen = w.value_count();
                Ok(())
            });
            if seen != total {
                ctx.fail(format!("count: RowWriter::value_count() = {} after binding {} values", seen, total));
            }
            judge_bind("from_closure(cells + append_serialize_row + cell)", total, res.map(|(sv, _)| sv), ctx)
        }
        ("add", [n]) => {
            let mut sv = SerializedValues::new();
            let ct = ColumnType::Native(NativeType::Int);
            let mut refused = 0usize;
            for i in 0..*n {
                let before_count = sv.element_count();
                let before_len = sv.buffer_size();
                match sv.add_value(&None::<i32>, &ct) {
                    Ok(()) => {
                        if i >= u16::MAX as usize {
                            ctx.fail(format!("too-many-values: add_value number {} was accepted", i + 1));
                        }
                    }
                    Err(e) => {
                        refused += 1;
                        if i < u16::MAX as usize || !ser_err_str(&e).ends_with("TooManyValues") {
                            ctx.fail(format!("too-many-values: add_value number {} was refused with {}", i + 1, ser_err_str(&e)));
                        }
                        if sv.element_count() != before_count || sv.buffer_size() != before_len {
                            ctx.fail("rollback: a refused add_value changed the SerializedValues".to_owned());
                        }
                    }
                }
            }
            if refused != n.saturating_sub(u16::MAX as usize) {
                ctx.fail(format!("too-many-values: {} of {} add_value calls were refused", refused, n));
            }
            let bytes = sv_bytes(&sv);
            let cells = parse_cells(&bytes);
            if cells != Some(sv.element_count() as usize) {
                ctx.fail(format!("count: element_count() = {} but the buffer holds {:?} cells after {} add_value calls", sv.element_count(), cells, n));
            }
            format!("ok count={} cells={} {}", sv.element_count(), cells.map(|c| c.to_string()).unwrap_or("bad".into()), digest(&bytes))
        }
        _ => "bad-case".to_owned(),
    }
}

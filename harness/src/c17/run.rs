// ------------------------------------------------------------------------------------------------
// error paths (kinds only)
// ------------------------------------------------------------------------------------------------

/// `tc <kind>` when the caller sees a type-check error, `ser <path>/<kind>` when it sees a serialization error
/// (every wrapper around a nested failure is one).
pub fn ser_err_str(e: &SerializationError) -> String {
    fn walk(e: &SerializationError, path: &mut Vec<String>) -> String {
        if let Some(t) = e.downcast_ref::<BuiltinTypeCheckError>() {
            return match &t.kind {
                TK::MismatchedType { .. } => "MismatchedType",
                TK::NotEmptyable => "NotEmptyable",
                TK::SetOrListError(LTK::NotSetOrList) => "NotSetOrList",
                TK::MapError(MTK::NotMap) => "NotMap",
                TK::TupleError(TTK::NotTuple) => "NotTuple",
                TK::TupleError(TTK::WrongElementCount { .. }) => "WrongElementCount",
                TK::UdtError(UTK::NotUdt) => "NotUdt",
                TK::UdtError(UTK::NameMismatch { .. }) => "NameMismatch",
                TK::UdtError(UTK::NoSuchFieldInUdt { .. }) => "NoSuchFieldInUdt",
                _ => "OtherTypeCheck",
            }
            .to_owned();
        }
        if let Some(s) = e.downcast_ref::<BuiltinSerializationError>() {
            let (step, inner): (String, &SerializationError) = match &s.kind {
                SK::SizeOverflow => return "SizeOverflow".to_owned(),
                SK::ValueOverflow => return "ValueOverflow".to_owned(),
                SK::SetOrListError(LSK::TooManyElements) | SK::MapError(MSK::TooManyElements) => return "TooManyElements".to_owned(),
                SK::VectorError(VSK::InvalidNumberOfElements(..)) => return "InvalidNumberOfElements".to_owned(),
                SK::SetOrListError(LSK::ElementSerializationFailed(e)) | SK::VectorError(VSK::ElementSerializationFailed(e)) => ("elem".into(), e),
                SK::MapError(MSK::KeySerializationFailed(e)) => ("key".into(), e),
                SK::MapError(MSK::ValueSerializationFailed(e)) => ("val".into(), e),
                SK::TupleError(TSK::ElementSerializationFailed { index, err }) => (format!("f{}", index), err),
                SK::UdtError(USK::FieldSerializationFailed { field_name, err }) => (format!("u:{}", hex(field_name.as_bytes())), err),
                _ => return "OtherSerialization".to_owned(),
            };
            path.push(step);
            return walk(inner, path);
        }
        // `add_value` wraps its TooManyValues error twice: SerializationError(Arc<SerializationError(Arc<row error>)>)
        if let Some(inner) = e.downcast_ref::<SerializationError>() {
            return walk(inner, path);
        }
        if let Some(r) = e.downcast_ref::<RowSerErr>() {
            return match &r.kind {
                RSK::TooManyValues => "TooManyValues".to_owned(),
                _ => "OtherRow".to_owned(),
            };
        }
        "Other".to_owned()
    }
    let mut path = Vec::new();
    let leaf = walk(e, &mut path);
    let top_tc = e.downcast_ref::<BuiltinTypeCheckError>().is_some();
    path.push(leaf);
    format!("{} {}", if top_tc { "tc" } else { "ser" }, path.join("/"))
}

pub fn tc_err_str(e: &TypeCheckError) -> String {
    fn walk(e: &TypeCheckError, path: &mut Vec<String>) -> String {
        if let Some(r) = e.downcast_ref::<RowTcErr>() {
            return match &r.kind {
                RTK::WrongColumnCount { .. } => "WrongColumnCount".to_owned(),
                RTK::ColumnTypeCheckFailed { column_index, err, .. } => {
                    path.push(format!("c{}", column_index));
                    walk(err, path)
                }
                _ => "OtherRow".to_owned(),
            };
        }
        let Some(t) = e.downcast_ref::<DeTcErr>() else { return "Other".to_owned() };
        let (step, inner): (String, &TypeCheckError) = match &t.kind {
            DTK::MismatchedType { .. } => return "MismatchedType".to_owned(),
            DTK::NotDeserializableToVec => return "NotDeserializableToVec".to_owned(),
            DTK::SetOrListError(DLTK::NotSetOrList) => return "NotSetOrList".to_owned(),
            DTK::SetOrListError(DLTK::NotSet) => return "NotSet".to_owned(),
            DTK::VectorError(DVTK::NotVector) => return "NotVector".to_owned(),
            DTK::MapError(DMTK::NotMap) => return "NotMap".to_owned(),
            DTK::TupleError(DTTK::NotTuple) => return "NotTuple".to_owned(),
            DTK::TupleError(DTTK::WrongElementCount { .. }) => return "WrongElementCount".to_owned(),
            DTK::UdtError(DUTK::NotUdt) => return "NotUdt".to_owned(),
            DTK::SetOrListError(DLTK::ElementTypeCheckFailed(e)) | DTK::VectorError(DVTK::ElementTypeCheckFailed(e)) => ("elem".into(), e),
            DTK::MapError(DMTK::KeyTypeCheckFailed(e)) => ("key".into(), e),
            DTK::MapError(DMTK::ValueTypeCheckFailed(e)) => ("val".into(), e),
            DTK::TupleError(DTTK::FieldTypeCheckFailed { position, err }) => (format!("f{}", position), err),
            _ => return "OtherTypeCheck".to_owned(),
        };
        path.push(step);
        walk(inner, path)
    }
    let mut path = Vec::new();
    let leaf = walk(e, &mut path);
    path.push(leaf);
    format!("err {}", path.join("/"))
}

// ------------------------------------------------------------------------------------------------
// SerializedValues observation + the rollback oracle
// ------------------------------------------------------------------------------------------------

fn sv_bytes(sv: &SerializedValues) -> Vec<u8> {
    let mut buf = Vec::new();
    sv.write_to_request(&mut buf);
    buf.split_off(2)
}

fn digest(bs: &[u8]) -> String {
    if bs.len() <= 2048 {
        hex(bs)
    } else {
        let h = bs.iter().fold(7u64, |a, b| (a * 31 + *b as u64) % 4294967291);
        format!("len={} h={}", bs.len(), h)
    }
}

/// `element_count() == iter().count()` (iter() panics on a badly framed buffer: caught by hx as PANIC)
fn check_count(sv: &SerializedValues, what: &str, ctx: &mut Ctx) -> usize {
    let n = sv.iter().count();
    if parse_cells(&sv_bytes(sv)) != Some(n) {
        ctx.fail(format!("count: iter() yields {} values but the buffer holds {:?} cells {}", n, parse_cells(&sv_bytes(sv)), what));
    }
    if n != sv.element_count() as usize {
        ctx.fail(format!("count: element_count() = {} but iter().count() = {} {}", sv.element_count(), n, what));
    }
    n
}

/// one `add_value` with the before/after oracle; returns the canonical op result
fn add_checked(e: &Entry, v: u32, ty: &Ty, sv: &mut SerializedValues, ctx: &mut Ctx) -> Result<(), SerializationError> {
    let ct = &to_column_type(ty);
    let before = sv.clone();
    let bytes_before = sv_bytes(sv);
    let res = (e.add.expect("serializable carrier"))(v, ct, sv);
    let bytes_after = sv_bytes(sv);
    match &res {
        Err(err) => {
            if *sv != before || bytes_after != bytes_before || sv.element_count() != before.element_count() {
                ctx.fail(format!(
                    "rollback: after a failed add_value ({}) the SerializedValues changed: {} bytes / count {} before, {} bytes / count {} after",
                    ser_err_str(err), bytes_before.len(), before.element_count(), bytes_after.len(), sv.element_count()
                ));
            }
        }
        Ok(()) => {
            if sv.element_count() != before.element_count() + 1 {
                ctx.fail(format!("count: successful add_value moved element_count from {} to {}", before.element_count(), sv.element_count()));
            }
            if !bytes_after.starts_with(&bytes_before) || bytes_after.len() < bytes_before.len() + 4 {
                ctx.fail("rollback: a successful add_value rewrote the values bound before it".to_owned());
            }
        }
    }
    check_count(sv, "after add_value", ctx);
    // the legacy empty value: accepted only by types that can hold it (typed and dynamic carriers alike)
    if res.is_ok() {
        let shape = (e.shape)(v);
        let toks: Vec<&str> = shape.split_whitespace().collect();
        let mut pos = 0;
        if let Some(sh) = parse_shape(&toks, &mut pos) {
            if empty_in_nonemptiable(ty, &sh) {
                ctx.fail(format!("empty-accepted: an Empty value was bound to a column type that cannot hold it ({})", ty_str(ty)));
            }
        }
    }
    // dynamic values: the rejection rules written from the documentation (dynfits.rs), independent of the model
    if let Some(dv) = e.dynval {
        let value = dv(v);
        let fits = dyn_fits(&value, ty);
        // the BYTES of an accepted dynamic value: C01's independent CQL v4 encoder (harness/src/c01.rs spec_cell: e.g. a UDT
        // value is one cell per type field, in type order, null for the fields the value does not name)
        if res.is_ok() && fits {
            let val = crate::c01::from_cql(&value);
            if crate::c01::classify(ty, &val, true) == crate::c01::Dom::In {
                if let Some(want) = crate::c01::spec_cell(ty, &val) {
                    let wrote = &bytes_after[bytes_before.len().min(bytes_after.len())..];
                    if wrote != want.as_slice() {
                        ctx.fail(format!("wire-bytes: the bound CqlValue was written as {} but its CQL v4 encoding is {}", hex(wrote), hex(&want)));
                    }
                }
            }
        }
        match &res {
            Ok(()) if !fits => ctx.fail(format!(
                "dyn-mismatch-accepted: a CqlValue that does not fit the column type was serialized (unknown UDT field / over-long tuple / wrong vector length / element of another type): {:?}",
                value
            )),
            Err(err) if fits => {
                let s = ser_err_str(err);
                if !(s.ends_with("SizeOverflow") || s.ends_with("TooManyElements") || s.ends_with("TooManyValues")) {
                    ctx.fail(format!("dyn-fitting-rejected: a CqlValue that fits the column type was refused: {}", s));
                }
            }
            Err(err) => {
                // a misfit is a type / shape error of the value: never reported as a size problem
                let s = ser_err_str(err);
                if s.ends_with("SizeOverflow") || s.ends_with("TooManyElements") {
                    ctx.fail(format!("dyn-misfit-reported-as-size: {}", s));
                }
            }
            _ => {}
        }
    }
    res
}

fn split_body(cell: &[u8]) -> Option<Option<&[u8]>> {
    if cell.len() < 4 {
        return None;
    }
    let len = i32::from_be_bytes(cell[..4].try_into().unwrap());
    if len < 0 {
        return if cell.len() == 4 { Some(None) } else { None };
    }
    if cell.len() - 4 != len as usize { None } else { Some(Some(&cell[4..])) }
}

/// tree of a value in the model's notation (only what `roundtrip_tag` needs)
enum Sh {
    Leaf,
    Null,
    Empty,
    Seq(Vec<Sh>),
    Map(Vec<(Sh, Sh)>),
}

fn parse_shape(toks: &[&str], pos: &mut usize) -> Option<Sh> {
    let tok = *toks.get(*pos)?;
    *pos += 1;
    Some(match tok {
        "s" => {
            *pos += 2;
            Sh::Leaf
        }
        "none" | "unset" | "muunset" => Sh::Null,
        "meempty" => Sh::Empty,
        "some" | "muset" | "mevalue" => parse_shape(toks, pos)?,
        "vec" | "set" | "tuple" => {
            let n: usize = toks.get(*pos)?.parse().ok()?;
            *pos += 1;
            Sh::Seq((0..n).map(|_| parse_shape(toks, pos)).collect::<Option<Vec<_>>>()?)
        }
        "map" => {
            let n: usize = toks.get(*pos)?.parse().ok()?;
            *pos += 1;
            let mut kvs = Vec::new();
            for _ in 0..n {
                let k = parse_shape(toks, pos)?;
                kvs.push((k, parse_shape(toks, pos)?));
            }
            Sh::Map(kvs)
        }
        _ => return None,
    })
}

/// (a null / unset element sits directly inside a vector, an Empty element sits directly inside a vector)
fn vector_elements(t: &Ty, sh: &Sh, out: &mut (bool, bool)) {
    match (t, sh) {
        (Ty::Vector(e, _), Sh::Seq(items)) => {
            for i in items {
                match i {
                    Sh::Null => out.0 = true,
                    Sh::Empty => out.1 = true,
                    _ => vector_elements(e, i, out),
                }
            }
        }
        (Ty::List(e), Sh::Seq(items)) | (Ty::Set(e), Sh::Seq(items)) => items.iter().for_each(|i| vector_elements(e, i, out)),
        (Ty::Tuple(ts), Sh::Seq(items)) => ts.iter().zip(items).for_each(|(t, i)| vector_elements(t, i, out)),
        (Ty::Map(kt, vt), Sh::Map(kvs)) => kvs.iter().for_each(|(k, v)| {
            vector_elements(kt, k, out);
            vector_elements(vt, v, out)
        }),
        _ => {}
    }
}

/// an `Empty` (`MaybeEmpty::Empty` / `CqlValue::Empty`) sits where the column type cannot hold the legacy empty value
/// (counter, duration, list, set, map, UDT) — at the top or anywhere below
fn empty_in_nonemptiable(t: &Ty, sh: &Sh) -> bool {
    match (t, sh) {
        (_, Sh::Empty) => !supports_empty(t),
        (Ty::Vector(e, _), Sh::Seq(items)) | (Ty::List(e), Sh::Seq(items)) | (Ty::Set(e), Sh::Seq(items)) => items.iter().any(|i| empty_in_nonemptiable(e, i)),
        (Ty::Tuple(ts), Sh::Seq(items)) => ts.iter().zip(items).any(|(t, i)| empty_in_nonemptiable(t, i)),
        (Ty::Map(kt, vt), Sh::Map(kvs)) => kvs.iter().any(|(k, v)| empty_in_nonemptiable(kt, k) || empty_in_nonemptiable(vt, v)),
        _ => false,
    }
}

/// Value-level findings of C01 that a round trip of this shape runs into (same message tags as
/// harness/src/c01.rs): F2 = a null / unset element directly inside a vector, F9 = an Empty element there.
fn roundtrip_tag(ty: &Ty, shape: &str) -> &'static str {
    let toks: Vec<&str> = shape.split_whitespace().collect();
    let mut pos = 0;
    let Some(sh) = parse_shape(&toks, &mut pos) else { return "" };
    let mut found = (false, false);
    vector_elements(ty, &sh, &mut found);
    if found.0 {
        "C01-F2-null-or-unset-vector-element: "
    } else if found.1 {
        "C01-F9-empty-element-in-fixed-width-vector: "
    } else {
        ""
    }
}

// ------------------------------------------------------------------------------------------------
// run
// ------------------------------------------------------------------------------------------------

fn run_ser(e: &Entry, v: u32, ty: &Ty, ctx: &mut Ctx) -> String {
    let ct = to_column_type(ty);
    let mut sv = SerializedValues::new();
    let res = add_checked(e, v, ty, &mut sv, ctx);
    let full = v == 0 || v == 3;
    // documentation oracle (serialization side)
    if full {
        match (compat(&e.cd, ty, Side::Ser, true), compat(&e.cd, ty, Side::Ser, false), &res) {
            (Some(true), _, Err(err)) => {
                // a vector whose dimension differs from the value's length is a value error, not a type error
                let dim_only = ser_err_str(err).ends_with("InvalidNumberOfElements");
                if !dim_only {
                    ctx.fail(format!("docs: {} is documented as compatible with this column type but serialize() refused it: {}", e.label, ser_err_str(err)));
                }
            }
            (_, Some(false), Ok(())) => ctx.fail(format!("mismatch-accepted: serialize() of a fully populated {} succeeded against a column type it does not fit", e.label)),
            _ => {}
        }
    }
    match res {
        Err(err) => format!("err {}", ser_err_str(&err)),
        Ok(()) => {
            let cell = sv_bytes(&sv);
            // round trip through the same Rust type, when it type-checks for reading
            if let (Some(tc), Some(de)) = (e.tc, e.deser) {
                if tc(&ct).is_ok() {
                    match split_body(&cell) {
                        None => ctx.fail("framing: the serialized cell is not one well-framed [bytes] value".to_owned()),
                        Some(body) => {
                            let want = (e.canon)(v);
                            let tag = roundtrip_tag(ty, &want);
                            match de(&ct, body) {
                                Ok(got) if got == want => {}
                                Ok(got) => ctx.fail(format!("{}roundtrip: {} wrote `{}` and read back `{}`", tag, e.label, want, got)),
                                Err(k) => ctx.fail(format!("{}roundtrip: {} cannot read back the value it wrote: {}", tag, e.label, k)),
                            }
                        }
                    }
                }
            }
            format!("ok {}", hex(&cell))
        }
    }
}

fn run_tc(e: &Entry, ty: &Ty, ctx: &mut Ctx) -> String {
    let ct = to_column_type(ty);
    let Some(tc) = e.tc else { return "bad-case no-deserialize-impl".to_owned() };
    let res = tc(&ct);
    match (compat(&e.cd, ty, Side::De, true), compat(&e.cd, ty, Side::De, false), &res) {
        (Some(true), _, Err(err)) => ctx.fail(format!("docs: {} is documented as compatible with this column type but type_check() refused it: {}", e.label, tc_err_str(err))),
        (_, Some(false), Ok(())) => ctx.fail(format!("mismatch-accepted: type_check() of {} succeeded against a column type it does not fit", e.label)),
        _ => {}
    }
    match res {
        Ok(()) => "ok".to_owned(),
        Err(err) => tc_err_str(&err),
    }
}

macro_rules! row_tc {
    ($label:expr, $specs:expr, $($name:literal => $t:ty),+ $(,)?) => {
        match $label {
            $($name => Some(<$t as DeserializeRow>::type_check($specs)),)+
            _ => None,
        }
    };
}

pub const ROW_LABELS: &[(&str, &str)] = &[
    ("Row", "untyped"),
    ("ColumnIterator", "untyped"),
    ("()", "0"),
    ("(i32,)", "1 i32"),
    ("(i32,String)", "2 i32 str"),
    ("(Option<i32>,Vec<String>,CqlValue)", "3 opt i32 vec str dyn"),
    ("(i64,BTreeMap<i32,String>,(i32,f32),Option<HashSet<i32>>)", "4 i64 bmap i32 str tuple 2 i32 f32 opt hset i32"),
];

fn run_tcrow(label: &str, tys: &[Ty]) -> String {
    let cts: Vec<ColumnType<'static>> = tys.iter().map(to_column_type).collect();
    let specs: Vec<ColumnSpec<'static>> =
        cts.iter().enumerate().map(|(i, ct)| ColumnSpec::owned(format!("c{}", i), ct.clone(), TableSpec::owned("ks".into(), "t".into()))).collect();
    let res = row_tc!(label, &specs,
        "Row" => Row,
        "ColumnIterator" => ColumnIterator,
        "()" => (),
        "(i32,)" => (i32,),
        "(i32,String)" => (i32, String),
        "(Option<i32>,Vec<String>,CqlValue)" => (Option<i32>, Vec<String>, CqlValue),
        "(i64,BTreeMap<i32,String>,(i32,f32),Option<HashSet<i32>>)" => (i64, BTreeMap<i32, String>, (i32, f32), Option<HashSet<i32>>),
    );
    match res {
        None => "bad-case".to_owned(),
        Some(Ok(())) => "ok".to_owned(),
        Some(Err(e)) => tc_err_str(&e),
    }
}

fn run_row(body: &str, ctx: &mut Ctx) -> String {
    let mut sv = SerializedValues::new();
    let mut outs = Vec::new();
    for op in body.split(" ; ") {
        let segs: Vec<&str> = op.split(" | ").map(|s| s.trim()).collect();
        let hd: Vec<&str> = segs[0].split_whitespace().collect();
        match (hd.first().copied(), segs.len()) {
            (Some("fill"), 1) => {
                let n: usize = match hd.get(1).and_then(|s| s.parse().ok()) {
                    Some(n) => n,
                    None => return "bad-case".to_owned(),
                };
                let ct = ColumnType::Native(NativeType::Int);
                for _ in 0..n {
                    let _ = sv.add_value(&None::<i32>, &ct);
                }
                check_count(&sv, "after fill", ctx);
                outs.push(format!("filled:{}:{}", sv.element_count(), sv.buffer_size()));
            }
            (Some("add"), 3) => {
                let (Some(label), Some(v)) = (hd.get(1), hd.get(2).and_then(|s| s.parse::<u32>().ok())) else { return "bad-case".to_owned() };
                let (Some(e), Some(ty)) = (entry(label), parse_ty_str(segs[1])) else { return "bad-case".to_owned() };
                if e.add.is_none() {
                    return "bad-case".to_owned();
                }
                match add_checked(e, v, &ty, &mut sv, ctx) {
                    Ok(()) => outs.push(format!("ok:{}:{}", sv.element_count(), sv.buffer_size())),
                    Err(err) => {
                        let s = ser_err_str(&err);
                        if s.ends_with("TooManyValues") {
                            if sv.element_count() != u16::MAX {
                                ctx.fail(format!("too-many-values reported at count {}", sv.element_count()));
                            }
                            outs.push(format!("toomany:{}:{}", sv.element_count(), sv.buffer_size()))
                        } else {
                            outs.push(format!("err({}):{}:{}", s, sv.element_count(), sv.buffer_size()))
                        }
                    }
                }
            }
            _ => return "bad-case".to_owned(),
        }
    }
    let cells = check_count(&sv, "at the end", ctx);
    format!("{} = cells={} {}", outs.join(" "), cells, digest(&sv_bytes(&sv)))
}

/// `big <kind>`: values of 2^31 bytes (lazily mapped zero pages; `set_value` refuses them before copying).
fn run_big(kind: &str, ctx: &mut Ctx) -> String {
    let huge: Vec<u8> = vec![0u8; (i32::MAX as usize) + 1];
    let blob = ColumnType::Native(NativeType::Blob);
    let mut sv = SerializedValues::new();
    sv.add_value(&7i32, &ColumnType::Native(NativeType::Int)).unwrap();
    sv.add_value(&"abc", &ColumnType::Native(NativeType::Text)).unwrap();
    let before = sv.clone();
    let res = match kind {
        "top" => sv.add_value(&huge, &blob),
        "nested" => {
            let v: Vec<&[u8]> = vec![&[1, 2, 3], &huge[..]];
            sv.add_value(&v, &to_column_type(&Ty::List(Box::new(Ty::Native(NativeType::Blob)))))
        }
        "tuple" => {
            let v: (i32, &[u8]) = (1, &huge[..]);
            sv.add_value(&v, &to_column_type(&Ty::Tuple(vec![Ty::Native(NativeType::Int), Ty::Native(NativeType::Blob)])))
        }
        _ => return "bad-case".to_owned(),
    };
    if res.is_err() && sv != before {
        ctx.fail("rollback: after a SizeOverflow the SerializedValues changed".to_owned());
    }
    check_count(&sv, "after a size overflow", ctx);
    match res {
        Ok(()) => {
            ctx.fail("size: a 2^31-byte value was accepted (cell lengths are i32)".to_owned());
            "ok".to_owned()
        }
        Err(e) => format!("err({}):{}:{}", ser_err_str(&e), sv.element_count(), sv.buffer_size()),
    }
}

pub fn run(case: &str, ctx: &mut Ctx) -> String {
    let segs: Vec<&str> = case.split(" | ").map(|s| s.trim()).collect();
    let hd: Vec<&str> = segs[0].split_whitespace().collect();
    match hd.first().copied() {
        Some("ser") if segs.len() == 4 && hd.len() == 3 => {
            let (Some(e), Ok(v), Some(ty)) = (entry(hd[1]), hd[2].parse::<u32>(), parse_ty_str(segs[2])) else { return "bad-case".to_owned() };
            if e.add.is_none() || cd_str(&e.cd) != segs[1] || (e.shape)(v) != segs[3] {
                return "bad-case descriptor-or-value-does-not-match-the-registered-type".to_owned();
            }
            run_ser(e, v, &ty, ctx)
        }
        Some("deser") if segs.len() == 3 && hd.len() == 3 => {
            let (Some(e), Ok(variant), Some(ty)) = (entry(hd[1]), hd[2].parse::<u32>(), parse_ty_str(segs[2])) else { return "bad-case".to_owned() };
            if cd_str(&e.cd) != segs[1] {
                return "bad-case descriptor-does-not-match-the-registered-type".to_owned();
            }
            run_deser(e, variant, &ty, ctx)
        }
        Some("deserrow") if segs.len() == 3 && hd.len() == 2 => {
            let toks: Vec<&str> = segs[2].split_whitespace().collect();
            let Some(n) = toks.first().and_then(|s| s.parse::<usize>().ok()) else { return "bad-case".to_owned() };
            let mut pos = 1;
            let mut tys = Vec::new();
            for _ in 0..n {
                match parse_ty(&toks, &mut pos) {
                    Some(t) => tys.push(t),
                    None => return "bad-case".to_owned(),
                }
            }
            if pos != toks.len() || ROW_LABELS.iter().find(|(l, _)| *l == hd[1]).map(|(_, c)| *c) != Some(segs[1]) {
                return "bad-case".to_owned();
            }
            run_deserrow(hd[1], &tys, ctx)
        }
        Some("tc") if segs.len() == 3 && hd.len() == 2 => {
            let (Some(e), Some(ty)) = (entry(hd[1]), parse_ty_str(segs[2])) else { return "bad-case".to_owned() };
            if cd_str(&e.cd) != segs[1] {
                return "bad-case descriptor-does-not-match-the-registered-type".to_owned();
            }
            run_tc(e, &ty, ctx)
        }
        Some("pager") => pager::run(case, ctx),
        Some("rowsmeta") => rowsmeta::run(case, ctx),
        Some("bindrow") => run_bindrow(case, ctx),
        Some("batch") => run_batch(case, ctx),
        Some("sbatch") | Some("squery") => sessbind::run(case, ctx),
        Some("frame") if hd.len() == 2 => run_frame(hd[1], ctx),
        Some("rows") if segs.len() == 4 && hd.len() == 2 => {
            let toks: Vec<&str> = segs[2].split_whitespace().collect();
            let (Some(n), Ok(nrows)) = (toks.first().and_then(|s| s.parse::<usize>().ok()), segs[3].parse::<usize>()) else { return "bad-case".to_owned() };
            let mut pos = 1;
            let mut tys = Vec::new();
            for _ in 0..n {
                match parse_ty(&toks, &mut pos) {
                    Some(t) => tys.push(t),
                    None => return "bad-case".to_owned(),
                }
            }
            if pos != toks.len() || ROW_LABELS.iter().find(|(l, _)| *l == hd[1]).map(|(_, c)| *c) != Some(segs[1]) {
                return "bad-case".to_owned();
            }
            run_rows(hd[1], &tys, nrows, ctx)
        }
        Some("tcrow") if segs.len() == 3 && hd.len() == 2 => {
            let toks: Vec<&str> = segs[2].split_whitespace().collect();
            let Some(n) = toks.first().and_then(|s| s.parse::<usize>().ok()) else { return "bad-case".to_owned() };
            let mut pos = 1;
            let mut tys = Vec::new();
            for _ in 0..n {
                match parse_ty(&toks, &mut pos) {
                    Some(t) => tys.push(t),
                    None => return "bad-case".to_owned(),
                }
            }
            if pos != toks.len() || ROW_LABELS.iter().find(|(l, _)| *l == hd[1]).map(|(_, c)| *c) != Some(segs[1]) {
                return "bad-case".to_owned();
            }
            run_tcrow(hd[1], &tys)
        }
        Some("row") => run_row(case.trim().strip_prefix("row").unwrap_or("").trim(), ctx),
        Some("bind") if hd.len() >= 3 => run_bind(&hd[1..], ctx),
        Some("big") if hd.len() == 2 => run_big(hd[1], ctx),
        _ => "bad-case".to_owned(),
    }
}

//! Case generator of C17.
use super::types::*;
use super::*;

fn ser_case(e: &Entry, v: u32, t: &Ty) -> String {
    format!("ser {} {} | {} | {} | {}", e.label, v, cd_str(&e.cd), ty_str(t), (e.shape)(v))
}
fn tc_case(e: &Entry, t: &Ty) -> String {
    format!("tc {} | {} | {}", e.label, cd_str(&e.cd), ty_str(t))
}
fn add_op(e: &Entry, v: u32, t: &Ty) -> String {
    format!("add {} {} | {} | {}", e.label, v, ty_str(t), (e.shape)(v))
}

/// the column types the documentation pairs with the carrier, derived from its natural type:
/// list <-> set <-> vector at the root and one level down
fn naturals(e: &Entry) -> Vec<Ty> {
    let mut out = vec![e.natural.clone()];
    let alts = |t: &Ty| -> Vec<Ty> {
        match t {
            Ty::List(x) | Ty::Set(x) => vec![Ty::List(x.clone()), Ty::Set(x.clone()), Ty::Vector(x.clone(), 2), Ty::Vector(x.clone(), 3), Ty::Vector(x.clone(), 1), Ty::Vector(x.clone(), 0)],
            Ty::Native(NativeType::Text) => vec![Ty::Native(NativeType::Ascii)],
            _ => vec![],
        }
    };
    out.extend(alts(&e.natural));
    match &e.natural {
        Ty::List(x) | Ty::Set(x) => {
            for a in alts(x) {
                out.push(Ty::List(Box::new(a.clone())));
                out.push(Ty::Vector(Box::new(a), 2));
            }
        }
        Ty::Map(k, v) => {
            for a in alts(v) {
                out.push(Ty::Map(k.clone(), Box::new(a)));
            }
            for a in alts(k) {
                out.push(Ty::Map(Box::new(a), v.clone()));
            }
        }
        Ty::Tuple(ts) => {
            for i in 0..ts.len() {
                for a in alts(&ts[i]) {
                    let mut c = ts.clone();
                    c[i] = a;
                    out.push(Ty::Tuple(c));
                }
            }
        }
        _ => {}
    }
    out
}

pub fn generate(rng: &mut Rng, tier: Tier, emit: &mut dyn FnMut(String)) {
    let thorough = tier == Tier::Thorough;
    let all = all_entries();
    let ns = natives();
    let d1 = depth1();

    // ---- the matrix ----
    for e in all {
        let mut tys: Vec<(Ty, bool)> = Vec::new(); // (type, all variants?)
        for t in &ns {
            tys.push((t.clone(), true));
        }
        let nat = naturals(e);
        for t in &nat {
            tys.push((t.clone(), true));
        }
        // every single-point mutation of every natural type (the boundary of the accepted set)
        for t in &nat {
            for m in mutations(t) {
                tys.push((m, false));
            }
        }
        // one level of nesting: all of it (thorough) or a rotating third (quick)
        let k = rng.below(3) as usize;
        for (i, t) in d1.iter().enumerate() {
            if thorough || i % 3 == k {
                tys.push((t.clone(), false));
            }
        }
        // two levels: a slice of the enumeration + random types
        let step = if thorough { 4 } else { 97 };
        for t in depth2_slice(rng.below(step as u64) as usize, step) {
            tys.push((t, false));
        }
        for _ in 0..(if thorough { 1500 } else { 60 }) {
            tys.push((random_ty(rng, 2), false));
        }
        let mut seen = std::collections::HashSet::new();
        for (t, allv) in tys {
            let key = ty_str(&t);
            if !seen.insert(key) {
                continue;
            }
            if e.tc.is_some() {
                emit(tc_case(e, &t));
            }
            if e.add.is_some() {
                if allv {
                    for v in 0..4 {
                        emit(ser_case(e, v, &t));
                    }
                } else {
                    emit(ser_case(e, 0, &t));
                    emit(ser_case(e, *rng.pick(&[1u32, 2, 2, 3]), &t));
                }
            }
        }
    }

    // ---- deserialize WITHOUT type_check (the panic sites of the typed readers) ----
    for e in all.iter().filter(|e| e.deser.is_some() && e.tc.is_some()) {
        let mut tys: Vec<Ty> = ns.clone();
        for t in naturals(e) {
            tys.extend(mutations(&t));
            tys.push(t);
        }
        for (i, t) in d1.iter().enumerate() {
            if thorough || i % 9 == (e.label.len() % 9) {
                tys.push(t.clone());
            }
        }
        for _ in 0..(if thorough { 200 } else { 20 }) {
            tys.push(random_ty(rng, 2));
        }
        if e.cd == CD::Dyn {
            // the dynamic carrier passes type_check for every column type: a large share of checked pairs
            tys.extend(d1.iter().cloned());
            tys.extend(depth2_slice(0, if thorough { 2 } else { 7 }));
        }
        // every column type of nesting <= 2 the documentation pairs with this carrier (pairs that PASS type_check:
        // these are the ones the no-panic theorems speak about), each with three cell shapes
        for t in d1.iter().chain(depth2_slice(0, if thorough { 1 } else { 5 }).iter()) {
            if compat(&e.cd, t, Side::De, true) == Some(true) {
                tys.push(t.clone());
            }
        }
        let mut seen = std::collections::HashSet::new();
        for t in tys {
            if seen.insert(ty_str(&t)) {
                let checked = compat(&e.cd, &t, Side::De, true) == Some(true) || e.cd == CD::Dyn;
                for variant in 0..(if checked { 3 } else { 1 }) {
                    emit(format!("deser {} {} | {} | {}", e.label, variant, cd_str(&e.cd), ty_str(&t)));
                }
            }
        }
    }
    // the dynamic carrier through its own registration: every type passes its type_check
    // (row level) deserialize without type_check: every row-level case once more as `deserrow`
    for (i, (label, cd)) in ROW_LABELS.iter().enumerate() {
        let show = |ts: &[Ty]| format!("deserrow {} | {} | {}{}", label, cd, ts.len(), ts.iter().map(|t| format!(" {}", ty_str(t))).collect::<String>());
        let nat: Vec<Ty> = match i {
            3 => vec![Ty::Native(NativeType::Int)],
            4 => vec![Ty::Native(NativeType::Int), Ty::Native(NativeType::Text)],
            5 => vec![Ty::Native(NativeType::Int), Ty::List(Box::new(Ty::Native(NativeType::Text))), Ty::Native(NativeType::Counter)],
            6 => vec![
                Ty::Native(NativeType::BigInt),
                Ty::Map(Box::new(Ty::Native(NativeType::Int)), Box::new(Ty::Native(NativeType::Text))),
                Ty::Tuple(vec![Ty::Native(NativeType::Int), Ty::Native(NativeType::Float)]),
                Ty::Set(Box::new(Ty::Native(NativeType::Int))),
            ],
            0 => vec![Ty::Native(NativeType::Int)],
            _ => vec![],
        };
        emit(show(&nat));
        let mut more = nat.clone();
        more.push(Ty::Native(NativeType::Int));
        emit(show(&more));
        more.push(Ty::Native(NativeType::Text));
        emit(show(&more));
        for k in 0..nat.len() {
            emit(show(&nat[..k]));
            emit(show(&nat[k..]));
            for m in mutations(&nat[k]) {
                let mut c = nat.clone();
                c[k] = m;
                emit(show(&c));
            }
        }
        for _ in 0..(if thorough { 200 } else { 20 }) {
            let n = rng.below(6) as usize;
            let ts: Vec<Ty> = (0..n).map(|_| if rng.chance(2, 3) && !nat.is_empty() { rng.pick(&nat).clone() } else { random_ty(rng, 1) }).collect();
            emit(show(&ts));
        }
    }

    // ---- row-level type_check ----
    let pool: Vec<Ty> = {
        let mut p = ns.clone();
        p.push(Ty::List(Box::new(Ty::Native(NativeType::Text))));
        p.push(Ty::Set(Box::new(Ty::Native(NativeType::Int))));
        p.push(Ty::Map(Box::new(Ty::Native(NativeType::Int)), Box::new(Ty::Native(NativeType::Text))));
        p.push(Ty::Tuple(vec![Ty::Native(NativeType::Int), Ty::Native(NativeType::Float)]));
        p
    };
    let row_nat: [Vec<Ty>; 7] = [
        vec![pool[9].clone()],
        vec![],
        vec![],
        vec![pool[9].clone()],
        vec![pool[9].clone(), pool[11].clone()],
        vec![pool[9].clone(), pool[20].clone(), pool[3].clone()],
        vec![pool[10].clone(), pool[22].clone(), pool[23].clone(), pool[21].clone()],
    ];
    let no_vector = |ts: &[Ty]| {
        fn nv(t: &Ty) -> bool {
            match t {
                Ty::Native(_) => true,
                Ty::Vector(..) => false,
                Ty::List(e) | Ty::Set(e) => nv(e),
                Ty::Map(k, v) => nv(k) && nv(v),
                Ty::Tuple(ts) => ts.iter().all(nv),
                Ty::Udt(_, _, fs) => fs.iter().all(|(_, t)| nv(t)),
            }
        }
        ts.iter().all(nv)
    };
    for (i, (label, cd)) in ROW_LABELS.iter().enumerate() {
        // every row-level case twice: the bare type_check (`tcrow`) and through a parsed RESULT/Rows (`rows`)
        let show = |ts: &[Ty]| {
            let specs = format!("{}{}", ts.len(), ts.iter().map(|t| format!(" {}", ty_str(t))).collect::<String>());
            if no_vector(ts) {
                format!("rows {} | {} | {} | {}", label, cd, specs, 1 + ts.len() % 3)
            } else {
                format!("tcrow {} | {} | {}", label, cd, specs)
            }
        };
        let show_tc = |ts: &[Ty]| format!("tcrow {} | {} | {}{}", label, cd, ts.len(), ts.iter().map(|t| format!(" {}", ty_str(t))).collect::<String>());
        emit(show_tc(&row_nat[i]));
        let nat = &row_nat[i];
        emit(show(nat));
        // one column more / fewer, each column mutated
        let mut more = nat.clone();
        more.push(pool[9].clone());
        emit(show(&more));
        if !nat.is_empty() {
            emit(show(&nat[..nat.len() - 1]));
            emit(show(&nat[1..]));
        }
        for j in 0..nat.len() {
            for m in mutations(&nat[j]) {
                let mut c = nat.clone();
                c[j] = m;
                emit(show(&c));
            }
        }
        for _ in 0..(if thorough { 400 } else { 40 }) {
            let n = rng.below(6) as usize;
            let ts: Vec<Ty> = (0..n).map(|_| if rng.bool() { rng.pick(&pool).clone() } else { random_ty(rng, 2) }).collect();
            emit(show(&ts));
        }
    }

    // ---- rollback: random prefixes of successful values, then a failing value of each kind, then more ----
    let sers: Vec<&Entry> = all.iter().filter(|e| e.add.is_some()).collect();
    let int = Ty::Native(NativeType::Int);
    let text = Ty::Native(NativeType::Text);
    let by = |l: &str| entry(l).unwrap();
    // (carrier, variant, type): fails AFTER part of the value was written
    let nested_failures: Vec<(&Entry, u32, Ty)> = vec![
        (by("CqlValue:list"), 2, Ty::List(Box::new(int.clone()))), // 3rd element has another type
        (by("CqlValue:list"), 2, Ty::Vector(Box::new(int.clone()), 3)),
        (by("CqlValue:vector"), 3, Ty::Vector(Box::new(Ty::Native(NativeType::Float)), 2)),
        (by("CqlValue:map"), 2, Ty::Map(Box::new(int.clone()), Box::new(text.clone()))), // 2nd value
        (by("CqlValue:map"), 3, Ty::Map(Box::new(int.clone()), Box::new(text.clone()))), // 2nd key
        (by("CqlValue:tuple"), 0, Ty::Tuple(vec![int.clone(), int.clone()])),
        (by("CqlValue:udt"), 0, udt_ty(&[("a", int.clone()), ("b", int.clone())])),
        (by("CqlValue:udt"), 3, udt_ty(&[("a", int.clone()), ("b", text.clone())])), // left-over field, after all fields were written
        (by("CqlValue:list-of-tuples"), 2, Ty::List(Box::new(Ty::Tuple(vec![int.clone(), text.clone()])))),
        // a UDT value naming a field the type lacks (fewer / as many / more fields than the type), top level and at depth:
        // detected after every field of the type was written
        (by("CqlValue:udt3"), 1, by("CqlValue:udt3").natural.clone()),
        (by("CqlValue:udt3"), 2, by("CqlValue:udt3").natural.clone()),
        (by("CqlValue:udt3"), 3, by("CqlValue:udt3").natural.clone()),
        (by("CqlValue:udt3-names"), 1, by("CqlValue:udt3-names").natural.clone()),
        (by("CqlValue:udt3-names"), 2, by("CqlValue:udt3-names").natural.clone()),
        (by("CqlValue:udt3-names"), 3, by("CqlValue:udt3-names").natural.clone()),
        (by("CqlValue:list-of-udt"), 2, by("CqlValue:list-of-udt").natural.clone()),
        (by("CqlValue:list-of-udt"), 3, by("CqlValue:list-of-udt").natural.clone()),
        (by("CqlValue:tuple-of-udt"), 2, by("CqlValue:tuple-of-udt").natural.clone()),
        (by("CqlValue:tuple-of-udt"), 3, by("CqlValue:tuple-of-udt").natural.clone()),
        (by("CqlValue:udt-in-udt"), 2, by("CqlValue:udt-in-udt").natural.clone()),
        (by("CqlValue:udt-in-udt"), 3, by("CqlValue:udt-in-udt").natural.clone()),
        (by("CqlValue:map-of-udt"), 2, by("CqlValue:map-of-udt").natural.clone()),
        (by("CqlValue:map-of-udt"), 3, by("CqlValue:map-of-udt").natural.clone()),
        (by("CqlValue:list-of-long-tuples"), 2, by("CqlValue:list-of-long-tuples").natural.clone()),
        (by("CqlValue:list-of-long-tuples"), 3, by("CqlValue:list-of-long-tuples").natural.clone()),
        (by("CqlValue:set-of-vectors"), 2, by("CqlValue:set-of-vectors").natural.clone()),
        (by("CqlValue:set-of-vectors"), 3, by("CqlValue:set-of-vectors").natural.clone()),
        (by("(i32,i32,String)"), 0, Ty::Tuple(vec![int.clone(), int.clone(), int.clone()])), // 3rd field
        (by("(i32,String)"), 0, Ty::Tuple(vec![int.clone(), int.clone(), int.clone()])),
        (by("BTreeMap<i32,String>"), 0, Ty::Map(Box::new(int.clone()), Box::new(int.clone()))), // value after key
        (by("BTreeMap<String,Vec<i32>>"), 0, Ty::Map(Box::new(text.clone()), Box::new(Ty::List(Box::new(text.clone()))))),
        (by("BTreeMap<String,Vec<i32>>"), 0, Ty::Map(Box::new(text.clone()), Box::new(Ty::Vector(Box::new(int.clone()), 3)))),
        (by("Vec<Vec<i32>>"), 2, Ty::List(Box::new(Ty::Vector(Box::new(int.clone()), 2)))), // 3rd element has 0 elements
        (by("Vec<Vec<i32>>"), 0, Ty::List(Box::new(Ty::List(Box::new(text.clone()))))),
        (by("Vec<(i32,String)>"), 0, Ty::List(Box::new(Ty::Tuple(vec![int.clone(), int.clone()])))),
        (by("Vec<(i32,String)>"), 0, Ty::Vector(Box::new(Ty::Tuple(vec![int.clone(), int.clone()])), 2)),
        (by("Vec<MaybeEmpty<i32>>"), 2, Ty::List(Box::new(int.clone()))), // succeeds
        (by("Vec<Option<String>>"), 2, Ty::Vector(Box::new(Ty::List(Box::new(text.clone()))), 3)),
        (by("((i64,),Vec<i64>)"), 0, Ty::Tuple(vec![Ty::Tuple(vec![Ty::Native(NativeType::BigInt)]), Ty::List(Box::new(int.clone()))])),
        (by("HashMap<i32,Option<String>>"), 0, Ty::Map(Box::new(int.clone()), Box::new(int.clone()))),
        (by("Vec<BTreeMap<i32,String>>"), 0, Ty::List(Box::new(Ty::Map(Box::new(int.clone()), Box::new(int.clone()))))),
    ];
    let n_rows = if thorough { 6000 } else { 400 };
    for i in 0..n_rows {
        let mut ops: Vec<String> = Vec::new();
        let prefix = rng.below(6) as usize;
        let good = |rng: &mut Rng, ops: &mut Vec<String>| {
            let e = *rng.pick(&sers);
            let nat = naturals(e);
            ops.push(add_op(e, rng.below(4) as u32, rng.pick(&nat)));
        };
        for _ in 0..prefix {
            good(rng, &mut ops);
        }
        let fails = 1 + rng.below(3);
        for _ in 0..fails {
            match rng.below(4) {
                // top-level type mismatch: a mutation of the natural type
                0 => {
                    let e = *rng.pick(&sers);
                    let ms = mutations(&e.natural);
                    if !ms.is_empty() {
                        ops.push(add_op(e, *rng.pick(&[0u32, 0, 2, 3]), rng.pick(&ms)));
                    }
                }
                // failure after a partially written value
                1 | 2 => {
                    let (e, v, t) = &nested_failures[(i + rng.below(3) as usize) % nested_failures.len()];
                    ops.push(add_op(e, *v, t));
                }
                // any carrier against any type
                _ => {
                    let e = *rng.pick(&sers);
                    ops.push(add_op(e, rng.below(4) as u32, &random_ty(rng, 2)));
                }
            }
            if rng.bool() {
                good(rng, &mut ops);
            }
        }
        emit(format!("row {}", ops.join(" ; ")));
    }
    // every nested failure directly after every prefix length 0..3, each on its own
    for (e, v, t) in &nested_failures {
        for prefix in 0..3 {
            let mut ops: Vec<String> = (0..prefix).map(|j| add_op(by("Vec<String>"), j, &Ty::List(Box::new(text.clone())))).collect();
            ops.push(add_op(e, *v, t));
            ops.push(add_op(by("i32"), 0, &int));
            emit(format!("row {}", ops.join(" ; ")));
        }
    }
    // too many values: 65534 / 65535 values, then more (successful, failing, null)
    for pre in [65533usize, 65534, 65535] {
        emit(format!(
            "row fill {} ; {} ; {} ; {} ; {} ; {} ; fill 3",
            pre,
            add_op(by("i32"), 0, &text),
            add_op(by("i32"), 0, &int),
            add_op(by("Vec<String>"), 0, &Ty::List(Box::new(text.clone()))),
            add_op(by("CqlValue:list"), 2, &Ty::List(Box::new(int.clone()))),
            add_op(by("Option<i32>"), 1, &int),
        ));
    }
    // ---- the pager's typed stream over pages whose metadata differ ----
    gen_pager(rng, thorough, emit);

    // ---- the legacy empty value against every type that can / cannot hold it, at the top and one level down ----
    {
        let int = Ty::Native(NativeType::Int);
        let non_emptiable: Vec<Ty> = vec![
            Ty::Native(NativeType::Counter),
            Ty::Native(NativeType::Duration),
            Ty::List(Box::new(int.clone())),
            Ty::Set(Box::new(int.clone())),
            Ty::Map(Box::new(int.clone()), Box::new(int.clone())),
            udt_ty(&[("a", int.clone())]),
        ];
        let emptiable: Vec<Ty> = vec![int.clone(), Ty::Native(NativeType::Text), Ty::Native(NativeType::Uuid), Ty::Tuple(vec![int.clone()]), Ty::Vector(Box::new(int.clone()), 2)];
        let all_e: Vec<Ty> = non_emptiable.iter().chain(emptiable.iter()).cloned().collect();
        let by = |l: &str| entry(l).unwrap();
        let mut binds: Vec<(&Entry, u32, Ty)> = Vec::new();
        for e in &all_e {
            // at the top: CqlValue::Empty and MaybeEmpty<T>::Empty (+ behind Option)
            binds.push((by("CqlValue:empty"), 0, e.clone()));
            for l in ["MaybeEmpty<i32>", "MaybeEmpty<Uuid>", "Option<MaybeEmpty<i64>>"] {
                binds.push((by(l), 1, e.clone()));
                binds.push((by(l), 0, e.clone()));
            }
            // one level down
            for v in 0..4 {
                binds.push((by("CqlValue:list-of-empty"), v, Ty::List(Box::new(e.clone()))));
                binds.push((by("CqlValue:list-of-empty"), v, Ty::Set(Box::new(e.clone()))));
                binds.push((by("CqlValue:list-of-empty"), v, Ty::Vector(Box::new(e.clone()), 2)));
                binds.push((by("CqlValue:udt-of-empty"), v, udt_ty(&[("a", e.clone()), ("b", int.clone())])));
                binds.push((by("CqlValue:udt-of-empty"), v, udt_ty(&[("a", int.clone()), ("b", e.clone())])));
                for e2 in [&int, e] {
                    binds.push((by("CqlValue:map-of-empty"), v, Ty::Map(Box::new(e.clone()), Box::new(e2.clone()))));
                    binds.push((by("CqlValue:map-of-empty"), v, Ty::Map(Box::new(e2.clone()), Box::new(e.clone()))));
                    binds.push((by("CqlValue:tuple-of-empty"), v, Ty::Tuple(vec![e.clone(), e2.clone()])));
                    binds.push((by("CqlValue:tuple-of-empty"), v, Ty::Tuple(vec![e2.clone(), e.clone()])));
                }
            }
            binds.push((by("Vec<MaybeEmpty<i32>>"), 2, Ty::List(Box::new(e.clone()))));
            binds.push((by("Vec<MaybeEmpty<i32>>"), 2, Ty::Vector(Box::new(e.clone()), 3)));
        }
        let mut seen = std::collections::HashSet::new();
        for (i, (e, v, t)) in binds.iter().enumerate() {
            let c = ser_case(e, *v, t);
            if !seen.insert(c.clone()) {
                continue;
            }
            emit(c);
            // the same bind after values already bound (rollback: the request must stay intact when it is refused)
            if i % 3 == 0 || thorough {
                emit(format!("row {} ; {} ; {} ; {}", add_op(by("Vec<String>"), 0, &Ty::List(Box::new(Ty::Native(NativeType::Text)))), add_op(by("i32"), 0, &int), add_op(e, *v, t), add_op(by("i64"), 0, &Ty::Native(NativeType::BigInt))));
            }
        }
    }

    // ---- row-level binding and new_from_frame ----
    gen_bindrow(rng, thorough, emit);

    // the 16-bit boundary on every bind path
    let ns: Vec<usize> = if thorough { vec![0, 1, 255, 256, 32767, 32768, 65534, 65535, 65536, 65537, 70000, 131071, 131072] } else { vec![1, 65534, 65535, 65536, 65537, 70000] };
    for kind in ["slice_i32", "slice_opt", "vec_str", "map", "writer", "add"] {
        for n in &ns {
            emit(format!("bind {} {}", kind, n));
        }
    }
    for parts in [vec![65535usize], vec![65535, 0], vec![65535, 1], vec![1, 65535], vec![32768, 32767], vec![32768, 32768], vec![40000, 40000], vec![65535, 65535], vec![30000, 30000, 5535], vec![30000, 30000, 5536], vec![0, 0]] {
        emit(format!("bind append {}", parts.iter().map(|p| p.to_string()).collect::<Vec<_>>().join(" ")));
    }
    for (n, k) in [(0usize, 65534usize), (0, 65535), (65534, 0), (65535, 0), (30000, 35534), (30000, 35535), (70000, 10)] {
        emit(format!("bind mixed {} {}", n, k));
    }
    for _ in 0..(if thorough { 12 } else { 3 }) {
        let a = rng.range(0, 65535) as usize;
        let b = (65535 - a as i64 + rng.range(-2, 2)).max(0) as usize;
        emit(format!("bind append {} {}", a, b));
        emit(format!("bind mixed {} {}", a, b.saturating_sub(1)));
    }
    for kind in ["top", "nested", "tuple"] {
        emit(format!("big {}", kind));
    }
}

/// Page scripts for the pager: the metadata sent with page k differs from page k-1 in one of the ways
/// {type changed, column added, removed, renamed, reordered}, with / without metadata ids, with NO_METADATA and
/// zero-sized pages in between; every target row type.
fn gen_pager(rng: &mut Rng, thorough: bool, emit: &mut dyn FnMut(String)) {
    use pager::{cols_str, PCol, PTYPES};
    let col = |n: &str, t: &str| PCol { name: n.to_owned(), ty: PTYPES.iter().find(|(x, _)| *x == t).unwrap().0 };
    let natural = |target: &str| -> Vec<PCol> {
        match target {
            "t_i32_str" => vec![col("pk", "int"), col("v", "text")],
            "t_i32" => vec![col("pk", "int")],
            _ => vec![col("pk", "int"), col("v", "bigint")],
        }
    };
    let variants = |base: &[PCol]| -> Vec<Vec<PCol>> {
        let mut out = Vec::new();
        for i in 0..base.len() {
            for (t, _) in PTYPES.iter() {
                if *t != base[i].ty {
                    let mut c = base.to_vec();
                    c[i].ty = t;
                    out.push(c); // type changed
                }
            }
            let mut c = base.to_vec();
            c[i].name = format!("{}x", c[i].name);
            out.push(c); // renamed (same types: still fits a tuple, not the struct)
            let mut c = base.to_vec();
            c.remove(i);
            out.push(c); // removed
        }
        let mut c = base.to_vec();
        c.push(col("extra", "int"));
        out.push(c); // added
        let mut c = base.to_vec();
        c.reverse();
        out.push(c); // reordered (fits the struct, not the tuple unless symmetric)
        out
    };
    let page = |rows: usize, new_id: bool, cols: &[PCol]| format!("{} {} {}", rows, new_id as u8, cols_str(cols));
    for target in ["t_i32_i64", "t_i32_str", "t_i32", "s_pk_v", "row", "S/t_i32_i64", "S/s_pk_v", "S/row"] {
        let nat = natural(target.trim_start_matches("S/"));
        let vars = variants(&nat);
        if !target.starts_with("S/") {
            // `rowsmeta`: ONE response parsed with a cached metadata: every (cached, sent) pair of {none, natural,
            // variant} x {natural, variant}, with / without the extension, every flag combination (0x0001 global table
            // spec, 0x0004 NO_METADATA, 0x0008 METADATA_CHANGED - also set without the extension, also both)
            let mut cacheds: Vec<String> = vec!["none".to_owned(), format!("- {}", cols_str(&nat)), format!("3 {}", cols_str(&nat))];
            cacheds.extend(vars.iter().map(|v| format!("- {}", cols_str(v))));
            cacheds.extend(vars.iter().take(if thorough { vars.len() } else { 3 }).map(|v| format!("5 {}", cols_str(v))));
            let mut sents: Vec<&Vec<PCol>> = vec![&nat];
            sents.extend(vars.iter());
            for c in &cacheds {
                for sv in &sents {
                    for ext in [0, 1] {
                        for flags in [0x1, 0x0, 0x5, 0x9, 0xD, 0x4, 0x8] {
                            let rows = if flags == 0x0 || rng.chance(1, 8) { 0 } else { 1 + rng.below(3) };
                            emit(format!("rowsmeta {} {} {} | {} | 7 {} | {}", target, ext, flags, c, cols_str(sv), rows));
                        }
                    }
                }
            }
        }
        for (ext, skip) in [(false, false), (false, true), (true, false)] {
            if ext && target.starts_with("S/") {
                continue; // the session cases run without the metadata-id extension
            }
            let head = format!("pager {} {} {} stop | {}", target, ext as u8, skip as u8, cols_str(&nat));
            // the consumer that keeps polling through error items, to the end of the stream
            let head_all = format!("pager {} {} {} all | {}", target, ext as u8, skip as u8, cols_str(&nat));
            let nometa_ok = ext || skip;
            // all pages alike
            emit(format!("{} | {} | {}", head, page(2, false, &nat), page(3, false, &nat)));
            emit(format!("{} | {} | {}", head_all, page(2, false, &nat), page(3, false, &nat)));
            for v in &vars {
                // the change arrives with page 1 / page 2 / after a zero-sized page / on the first page
                emit(format!("{} | {} | {}", head, page(2, false, &nat), page(2, ext, v)));
                emit(format!("{} | {} | {} | {}", head, page(1, false, &nat), page(2, false, &nat), page(1, false, v)));
                emit(format!("{} | {} | {} | {}", head, page(2, false, &nat), page(0, false, v), page(2, false, v)));
                emit(format!("{} | {} | {} | {}", head, page(0, false, &nat), page(0, false, v), page(1, false, v)));
                emit(format!("{} | {} | {}", head, page(1, false, v), page(1, false, &nat)));
                // changes and changes back
                emit(format!("{} | {} | {} | {}", head, page(1, false, &nat), page(0, false, v), page(2, false, &nat)));
                // polled to the end: a non-fitting page of SEVERAL rows (every one of them must be refused, not only
                // the first), followed by pages that fit again
                emit(format!("{} | {} | {} | {}", head_all, page(2, false, &nat), page(3, ext, v), page(2, ext, &nat)));
                emit(format!("{} | {} | {} | {} | {}", head_all, page(1, false, &nat), page(2, false, v), page(0, false, &nat), page(2, false, v)));
                emit(format!("{} | {} | {} | {}", head_all, page(0, false, &nat), page(4, false, v), page(1, false, &nat)));
                // truncated pages: the raw row iterator errs (also on the FIRST row of a fresh page: `cut 0`), before
                // and after a change of metadata, followed by intact pages
                emit(format!("{} | {} | {} cut 0 | {}", head_all, page(2, false, &nat), page(3, ext, v), page(2, ext, &nat)));
                emit(format!("{} | {} | {} cut 1 | {} cut 0 | {}", head_all, page(2, false, &nat), page(3, false, v), page(2, false, v), page(1, false, &nat)));
                emit(format!("{} | {} cut 1 | {} | {}", head_all, page(3, false, &nat), page(2, false, v), page(1, false, &nat)));
                emit(format!("{} | {} | {} cut 0 | {}", head, page(2, false, &nat), page(2, false, &nat), page(2, false, v)));
                if nometa_ok {
                    emit(format!("{} | 2 nometa | {} | 1 nometa", head, page(1, ext, v)));
                    emit(format!("{} | 1 nometa | 0 nometa | {}", head, page(2, false, v)));
                    emit(format!("{} | 2 nometa | {} | 2 nometa", head_all, page(3, ext, v)));
                }
                if ext {
                    // the id changes but the columns do not; the columns change but no id is announced
                    emit(format!("{} | {} | {} | {}", head, page(1, false, &nat), page(1, true, &nat), page(1, false, v)));
                    emit(format!("{} | {} | {} | 1 nometa", head, page(1, false, &nat), page(1, true, v)));
                    emit(format!("{} | {} | {} | 2 nometa | {}", head_all, page(1, false, &nat), page(2, true, v), page(2, true, &nat)));
                }
            }
            if nometa_ok {
                emit(format!("{} | 2 nometa | 0 nometa | 3 nometa", head));
            }
            // random scripts, both consumers
            for r in 0..(if thorough { 60 } else { 8 }) {
                let n = 1 + rng.below(5) as usize;
                let pages: Vec<String> = (0..n)
                    .map(|_| {
                        let rows = *rng.pick(&[0usize, 0, 1, 2, 3, 4]);
                        if nometa_ok && rng.chance(1, 4) {
                            format!("{} nometa", rows)
                        } else if rng.chance(2, 3) {
                            page(rows, ext && rng.chance(1, 3), &nat)
                        } else {
                            let v: &Vec<PCol> = rng.pick(&vars[..]);
                            page(rows, ext && rng.chance(1, 3), v)
                        }
                    })
                    .collect();
                emit(format!("{} | {}", if r % 2 == 0 { &head_all } else { &head }, pages.join(" | ")));
            }
        }
    }
}

/// Row-level binds: positional (Vec / slice / tuple) and by-name rows against bind markers that match, that
/// differ in number, in a column's type (every single-point mutation), in a name; keys without a marker and
/// markers without a key; repeated marker names.  Frames for `new_from_frame`.
fn gen_bindrow(rng: &mut Rng, thorough: bool, emit: &mut dyn FnMut(String)) {
    let kinds: Vec<u8> = vec![0, 1, 3, 5, 6, 7, 8, 12, 14, 15, 16, 18, 19];
    let val = |k: u8, v: u32| format!("{}:{} {}", k, v, dyn_shape(&dyn_value(k, v).0));
    let cols_str = |cols: &[(String, Ty)]| if cols.is_empty() { "-".to_owned() } else { cols.iter().map(|(n, t)| format!("{} {}", n, ty_str(t))).collect::<Vec<_>>().join(" ; ") };
    let join = |xs: Vec<String>| if xs.is_empty() { "-".to_owned() } else { xs.join(" ; ") };
    let n_rows = if thorough { 400 } else { 40 };
    for _ in 0..n_rows {
        let n = rng.below(5) as usize;
        let picks: Vec<(u8, u32)> = (0..n).map(|_| (*rng.pick(&kinds), *rng.pick(&[0u32, 0, 0, 1, 2, 3]))).collect();
        let nat: Vec<(String, Ty)> = picks.iter().enumerate().map(|(i, (k, _))| (format!("c{}", i), dyn_value(*k, 0).1)).collect();
        let seq_vals = join(picks.iter().map(|(k, v)| val(*k, *v)).collect());
        let map_vals = join(picks.iter().enumerate().map(|(i, (k, v))| format!("c{} {}", i, val(*k, *v))).collect());
        let mut variants: Vec<Vec<(String, Ty)>> = vec![nat.clone()];
        // one more / one fewer bind marker
        let mut more = nat.clone();
        more.push((format!("c{}", n), Ty::Native(NativeType::Int)));
        variants.push(more);
        if n > 0 {
            variants.push(nat[..n - 1].to_vec());
            variants.push(nat[1..].to_vec());
            // one column's type mutated
            let i = rng.below(n as u64) as usize;
            let ms = mutations(&nat[i].1);
            for m in ms.iter().take(if thorough { 12 } else { 4 }) {
                let mut c = nat.clone();
                c[i].1 = m.clone();
                variants.push(c);
            }
            // a marker renamed; a marker repeated
            let mut c = nat.clone();
            c[i].0 = "other".to_owned();
            variants.push(c);
            let mut c = nat.clone();
            c.push(nat[i].clone());
            variants.push(c);
        }
        // two (and three) keys that no marker uses: the error must name the lexicographically smallest
        let extra2 = format!("{}{}zz {} ; aa {}", if n == 0 { "" } else { &map_vals }, if n == 0 { "" } else { " ; " }, val(0, 0), val(1, 0));
        let extra3 = format!("mm {} ; {}", val(0, 1), extra2);
        for cols in &variants {
            emit(format!("bindrow seq | {} | {}", cols_str(cols), seq_vals));
            emit(format!("bindrow map | {} | {}", cols_str(cols), map_vals));
        }
        emit(format!("bindrow map | {} | {}", cols_str(&nat), extra2));
        emit(format!("bindrow map | {} | {}", cols_str(&nat), extra3));
        if n > 1 {
            // two markers without a value: the first one (in marker order) is reported
            let only_last = format!("c{} {}", n - 1, val(picks[n - 1].0, picks[n - 1].1));
            emit(format!("bindrow map | {} | {}", cols_str(&nat), only_last));
        }
    }
    // batches: every statement has its OWN bind markers; value lists that match, that are swapped between
    // neighbouring statements (the lists then match the neighbour's markers), that misfit in one statement, one
    // list too many / too few
    for _ in 0..(if thorough { 300 } else { 40 }) {
        let n = 1 + rng.below(3) as usize;
        let mut stmts: Vec<Vec<(String, Ty)>> = Vec::new();
        let mut rows: Vec<Vec<(u8, u32)>> = Vec::new();
        for s in 0..n {
            let m = rng.below(4) as usize;
            let picks: Vec<(u8, u32)> = (0..m).map(|_| (*rng.pick(&kinds), *rng.pick(&[0u32, 0, 0, 2, 3]))).collect();
            stmts.push(picks.iter().enumerate().map(|(i, (k, _))| (format!("s{}c{}", s, i), dyn_value(*k, 0).1)).collect());
            rows.push(picks);
        }
        let show = |stmts: &[Vec<(String, Ty)>], rows: &[Vec<(u8, u32)>], carrier: &str| {
            let ss = if stmts.is_empty() { ".".to_owned() } else { stmts.iter().map(|c| cols_str(c)).collect::<Vec<_>>().join(" || ") };
            let rs = if rows.is_empty() { ".".to_owned() } else { rows.iter().map(|r| join(r.iter().map(|(k, v)| val(*k, *v)).collect())).collect::<Vec<_>>().join(" || ") };
            format!("batch {} | {} | {}", carrier, ss, rs)
        };
        let carrier = *rng.pick(&["vec", "iter", "tuple"]);
        emit(show(&stmts, &rows, carrier));
        if n >= 2 {
            let mut sw = rows.clone();
            sw.swap(0, 1);
            emit(show(&stmts, &sw, carrier));
            let mut rot = rows.clone();
            rot.rotate_left(1);
            emit(show(&stmts, &rot, carrier));
            // statement k's list equal to statement k-1's list (matches the NEIGHBOUR's markers only)
            let mut dup = rows.clone();
            dup[1] = rows[0].clone();
            emit(show(&stmts, &dup, carrier));
        }
        emit(show(&stmts, &rows[..n - 1], "vec"));
        let mut more = rows.clone();
        more.push(vec![(0, 0)]);
        emit(show(&stmts, &more, "vec"));
        let i = rng.below(n as u64) as usize;
        if !stmts[i].is_empty() {
            let j = rng.below(stmts[i].len() as u64) as usize;
            for m in mutations(&stmts[i][j].1).into_iter().take(3) {
                let mut c = stmts.clone();
                c[i][j].1 = m;
                emit(show(&c, &rows, carrier));
            }
        }
    }
    // ---- the same through a real Session (Session::batch: the cached first value list; Session::query_unpaged with
    // values: PREPARE, bind, EXECUTE per attempt).  Mixed batches: unprepared-with-values first + prepared later,
    // prepared first, all unprepared, all prepared; value lists matching / swapped / fitting only a NEIGHBOUR's markers
    {
        let skinds: Vec<u8> = vec![0, 1, 3, 4, 6, 11]; // values whose natural column types the mock can announce
        let bigint = Ty::Native(NativeType::BigInt);
        for r in 0..(if thorough { 160 } else { 28 }) {
            let n = 1 + rng.below(3) as usize;
            let mut stmts: Vec<(bool, Vec<(String, Ty)>)> = Vec::new();
            let mut rows: Vec<Vec<(u8, u32)>> = Vec::new();
            for s in 0..n {
                let m = if rng.chance(1, 6) { 0 } else { 1 + rng.below(2) as usize };
                let picks: Vec<(u8, u32)> = (0..m).map(|_| (*rng.pick(&skinds), 0u32)).collect();
                let prepared = match r % 4 { 0 => s > 0, 1 => s == 0, 2 => false, _ => true };
                stmts.push((prepared, picks.iter().enumerate().map(|(i, (k, _))| (format!("s{}c{}", s, i), dyn_value(*k, 0).1)).collect()));
                rows.push(picks);
            }
            let show = |stmts: &[(bool, Vec<(String, Ty)>)], rows: &[Vec<(u8, u32)>], carrier: &str| {
                let ss = stmts.iter().map(|(p, c)| format!("{} {}", if *p { "P" } else { "Q" }, cols_str(c))).collect::<Vec<_>>().join(" || ");
                let rs = if rows.is_empty() { ".".to_owned() } else { rows.iter().map(|r| join(r.iter().map(|(k, v)| val(*k, *v)).collect())).collect::<Vec<_>>().join(" || ") };
                format!("sbatch {} | {} | {}", carrier, ss, rs)
            };
            let carrier = if rng.bool() { "vec" } else { "tuple" };
            emit(show(&stmts, &rows, carrier));
            if n >= 2 {
                let mut sw = rows.clone();
                sw.swap(0, 1);
                emit(show(&stmts, &sw, carrier));
                // list #0 a copy of list #1: fits the NEIGHBOUR's markers, not (in general) its own
                let mut dup = rows.clone();
                dup[0] = rows[1].clone();
                emit(show(&stmts, &dup, carrier));
                // statement #0's column changed to a type its list does not fit while statement #1 keeps the original:
                // an i32 for a bigint marker of the first statement, an int marker in the second
                if !stmts[0].1.is_empty() {
                    let mut c = stmts.clone();
                    c[1].1 = stmts[0].1.clone();
                    c[0].1[0].1 = if stmts[0].1[0].1 == bigint { Ty::Native(NativeType::Int) } else { bigint.clone() };
                    let mut rr = rows.clone();
                    rr[1] = rows[0].clone();
                    emit(show(&c, &rr, carrier));
                }
            }
            emit(show(&stmts, &rows[..n - 1], "vec"));
            let i = rng.below(n as u64) as usize;
            if !stmts[i].1.is_empty() {
                for m in mutations(&stmts[i].1[0].1).into_iter().filter(|m| !ty_str(m).contains("tuple") && !ty_str(m).contains("udt") && !ty_str(m).contains("vector")).take(2) {
                    let mut c = stmts.clone();
                    c[i].1[0].1 = m;
                    emit(show(&c, &rows, carrier));
                }
            }
        }
        // Session::query_unpaged with values: fitting, misfitting (must surface as a serialization error, not retried), none
        for _ in 0..(if thorough { 120 } else { 24 }) {
            let m = rng.below(3) as usize;
            let picks: Vec<(u8, u32)> = (0..m).map(|_| (*rng.pick(&skinds), 0u32)).collect();
            let nat: Vec<(String, Ty)> = picks.iter().enumerate().map(|(i, (k, _))| (format!("c{}", i), dyn_value(*k, 0).1)).collect();
            let vals = join(picks.iter().map(|(k, v)| val(*k, *v)).collect());
            emit(format!("squery | {} | {}", cols_str(&nat), vals));
            if m > 0 {
                let i = rng.below(m as u64) as usize;
                for mt in mutations(&nat[i].1).into_iter().filter(|m| !ty_str(m).contains("tuple") && !ty_str(m).contains("udt") && !ty_str(m).contains("vector")).take(2) {
                    let mut c = nat.clone();
                    c[i].1 = mt;
                    emit(format!("squery | {} | {}", cols_str(&c), vals));
                }
                emit(format!("squery | {} | {}", cols_str(&nat[..m - 1]), vals));
            }
        }
    }
    // the tuple (i32, String, Vec<i32>)
    let t3 = tup3_shapes();
    let int = Ty::Native(NativeType::Int);
    let text = Ty::Native(NativeType::Text);
    let li = Ty::List(Box::new(int.clone()));
    let nat3 = vec![("a".to_owned(), int.clone()), ("b".to_owned(), text.clone()), ("c".to_owned(), li.clone())];
    let mut vars = vec![nat3.clone(), nat3[..2].to_vec(), vec![]];
    let mut four = nat3.clone();
    four.push(("d".to_owned(), int.clone()));
    vars.push(four);
    for i in 0..3 {
        for m in mutations(&nat3[i].1).into_iter().take(if thorough { 40 } else { 10 }) {
            let mut c = nat3.clone();
            c[i].1 = m;
            vars.push(c);
        }
    }
    for cols in &vars {
        emit(format!("bindrow tup3 | {} | {}", cols_str(cols), t3));
    }
    // by-name rows against marker lists that REPEAT a name (`… a = :v AND b = :v`): twice / three times, with and
    // without a field / key that no marker takes (the count of serialized COLUMNS then reaches the number of fields
    // although a field was never visited), for derived structs and for maps alike
    {
        let a = ("a".to_owned(), int.clone());
        let b = ("b".to_owned(), text.clone());
        let c = ("c".to_owned(), li.clone());
        let lists: Vec<Vec<(String, Ty)>> = vec![
            vec![a.clone(), b.clone()], vec![b.clone(), a.clone()], vec![a.clone(), a.clone()], vec![b.clone(), b.clone()],
            vec![a.clone(), a.clone(), b.clone()], vec![a.clone(), b.clone(), b.clone(), b.clone()], vec![a.clone(), a.clone(), a.clone()],
            vec![b.clone(), a.clone(), b.clone()], vec![a.clone()], vec![], vec![a.clone(), b.clone(), c.clone()],
            vec![c.clone(), b.clone(), a.clone()], vec![a.clone(), b.clone(), c.clone(), c.clone()], vec![c.clone(), c.clone(), a.clone()],
            vec![a.clone(), a.clone(), b.clone(), b.clone()], vec![a.clone(), b.clone(), a.clone()], vec![a.clone(), a.clone(), c.clone()],
            vec![b.clone(), b.clone(), b.clone()], vec![a.clone(), b.clone(), ("d".to_owned(), int.clone())], vec![a.clone(), a.clone(), ("d".to_owned(), int.clone())],
        ];
        let map2 = format!("a {} ; b {}", val(0, 0), val(1, 0));
        let map3 = format!("{} ; zz {}", map2, val(0, 0));
        for cols in &lists {
            emit(format!("bindrow struct2 | {} | {}", cols_str(cols), struct_shapes(2)));
            emit(format!("bindrow struct3 | {} | {}", cols_str(cols), struct_shapes(3)));
            emit(format!("bindrow structcba | {} | {}", cols_str(cols), struct_shapes_cba()));
            emit(format!("bindrow map | {} | {}", cols_str(cols), map2));
            emit(format!("bindrow map | {} | {}", cols_str(cols), map3));
            // one marker's type mutated
            if !cols.is_empty() {
                let i = rng.below(cols.len() as u64) as usize;
                for m in mutations(&cols[i].1).into_iter().take(if thorough { 6 } else { 2 }) {
                    let mut cc = cols.clone();
                    cc[i].1 = m;
                    emit(format!("bindrow struct2 | {} | {}", cols_str(&cc), struct_shapes(2)));
                    emit(format!("bindrow struct3 | {} | {}", cols_str(&cc), struct_shapes(3)));
                    emit(format!("bindrow structcba | {} | {}", cols_str(&cc), struct_shapes_cba()));
                }
            }
        }
    }
    // the other arities and the two empty row types
    let t1 = format!("x {}", 42i32.shape(false));
    let t2 = format!("x {} ; x {}", 42i32.shape(false), "abc".to_owned().shape(false));
    let mut small: Vec<Vec<(String, Ty)>> = vec![vec![], nat3[..1].to_vec(), nat3[..2].to_vec(), nat3.clone()];
    for m in mutations(&int).into_iter().take(if thorough { 30 } else { 8 }) {
        small.push(vec![("a".to_owned(), m.clone())]);
        small.push(vec![("a".to_owned(), int.clone()), ("b".to_owned(), m)]);
    }
    for cols in &small {
        emit(format!("bindrow tup1 | {} | {}", cols_str(cols), t1));
        emit(format!("bindrow tup2 | {} | {}", cols_str(cols), t2));
        emit(format!("bindrow unit | {} | -", cols_str(cols)));
        emit(format!("bindrow u80 | {} | -", cols_str(cols)));
    }
    // frames
    let sers: Vec<&Entry> = all_entries().iter().filter(|e| e.add.is_some() && e.dynval.is_none()).collect();
    for _ in 0..(if thorough { 300 } else { 40 }) {
        let mut sv = SerializedValues::new();
        for _ in 0..rng.below(6) {
            let e = *rng.pick(&sers);
            let _ = (e.add.unwrap())(rng.below(4) as u32, &to_column_type(&e.natural), &mut sv);
        }
        let mut buf = Vec::new();
        sv.write_to_request(&mut buf);
        emit(format!("frame {}", hex(&buf)));
        let mut more = buf.clone();
        let extra = 1 + rng.below(6) as usize;
        more.extend_from_slice(&rng.bytes(extra));
        emit(format!("frame {}", hex(&more)));
        if buf.len() > 2 {
            let cut = rng.below(buf.len() as u64) as usize;
            emit(format!("frame {}", hex(&buf[..cut])));
            let mut cnt = buf.clone();
            cnt[1] = cnt[1].wrapping_add(1);
            emit(format!("frame {}", hex(&cnt)));
            let mut neg = buf.clone();
            let p = 2 + rng.below((buf.len() - 2) as u64) as usize;
            neg[p] ^= 0x80;
            emit(format!("frame {}", hex(&neg)));
        }
    }
    for h in ["-", "00", "0000", "0001", "0001ffffffff", "0001fffffffe", "0001fffffffd", "000180000000", "00010000000161", "0002ffffffff", "ffff"] {
        emit(format!("frame {}", h));
    }
}

//! Does a dynamic `CqlValue` fit a column type?  Written from the documentation and the property statement
//! (docs/source/data-types/*.md, the CQL v4 value shapes), NOT from the Lean model or from `serialize_cql_value`:
//! the oracle side of the `dyn` cases.  Sizes (cells / collections of 2^31) are not considered.
//!
//! Rules:
//!  * a leaf value fits exactly the native(s) the documentation pairs its Rust carrier with (`Ascii` / `Text`
//!    values fit both string natives);
//!  * `Empty` (the legacy zero-length value) fits every type except counter, duration, list, set, map and UDT;
//!  * a `List` / `Set` / `Vector` value (all three carry a `Vec<CqlValue>`) fits `list<E>` / `set<E>` when every
//!    element fits `E`, and `vector<E, d>` when moreover it has exactly `d` elements;
//!  * a `Map` value fits `map<K, V>` when every key fits `K` and every value fits `V`;
//!  * a `Tuple` value fits `tuple<T1..Tn>` when it has AT MOST n fields and every non-null field fits its type
//!    (missing trailing fields are null);
//!  * a `UserDefinedType` value fits a UDT column when keyspace and type name are equal, EVERY field the value
//!    names exists in the column's type, and every non-null field fits the type of the like-named field (fields
//!    the value does not name are null).  A value naming a field the type lacks never fits - not even when
//!    that field is null or when the value has fewer fields than the type.
use crate::c01::Ty;
use scylla_cql_core::frame::response::result::NativeType as N;
use scylla_cql_core::value::CqlValue;

fn leaf_natives(v: &CqlValue) -> Option<&'static [N]> {
    Some(match v {
        CqlValue::Ascii(_) | CqlValue::Text(_) => &[N::Ascii, N::Text],
        CqlValue::Boolean(_) => &[N::Boolean],
        CqlValue::Blob(_) => &[N::Blob],
        CqlValue::Counter(_) => &[N::Counter],
        CqlValue::Decimal(_) => &[N::Decimal],
        CqlValue::Date(_) => &[N::Date],
        CqlValue::Double(_) => &[N::Double],
        CqlValue::Duration(_) => &[N::Duration],
        CqlValue::Float(_) => &[N::Float],
        CqlValue::Int(_) => &[N::Int],
        CqlValue::BigInt(_) => &[N::BigInt],
        CqlValue::Timestamp(_) => &[N::Timestamp],
        CqlValue::Inet(_) => &[N::Inet],
        CqlValue::SmallInt(_) => &[N::SmallInt],
        CqlValue::TinyInt(_) => &[N::TinyInt],
        CqlValue::Time(_) => &[N::Time],
        CqlValue::Timeuuid(_) => &[N::Timeuuid],
        CqlValue::Uuid(_) => &[N::Uuid],
        CqlValue::Varint(_) => &[N::Varint],
        _ => return None,
    })
}

pub fn dyn_fits(v: &CqlValue, t: &Ty) -> bool {
    if let Some(ns) = leaf_natives(v) {
        return matches!(t, Ty::Native(n) if ns.contains(n));
    }
    match v {
        CqlValue::Empty => !matches!(t, Ty::Native(N::Counter) | Ty::Native(N::Duration) | Ty::List(_) | Ty::Set(_) | Ty::Map(..) | Ty::Udt(..)),
        CqlValue::List(xs) | CqlValue::Set(xs) | CqlValue::Vector(xs) => match t {
            Ty::List(e) | Ty::Set(e) => xs.iter().all(|x| dyn_fits(x, e)),
            Ty::Vector(e, d) => xs.len() == *d as usize && xs.iter().all(|x| dyn_fits(x, e)),
            _ => false,
        },
        CqlValue::Map(kvs) => match t {
            Ty::Map(kt, vt) => kvs.iter().all(|(k, v)| dyn_fits(k, kt) && dyn_fits(v, vt)),
            _ => false,
        },
        CqlValue::Tuple(fs) => match t {
            Ty::Tuple(ts) => fs.len() <= ts.len() && fs.iter().zip(ts).all(|(f, t)| f.as_ref().is_none_or(|f| dyn_fits(f, t))),
            _ => false,
        },
        CqlValue::UserDefinedType { keyspace, name, fields } => match t {
            Ty::Udt(ks, tname, tfields) => {
                keyspace == ks
                    && name == tname
                    && fields.iter().enumerate().all(|(i, (fname, fval))| {
                        // a name given twice: the later entry is the one that counts
                        let shadowed = fields[i + 1..].iter().any(|(n, _)| n == fname);
                        match tfields.iter().find(|(n, _)| n == fname) {
                            None => false,
                            Some((_, ft)) => shadowed || fval.as_ref().is_none_or(|x| dyn_fits(x, ft)),
                        }
                    })
            }
            _ => false,
        },
        _ => false,
    }
}

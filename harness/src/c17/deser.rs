// ------------------------------------------------------------------------------------------------
// `deser`: `T::deserialize(typ, cell)` called WITHOUT `type_check` on arbitrary (carrier, column type) pairs, under
// catch_unwind — ties the model's panic predicate (`deserPanics`): a pair that passes type_check never panics.
// ------------------------------------------------------------------------------------------------

/// a valid, fully populated cell body of column type `t` (two elements per list / set, one map entry, every
/// tuple / UDT field present; vectors with their dimension)
fn sample_cell(t: &Ty) -> Vec<u8> {
    use NativeType::*;
    fn framed(out: &mut Vec<u8>, cell: &[u8]) {
        out.extend_from_slice(&(cell.len() as i32).to_be_bytes());
        out.extend_from_slice(cell);
    }
    match t {
        Ty::Native(n) => match n {
            Ascii | Text => b"ab".to_vec(),
            Blob => vec![1, 2],
            Boolean => vec![1],
            TinyInt => vec![7],
            SmallInt => vec![0, 7],
            Int | Float | Date => vec![0, 0, 0, 1],
            Inet => vec![127, 0, 0, 1],
            BigInt | Counter | Timestamp | Time | Double => vec![0, 0, 0, 0, 0, 0, 0, 1],
            Uuid | Timeuuid => vec![0x11; 16],
            Varint => vec![1],
            Decimal => vec![0, 0, 0, 1, 5],
            Duration => vec![2, 4, 6],
            _ => vec![],
        },
        Ty::List(e) | Ty::Set(e) => {
            let mut out = 2i32.to_be_bytes().to_vec();
            for _ in 0..2 {
                framed(&mut out, &sample_cell(e));
            }
            out
        }
        Ty::Map(k, v) => {
            let mut out = 1i32.to_be_bytes().to_vec();
            framed(&mut out, &sample_cell(k));
            framed(&mut out, &sample_cell(v));
            out
        }
        Ty::Tuple(ts) => {
            let mut out = Vec::new();
            ts.iter().for_each(|t| framed(&mut out, &sample_cell(t)));
            out
        }
        Ty::Udt(_, _, fs) => {
            let mut out = Vec::new();
            fs.iter().for_each(|(_, t)| framed(&mut out, &sample_cell(t)));
            out
        }
        Ty::Vector(e, d) => {
            let mut out = Vec::new();
            let fixed = crate::c01::size_for_vector(e).is_some();
            for _ in 0..*d {
                let c = sample_cell(e);
                if !fixed {
                    out.push(c.len() as u8); // unsigned vint of a length < 128
                }
                out.extend_from_slice(&c);
            }
            out
        }
    }
}

fn run_deser(e: &Entry, ty: &Ty, ctx: &mut Ctx) -> String {
    let (Some(tc), Some(de)) = (e.tc, e.deser) else { return "bad-case no-deserialize-impl".to_owned() };
    let ct = to_column_type(ty);
    let cell = sample_cell(ty);
    let checked = tc(&ct).is_ok();
    let res = std::panic::catch_unwind(std::panic::AssertUnwindSafe(|| de(&ct, Some(&cell))));
    match res {
        Err(_) => {
            if checked {
                ctx.fail(format!("reinterpretation: {}::deserialize panicked on a column type that PASSED type_check", e.label));
            }
            "panics".to_owned()
        }
        Ok(r) => {
            if checked && r.is_err() && compat(&e.cd, ty, Side::De, true) == Some(true) && !ty_str(ty).contains("vector 0") {
                // a valid cell of a documented pair decodes (value-level corner cases are C01's subject: only reported)
                let _ = r;
            }
            "safe".to_owned()
        }
    }
}

// ------------------------------------------------------------------------------------------------
// `deser`: `T::deserialize(typ, cell)` called WITHOUT `type_check` on arbitrary (carrier, column type) pairs, under
// catch_unwind — ties the model's panic predicate (`deserPanics`): a pair that passes type_check never panics.
// ------------------------------------------------------------------------------------------------

/// a valid, fully populated cell body of column type `t` (two elements per list / set, one map entry, every
/// tuple / UDT field present; vectors with their dimension)
fn sample_cell(t: &Ty, variant: u32) -> Vec<u8> {
    use NativeType::*;
    fn framed(out: &mut Vec<u8>, cell: &[u8]) {
        out.extend_from_slice(&(cell.len() as i32).to_be_bytes());
        out.extend_from_slice(cell);
    }
    match t {
        Ty::Native(n) => match n {
            Ascii | Text => b"ab".to_vec(),
            Blob => vec![1, 2],
            Boolean => vec![1],
            TinyInt => vec![7],
            SmallInt => vec![0, 7],
            Int | Float | Date => vec![0, 0, 0, 1],
            Inet => vec![127, 0, 0, 1],
            BigInt | Counter | Timestamp | Time | Double => vec![0, 0, 0, 0, 0, 0, 0, 1],
            Uuid | Timeuuid => vec![0x11; 16],
            Varint => vec![1],
            Decimal => vec![0, 0, 0, 1, 5],
            Duration => vec![2, 4, 6],
            _ => vec![],
        },
        Ty::List(e) | Ty::Set(e) => {
            // variant 1: empty collections; variant 2: three elements
            let n = match variant { 1 => 0, 2 => 3, _ => 2 };
            let mut out = (n as i32).to_be_bytes().to_vec();
            for _ in 0..n {
                framed(&mut out, &sample_cell(e, variant));
            }
            out
        }
        Ty::Map(k, v) => {
            let n = match variant { 1 => 0, 2 => 2, _ => 1 };
            let mut out = (n as i32).to_be_bytes().to_vec();
            for _ in 0..n {
                framed(&mut out, &sample_cell(k, variant));
                framed(&mut out, &sample_cell(v, variant));
            }
            out
        }
        Ty::Tuple(ts) => {
            let mut out = Vec::new();
            ts.iter().for_each(|t| framed(&mut out, &sample_cell(t, variant)));
            out
        }
        Ty::Udt(_, _, fs) => {
            let mut out = Vec::new();
            fs.iter().for_each(|(_, t)| framed(&mut out, &sample_cell(t, variant)));
            out
        }
        Ty::Vector(e, d) => {
            let mut out = Vec::new();
            let fixed = crate::c01::size_for_vector(e).is_some();
            for _ in 0..*d {
                let c = sample_cell(e, variant);
                if !fixed {
                    out.push(c.len() as u8); // unsigned vint of a length < 128
                }
                out.extend_from_slice(&c);
            }
            out
        }
    }
}

fn run_deser(e: &Entry, variant: u32, ty: &Ty, ctx: &mut Ctx) -> String {
    let (Some(tc), Some(de)) = (e.tc, e.deser) else { return "bad-case no-deserialize-impl".to_owned() };
    let ct = to_column_type(ty);
    let cell = sample_cell(ty, variant);
    let checked = tc(&ct).is_ok();
    let res = std::panic::catch_unwind(std::panic::AssertUnwindSafe(|| de(&ct, Some(&cell))));
    match res {
        Err(_) => {
            if checked {
                ctx.fail(format!("reinterpretation: {}::deserialize panicked on a column type that PASSED type_check", e.label));
            }
            "panics".to_owned()
        }
        Ok(r) => {
            if checked && r.is_err() && compat(&e.cd, ty, Side::De, true) == Some(true) && !ty_str(ty).contains("vector 0") {
                // a valid cell of a documented pair decodes (value-level corner cases are C01's subject: only reported)
                let _ = r;
            }
            "safe".to_owned()
        }
    }
}

macro_rules! row_deser {
    ($label:expr, $iter:expr, $($name:literal => $t:ty),+ $(,)?) => {
        match $label {
            $($name => Some(<$t as DeserializeRow>::deserialize($iter).is_ok()),)+
            _ => None,
        }
    };
}

/// `deserrow`: `<R as DeserializeRow>::deserialize(column_iterator)` WITHOUT `type_check` over one valid row of the
/// given column types, under catch_unwind (the row-level sites: a missing column `unreachable!`, the excess-column
/// `assert!`, and every column reader's own sites).
fn run_deserrow(label: &str, tys: &[Ty], ctx: &mut Ctx) -> String {
    let cts: Vec<ColumnType<'static>> = tys.iter().map(to_column_type).collect();
    let specs: Vec<ColumnSpec<'static>> =
        cts.iter().enumerate().map(|(i, ct)| ColumnSpec::owned(format!("c{}", i), ct.clone(), TableSpec::owned("ks".into(), "t".into()))).collect();
    let mut row = Vec::new();
    for t in tys {
        let c = sample_cell(t, 0);
        row.extend_from_slice(&(c.len() as i32).to_be_bytes());
        row.extend_from_slice(&c);
    }
    let bytes = Bytes::from(row);
    let checked = row_tc!(label, &specs,
        "Row" => Row,
        "ColumnIterator" => ColumnIterator,
        "()" => (),
        "(i32,)" => (i32,),
        "(i32,String)" => (i32, String),
        "(Option<i32>,Vec<String>,CqlValue)" => (Option<i32>, Vec<String>, CqlValue),
        "(i64,BTreeMap<i32,String>,(i32,f32),Option<HashSet<i32>>)" => (i64, BTreeMap<i32, String>, (i32, f32), Option<HashSet<i32>>),
    );
    let Some(checked) = checked else { return "bad-case".to_owned() };
    let res = std::panic::catch_unwind(std::panic::AssertUnwindSafe(|| {
        let iter = ColumnIterator::new(&specs, FrameSlice::new(&bytes));
        row_deser!(label, iter,
            "Row" => Row,
            "ColumnIterator" => ColumnIterator,
            "()" => (),
            "(i32,)" => (i32,),
            "(i32,String)" => (i32, String),
            "(Option<i32>,Vec<String>,CqlValue)" => (Option<i32>, Vec<String>, CqlValue),
            "(i64,BTreeMap<i32,String>,(i32,f32),Option<HashSet<i32>>)" => (i64, BTreeMap<i32, String>, (i32, f32), Option<HashSet<i32>>),
        )
    }));
    match res {
        Err(_) => {
            if checked.is_ok() {
                ctx.fail(format!("reinterpretation: <{}>::deserialize panicked on columns that PASSED the row type_check", label));
            }
            "panics".to_owned()
        }
        Ok(Some(ok)) => {
            if checked.is_ok() && !ok {
                ctx.fail(format!("a valid row of columns that passed the row type_check failed to decode into {}", label));
            }
            "safe".to_owned()
        }
        Ok(None) => "bad-case".to_owned(),
    }
}

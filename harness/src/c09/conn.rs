//! C09, connection-level glue: what the CALLER configured on a statement (consistency, serial consistency, timestamp,
//! tracing, page size, paging state, values, cached-metadata use) vs what the frames say that a real `Connection`
//! (`verif_hooks::connection::VerifConn`: OPTIONS/STARTUP handshake, `query_raw_with_consistency`,
//! `execute_raw_with_consistency`, `batch_with_consistency` incl. `prepare_batch`, `execute_iter`) puts on a socket.
//! The peer is a small scripted server in this file (SUPPORTED content is part of the case); it records every frame.
//!
//! Case: `sess <ext 0|1> <comps -|lz4|snappy|lz4+snappy> <rl N|int|x> <lwt N|u32|x> <tab 0|1> <cfgcomp none|lz4|snappy>
//!        <gen N|i64> <op> ...` with `<op>` one of
//!   query   <text> <cons|N> <serial D|N|Serial|LocalSerial> <ts|N> <tr> <page size|N> <paging state|N>
//!   execute <text> <id> <bind cols> <result cols> <result metadata id|N> <use cached 0|1>
//!           <cons|N> <serial> <ts|N> <tr> <page size|N> <paging state|N> <values>
//!   batch   <type> <cons|N> <serial> <ts|N> <tr> <q:text:id:cols | p:text:id:cols>... / <row>...
//!           (`q` = unprepared statement, id/cols = what the server answers if the driver PREPAREs that text;
//!            `p` = a statement prepared beforehand through `VerifConn::prepare`)
//!   iter    <text> <id> <bind cols> <result cols> <result metadata id|N> <cons|N> <serial> <ts|N> <tr> <page size>
//!           <paging state 1>,<paging state 2>,...|_ <values>
//! Output: `startup=<k>=<v>,...(sorted, hex) frames=<n> <header flags>:<opcode>:<uncompressed body hex> ...` (frames after
//! the handshake, in arrival order) or `err <label>`.
//! ORACLE (model-independent): the handshake advertises only what SUPPORTED offers plus the fixed identity; every later
//! frame has a valid header whose compression/tracing bits match the negotiated compression and the statement's tracing
//! setting, and its body reads back (spec parser of c09.rs) to what the caller configured.
use super::*;
use scylla::policies::timestamp_generator::TimestampGenerator;
use scylla::statement::batch::Batch as SBatch;
use scylla::statement::prepared::PreparedStatement;
use scylla::statement::unprepared::Statement;
use scylla::verif_hooks::connection::{VerifConn, VerifConnOptions};
use std::sync::{Arc, Mutex};
use tokio::io::{AsyncReadExt, AsyncWriteExt};
use tokio::net::TcpListener;

struct FixedGen(i64);
impl TimestampGenerator for FixedGen {
    fn next_timestamp(&self) -> i64 {
        self.0
    }
}

#[derive(Clone, Debug)]
struct Supported {
    ext: bool,
    comps: Vec<String>,
    rl: Option<String>,  // value after ERROR_CODE=
    lwt: Option<String>, // value after LWT_OPTIMIZATION_META_BIT_MASK=
    tab: bool,
}

#[derive(Clone, Debug, Default)]
struct Cfg {
    cons: Option<Consistency>,
    serial: Option<Option<SerialConsistency>>,
    ts: Option<i64>,
    tracing: bool,
}

#[derive(Clone, Debug)]
struct Prep {
    text: String,
    id: Vec<u8>,
    bind_cols: usize,
    result_cols: usize,
    mid: Option<Vec<u8>>,
}

#[derive(Clone, Debug)]
enum Op {
    Query { text: String, cfg: Cfg, page_size: Option<i32>, paging: Option<Vec<u8>> },
    Execute { prep: Prep, use_cached: bool, cfg: Cfg, page_size: Option<i32>, paging: Option<Vec<u8>>, values: Vec<Val> },
    Batch { ty: BatchType, cfg: Cfg, stmts: Vec<(bool, Prep)>, rows: Vec<Vec<Val>> }, // (prepared beforehand?, server's answer)
    Iter { prep: Prep, cfg: Cfg, page_size: i32, states: Vec<Vec<u8>>, values: Vec<Val> },
}

struct Case {
    sup: Supported,
    cfgcomp: Option<Compression>,
    genr: Option<i64>,
    op: Op,
}

fn cfg_toks(w: &[&str]) -> Option<Cfg> {
    Some(Cfg {
        cons: if w[0] == "N" { None } else { Some(cons_tok(w[0])?) },
        serial: match w[1] {
            "D" => None,
            "N" => Some(None),
            "Serial" => Some(Some(SerialConsistency::Serial)),
            "LocalSerial" => Some(Some(SerialConsistency::LocalSerial)),
            _ => return None,
        },
        ts: opt_num(w[2])?,
        tracing: match w[3] {
            "0" => false,
            "1" => true,
            _ => return None,
        },
    })
}

fn page_size_tok(s: &str) -> Option<Option<i32>> {
    let p: Option<i32> = opt_num(s)?;
    if let Some(v) = p {
        if v <= 0 {
            return None; // PageSize::new refuses it before anything reaches the connection
        }
    }
    Some(p)
}

fn parse_case(w: &[&str]) -> Option<Case> {
    if w.len() < 9 || w[0] != "sess" {
        return None;
    }
    let b = |s: &str| match s {
        "0" => Some(false),
        "1" => Some(true),
        _ => None,
    };
    let ext_field = |s: &str| -> Option<Option<String>> {
        if s == "N" { Some(None) } else if s.chars().all(|c| c.is_ascii_alphanumeric() || c == '-') { Some(Some(s.to_string())) } else { None }
    };
    let sup = Supported {
        ext: b(w[1])?,
        comps: if w[2] == "-" { vec![] } else { w[2].split('+').map(|s| s.to_string()).collect() },
        rl: ext_field(w[3])?,
        lwt: ext_field(w[4])?,
        tab: b(w[5])?,
    };
    if sup.comps.iter().any(|c| c != "lz4" && c != "snappy") {
        return None;
    }
    let cfgcomp = comp_tok(w[6])?;
    let genr: Option<i64> = opt_num(w[7])?;
    let f = &w[9..];
    let prep_of = |text: &str, id: &str, bind: &str, rcols: &str, mid: &str| -> Option<Prep> {
        let p = Prep {
            text: str_tok(text)?,
            id: bytes_tok(id)?,
            bind_cols: bind.parse().ok()?,
            result_cols: rcols.parse().ok()?,
            mid: opt_bytes_tok(mid)?,
        };
        // with the extension a PREPARED response always carries a result metadata id, without it never
        if p.mid.is_some() != sup.ext || p.bind_cols > 300 || p.result_cols > 300 || p.text.is_empty() {
            return None;
        }
        Some(p)
    };
    let op = match w[8] {
        "query" if f.len() == 7 => Op::Query {
            text: str_tok(f[0])?,
            cfg: cfg_toks(&f[1..5])?,
            page_size: page_size_tok(f[5])?,
            paging: opt_bytes_tok(f[6])?,
        },
        "execute" if f.len() == 13 => Op::Execute {
            prep: prep_of(f[0], f[1], f[2], f[3], f[4])?,
            use_cached: b(f[5])?,
            cfg: cfg_toks(&f[6..10])?,
            page_size: page_size_tok(f[10])?,
            paging: opt_bytes_tok(f[11])?,
            values: values_tok(f[12])?,
        },
        "iter" if f.len() == 12 => {
            let states = if f[10] == "_" { vec![] } else { f[10].split(',').map(bytes_tok).collect::<Option<Vec<_>>>()? };
            if states.iter().any(|s| s.is_empty()) || states.len() > 50 {
                return None; // an empty paging state in a response ends the iteration in some servers' dialect; keep it unambiguous
            }
            Op::Iter {
                prep: prep_of(f[0], f[1], f[2], f[3], f[4])?,
                cfg: cfg_toks(&f[5..9])?,
                page_size: page_size_tok(f[9])??,
                states,
                values: values_tok(f[11])?,
            }
        }
        "batch" if f.len() >= 6 => {
            let ty = match f[0] {
                "Logged" => BatchType::Logged,
                "Unlogged" => BatchType::Unlogged,
                "Counter" => BatchType::Counter,
                _ => return None,
            };
            let cfg = cfg_toks(&f[1..5])?;
            let rest = &f[5..];
            let slash = rest.iter().position(|x| *x == "/")?;
            let mut stmts = Vec::new();
            for t in &rest[..slash] {
                let parts: Vec<&str> = t.split(':').collect();
                if parts.len() != 4 {
                    return None;
                }
                let mid = if sup.ext { "00" } else { "N" };
                let p = prep_of(parts[1], parts[2], parts[3], "0", mid)?;
                stmts.push((parts[0] == "p", p));
                if parts[0] != "p" && parts[0] != "q" {
                    return None;
                }
            }
            // one text = one server answer
            for (_, a) in &stmts {
                for (_, b) in &stmts {
                    if a.text == b.text && (a.id != b.id || a.bind_cols != b.bind_cols) {
                        return None;
                    }
                }
            }
            let rows = rest[slash + 1..].iter().map(|t| values_tok(t)).collect::<Option<Vec<_>>>()?;
            if stmts.len() > 200 || rows.len() > 200 {
                return None;
            }
            Op::Batch { ty, cfg, stmts, rows }
        }
        _ => return None,
    };
    Some(Case { sup, cfgcomp, genr, op })
}

// ------------------------------------------------------------------------------------------------
// the scripted server
// ------------------------------------------------------------------------------------------------

#[derive(Clone, Debug)]
struct Frame {
    flags: u8,
    version: u8,
    opcode: u8,
    declared_len: usize,
    raw_body: Vec<u8>,
}

fn w_short(b: &mut Vec<u8>, v: u16) {
    b.extend_from_slice(&v.to_be_bytes());
}
fn w_int(b: &mut Vec<u8>, v: i32) {
    b.extend_from_slice(&v.to_be_bytes());
}
fn w_string(b: &mut Vec<u8>, s: &str) {
    w_short(b, s.len() as u16);
    b.extend_from_slice(s.as_bytes());
}
fn w_short_bytes(b: &mut Vec<u8>, v: &[u8]) {
    w_short(b, v.len() as u16);
    b.extend_from_slice(v);
}

fn body_supported(s: &Supported) -> Vec<u8> {
    let mut m: Vec<(String, Vec<String>)> = vec![("CQL_VERSION".into(), vec!["3.0.0".into()])];
    m.push(("COMPRESSION".into(), s.comps.clone()));
    if s.ext {
        m.push(("SCYLLA_USE_METADATA_ID".into(), vec!["".into()]));
    }
    if let Some(v) = &s.rl {
        m.push(("SCYLLA_RATE_LIMIT_ERROR".into(), vec![format!("ERROR_CODE={v}")]));
    }
    if let Some(v) = &s.lwt {
        m.push(("SCYLLA_LWT_ADD_METADATA_MARK".into(), vec![format!("LWT_OPTIMIZATION_META_BIT_MASK={v}")]));
    }
    if s.tab {
        m.push(("TABLETS_ROUTING_V1".into(), vec!["".into()]));
    }
    let mut b = Vec::new();
    w_short(&mut b, m.len() as u16);
    for (k, vs) in m {
        w_string(&mut b, &k);
        w_short(&mut b, vs.len() as u16);
        for v in vs {
            w_string(&mut b, &v);
        }
    }
    b
}

/// metadata: flags, col count, [paging state], [new id], global table spec, cols (blob)
fn write_metadata(b: &mut Vec<u8>, cols: usize, paging: Option<&[u8]>) {
    let mut flags = 0x0001;
    if paging.is_some() {
        flags |= 0x0002;
    }
    w_int(b, flags);
    w_int(b, cols as i32);
    if let Some(p) = paging {
        w_int(b, p.len() as i32);
        b.extend_from_slice(p);
    }
    w_string(b, "ks");
    w_string(b, "t");
    for i in 0..cols {
        w_string(b, &format!("c{i}"));
        w_short(b, 0x0003);
    }
}

fn body_prepared(p: &Prep) -> Vec<u8> {
    let mut b = Vec::new();
    w_int(&mut b, 4);
    w_short_bytes(&mut b, &p.id);
    if let Some(m) = &p.mid {
        w_short_bytes(&mut b, m);
    }
    // prepared metadata: flags (global table spec), columns, pk count 0
    w_int(&mut b, 0x0001);
    w_int(&mut b, p.bind_cols as i32);
    w_int(&mut b, 0);
    w_string(&mut b, "ks");
    w_string(&mut b, "t");
    for i in 0..p.bind_cols {
        w_string(&mut b, &format!("b{i}"));
        w_short(&mut b, 0x0003);
    }
    write_metadata(&mut b, p.result_cols, None);
    b
}

fn body_rows(cols: usize, paging: Option<&[u8]>, skip_metadata: bool) -> Vec<u8> {
    let mut b = Vec::new();
    w_int(&mut b, 2);
    if skip_metadata {
        let mut flags = 0x0004;
        if paging.is_some() {
            flags |= 0x0002;
        }
        w_int(&mut b, flags);
        w_int(&mut b, cols as i32);
        if let Some(p) = paging {
            w_int(&mut b, p.len() as i32);
            b.extend_from_slice(p);
        }
    } else {
        write_metadata(&mut b, cols, paging);
    }
    w_int(&mut b, 0); // no rows
    b
}

fn resp_frame(stream: [u8; 2], opcode: u8, body: &[u8]) -> Vec<u8> {
    let mut f = vec![0x84, 0x00, stream[0], stream[1], opcode];
    f.extend_from_slice(&(body.len() as u32).to_be_bytes());
    f.extend_from_slice(body);
    f
}

fn long_string(body: &[u8]) -> Option<String> {
    if body.len() < 4 {
        return None;
    }
    let n = u32::from_be_bytes([body[0], body[1], body[2], body[3]]) as usize;
    String::from_utf8(body.get(4..4 + n)?.to_vec()).ok()
}

/// Serves ONE connection. `preps`: the server's PREPARED answers by statement text; `pages`: paging states the server
/// hands out on successive EXECUTEs (then none); `result_cols`: columns of RESULT/Rows answers.
async fn serve(listener: TcpListener, sup: Supported, preps: Vec<Prep>, pages: Vec<Vec<u8>>, log: Arc<Mutex<Vec<Frame>>>) {
    let Ok((mut sock, _)) = listener.accept().await else { return };
    let mut negotiated: Option<Compression> = None;
    let mut page_idx = 0usize;
    loop {
        let mut hdr = [0u8; 9];
        if sock.read_exact(&mut hdr).await.is_err() {
            return;
        }
        let len = u32::from_be_bytes([hdr[5], hdr[6], hdr[7], hdr[8]]) as usize;
        let mut raw = vec![0u8; len];
        if sock.read_exact(&mut raw).await.is_err() {
            return;
        }
        log.lock().unwrap().push(Frame { flags: hdr[1], version: hdr[0], opcode: hdr[4], declared_len: len, raw_body: raw.clone() });
        let body: Vec<u8> = if hdr[1] & 0x01 != 0 {
            match negotiated {
                Some(Compression::Lz4) if raw.len() >= 4 => {
                    let n = u32::from_be_bytes([raw[0], raw[1], raw[2], raw[3]]) as usize;
                    lz4_flex::decompress(&raw[4..], n).unwrap_or_default()
                }
                Some(Compression::Snappy) => snap::raw::Decoder::new().decompress_vec(&raw).unwrap_or_default(),
                _ => vec![],
            }
        } else {
            raw
        };
        let stream = [hdr[2], hdr[3]];
        let reply = match hdr[4] {
            0x05 => resp_frame(stream, 0x06, &body_supported(&sup)),
            0x01 => {
                // STARTUP: remember the negotiated compression
                let mut rd = super::Rd { b: &body, pos: 0 };
                if let Ok(n) = rd.short() {
                    for _ in 0..n {
                        let (Ok(k), Ok(v)) = (rd.string(), rd.string()) else { break };
                        if k == b"COMPRESSION" {
                            negotiated = match v {
                                b"lz4" => Some(Compression::Lz4),
                                b"snappy" => Some(Compression::Snappy),
                                _ => None,
                            };
                        }
                    }
                }
                resp_frame(stream, 0x02, &[])
            }
            0x09 => {
                let text = long_string(&body).unwrap_or_default();
                match preps.iter().find(|p| p.text == text) {
                    Some(p) => resp_frame(stream, 0x08, &body_prepared(p)),
                    None => {
                        let mut e = Vec::new();
                        w_int(&mut e, 0x2000);
                        w_string(&mut e, "syntax error");
                        resp_frame(stream, 0x00, &e)
                    }
                }
            }
            0x0A => {
                // EXECUTE: Rows with the scripted paging state; metadata skipped iff the request said so
                let id_len = if body.len() >= 2 { u16::from_be_bytes([body[0], body[1]]) as usize } else { 0 };
                let id = body.get(2..2 + id_len).unwrap_or(&[]).to_vec();
                let p = preps.iter().find(|p| p.id == id);
                let mut off = 2 + id_len;
                if sup.ext {
                    let l = body.get(off..off + 2).map(|x| u16::from_be_bytes([x[0], x[1]]) as usize).unwrap_or(0);
                    off += 2 + l;
                }
                let skip = body.get(off + 2).map(|f| f & 0x02 != 0).unwrap_or(false);
                let paging = pages.get(page_idx).cloned();
                page_idx += 1;
                let cols = p.map(|p| p.result_cols).unwrap_or(0);
                resp_frame(stream, 0x08, &body_rows(cols, paging.as_deref(), skip))
            }
            _ => {
                let mut v = Vec::new();
                w_int(&mut v, 1); // RESULT/Void
                resp_frame(stream, 0x08, &v)
            }
        };
        if sock.write_all(&reply).await.is_err() {
            return;
        }
    }
}

// ------------------------------------------------------------------------------------------------
// driving the real connection
// ------------------------------------------------------------------------------------------------

fn apply_cfg_stmt(s: &mut Statement, c: &Cfg) {
    if let Some(x) = c.cons {
        s.set_consistency(x);
    }
    if let Some(x) = c.serial {
        s.set_serial_consistency(x);
    }
    s.set_timestamp(c.ts);
    s.set_tracing(c.tracing);
}

fn apply_cfg_prep(s: &mut PreparedStatement, c: &Cfg) {
    if let Some(x) = c.cons {
        s.set_consistency(x);
    }
    if let Some(x) = c.serial {
        s.set_serial_consistency(x);
    }
    s.set_timestamp(c.ts);
    s.set_tracing(c.tracing);
}

fn rows_typed(rows: &[Vec<Val>]) -> Vec<Vec<Cell>> {
    rows.iter().map(|r| r.iter().map(cell_of).collect()).collect()
}

fn paging_of(p: &Option<Vec<u8>>) -> PagingState {
    match p {
        Some(b) => PagingState::new_from_raw_bytes(b.as_slice()),
        None => PagingState::start(),
    }
}

async fn drive(case: &Case, addr: std::net::SocketAddr) -> Result<(), String> {
    let options = VerifConnOptions {
        timestamp_generator: case.genr.map(|g| Arc::new(FixedGen(g)) as Arc<dyn TimestampGenerator>),
        compression: case.cfgcomp,
        ..Default::default()
    };
    let conn = VerifConn::open(addr, options).await.map_err(|e| format!("open:{}", e.chars().take(40).collect::<String>()))?;
    match &case.op {
        Op::Query { text, cfg, page_size, paging } => {
            let mut s = Statement::new(text.clone());
            apply_cfg_stmt(&mut s, cfg);
            let _ = conn.query(&s, *page_size, paging_of(paging)).await;
        }
        Op::Execute { prep, use_cached, cfg, page_size, paging, values } => {
            let mut ps = conn.prepare(&Statement::new(prep.text.clone())).await.map_err(|e| format!("prepare:{e}"))?;
            apply_cfg_prep(&mut ps, cfg);
            ps.set_use_cached_result_metadata(*use_cached);
            let sv = mk_values(values).map_err(|e| format!("values:{e}"))?;
            let _ = conn.execute(&ps, &sv, *page_size, paging_of(paging)).await;
        }
        Op::Iter { prep, cfg, page_size, values, .. } => {
            let mut ps = conn.prepare(&Statement::new(prep.text.clone())).await.map_err(|e| format!("prepare:{e}"))?;
            apply_cfg_prep(&mut ps, cfg);
            ps.set_page_size(*page_size);
            let sv = mk_values(values).map_err(|e| format!("values:{e}"))?;
            if let Ok(pager) = conn.execute_iter(ps, sv).await {
                // drain: every page is requested
                use futures::StreamExt;
                if let Ok(mut stream) = pager.rows_stream::<scylla::value::Row>() {
                    while let Some(r) = stream.next().await {
                        if r.is_err() {
                            break;
                        }
                    }
                }
            }
        }
        Op::Batch { ty, cfg, stmts, rows } => {
            let mut b = SBatch::new(*ty);
            for (prepared, p) in stmts {
                if *prepared {
                    let ps = conn.prepare(&Statement::new(p.text.clone())).await.map_err(|e| format!("prepare:{e}"))?;
                    b.append_statement(ps);
                } else {
                    b.append_statement(Statement::new(p.text.clone()));
                }
            }
            if let Some(x) = cfg.cons {
                b.set_consistency(x);
            }
            if let Some(x) = cfg.serial {
                b.set_serial_consistency(x);
            }
            b.set_timestamp(cfg.ts);
            b.set_tracing(cfg.tracing);
            let typed = rows_typed(rows);
            let _ = conn.batch(&b, &typed).await;
        }
    }
    Ok(())
}

// ------------------------------------------------------------------------------------------------
// oracle
// ------------------------------------------------------------------------------------------------

const DEFAULT_CONSISTENCY: Consistency = Consistency::LocalQuorum;

fn expected_params(case: &Case, cfg: &Cfg, page_size: Option<i32>, paging: Option<Vec<u8>>, skip: bool, values: Vec<Val>) -> Params {
    Params {
        cons: cfg.cons.unwrap_or(DEFAULT_CONSISTENCY),
        serial: cfg.serial.flatten(),
        ts: cfg.ts.or(case.genr),
        page_size,
        paging,
        skip,
        values,
    }
}

/// What a prepared statement's EXECUTE must say about result metadata: it may be skipped only when the driver has cached
/// columns for it and either the caller allowed it or the server can tell the driver about changes (metadata-id extension);
/// a result metadata id is sent iff the extension was negotiated.
fn expected_execute(case: &Case, prep: &Prep, use_cached: bool, cfg: &Cfg, page_size: Option<i32>, paging: Option<Vec<u8>>, values: Vec<Val>) -> Asked {
    let ext = case.sup.ext;
    let skip = prep.result_cols != 0 && (use_cached || ext);
    let mid = if ext { Some(if skip { prep.mid.clone().unwrap_or_default() } else { vec![] }) } else { None };
    Asked::Execute(prep.id.clone(), mid, expected_params(case, cfg, page_size, paging, skip, values))
}

fn effective_compression(case: &Case) -> Option<Compression> {
    case.cfgcomp.filter(|c| {
        let name = match c {
            Compression::Lz4 => "lz4",
            Compression::Snappy => "snappy",
        };
        case.sup.comps.iter().any(|x| x == name)
    })
}

fn check_frame(f: &Frame, comp: Option<Compression>, tracing: bool, asked: &Asked) -> Result<Vec<u8>, String> {
    expect("version byte", f.version, 0x04)?;
    expect("frame flags byte", f.flags, (if comp.is_some() { 0x01 } else { 0 }) | (if tracing { 0x02 } else { 0 }))?;
    expect("opcode", f.opcode, spec_opcode(asked))?;
    expect("length field vs bytes on the socket", f.declared_len, f.raw_body.len())?;
    let body = decompressed(f, comp)?;
    check_body(asked, &body)?;
    Ok(body)
}

fn decompressed(f: &Frame, comp: Option<Compression>) -> Result<Vec<u8>, String> {
    match (f.flags & 0x01 != 0, comp) {
        (false, _) => Ok(f.raw_body.clone()),
        (true, None) => Err("compressed frame although no compression was negotiated".into()),
        // reference decoders (not the crate's own frame::decompress, which the `decomp` cases judge separately)
        (true, Some(Compression::Lz4)) => {
            if f.raw_body.len() < 4 {
                return Err("LZ4 body shorter than its length prefix".into());
            }
            let n = u32::from_be_bytes([f.raw_body[0], f.raw_body[1], f.raw_body[2], f.raw_body[3]]) as usize;
            let d = lz4_flex::decompress(&f.raw_body[4..], n).map_err(|e| format!("LZ4 body does not decompress: {e}"))?;
            if d.len() != n {
                return Err(format!("LZ4 length prefix {n}, body decompresses to {} bytes", d.len()));
            }
            Ok(d)
        }
        (true, Some(Compression::Snappy)) => {
            snap::raw::Decoder::new().decompress_vec(&f.raw_body).map_err(|e| format!("Snappy body does not decompress: {e}"))
        }
    }
}

pub(super) fn run(case_line: &str, ctx: &mut Ctx) -> String {
    let w: Vec<&str> = case_line.split_whitespace().collect();
    let Some(case) = parse_case(&w) else { return "bad-case".into() };
    // the server's script
    let (preps, pages): (Vec<Prep>, Vec<Vec<u8>>) = match &case.op {
        Op::Query { .. } => (vec![], vec![]),
        Op::Execute { prep, .. } => (vec![prep.clone()], vec![]),
        Op::Iter { prep, states, .. } => (vec![prep.clone()], states.clone()),
        Op::Batch { stmts, .. } => (stmts.iter().map(|(_, p)| p.clone()).collect(), vec![]),
    };
    let log: Arc<Mutex<Vec<Frame>>> = Arc::new(Mutex::new(Vec::new()));
    let rt = crate::mockcluster::runtime(1);
    let res: Result<(), String> = rt.block_on(async {
        let listener = TcpListener::bind("127.0.0.1:0").await.map_err(|e| format!("bind:{e}"))?;
        let addr = listener.local_addr().unwrap();
        let server = tokio::spawn(serve(listener, case.sup.clone(), preps, pages, Arc::clone(&log)));
        let r = tokio::time::timeout(std::time::Duration::from_secs(20), drive(&case, addr)).await;
        // let a background pager / in-flight write finish
        tokio::time::sleep(std::time::Duration::from_millis(2)).await;
        server.abort();
        match r {
            Ok(x) => x,
            Err(_) => Err("timeout".into()),
        }
    });
    if let Err(e) = res {
        return format!("err {e}");
    }
    let frames = log.lock().unwrap().clone();
    let comp = effective_compression(&case);

    // ---- handshake
    let mut out = String::new();
    let Some(startup) = frames.iter().find(|f| f.opcode == 0x01) else { return "err no-startup".into() };
    let mut opts: Vec<(Vec<u8>, Vec<u8>)> = Vec::new();
    {
        let mut rd = super::Rd { b: &startup.raw_body, pos: 0 };
        let n = rd.short().unwrap_or(0);
        for _ in 0..n {
            let (Ok(k), Ok(v)) = (rd.string(), rd.string()) else {
                ctx.fail("STARTUP body is not a [string map]");
                break;
            };
            opts.push((k.to_vec(), v.to_vec()));
        }
        if rd.end().is_err() {
            ctx.fail("STARTUP body has trailing bytes");
        }
    }
    opts.sort();
    let get = |k: &str| opts.iter().find(|(a, _)| a == k.as_bytes()).map(|(_, v)| String::from_utf8_lossy(v).to_string());
    if startup.flags & 0x01 != 0 {
        ctx.fail("STARTUP frame is compressed (compression is only in force after STARTUP)");
    }
    if get("CQL_VERSION").as_deref() != Some("4.0.0") {
        ctx.fail(format!("STARTUP CQL_VERSION is {:?}", get("CQL_VERSION")));
    }
    match (get("COMPRESSION"), comp) {
        (None, None) => {}
        (Some(v), Some(c)) if v == (if c == Compression::Lz4 { "lz4" } else { "snappy" }) => {}
        (got, _) => ctx.fail(format!("STARTUP asks for COMPRESSION={got:?}; configured {:?}, server supports {:?}", case.cfgcomp, case.sup.comps)),
    }
    for (key, offered) in [
        ("SCYLLA_USE_METADATA_ID", case.sup.ext),
        ("TABLETS_ROUTING_V1", case.sup.tab),
        ("SCYLLA_RATE_LIMIT_ERROR", case.sup.rl.is_some()),
        ("SCYLLA_LWT_ADD_METADATA_MARK", case.sup.lwt.is_some()),
    ] {
        if get(key).is_some() && !offered {
            ctx.fail(format!("STARTUP opts in to {key}, which SUPPORTED did not offer"));
        }
    }
    if case.sup.ext != get("SCYLLA_USE_METADATA_ID").is_some() {
        ctx.fail("SCYLLA_USE_METADATA_ID offered but not accepted (or the reverse)");
    }
    if let (Some(m), Some(v)) = (case.sup.lwt.as_ref().and_then(|m| m.parse::<u32>().ok()), get("SCYLLA_LWT_ADD_METADATA_MARK")) {
        if v != format!("LWT_OPTIMIZATION_META_BIT_MASK={m}") {
            ctx.fail(format!("STARTUP echoes LWT mask `{v}`, SUPPORTED said {m}"));
        }
    }
    out.push_str("startup=");
    out.push_str(&opts.iter().map(|(k, v)| format!("{}={}", hex(k), hex(v))).collect::<Vec<_>>().join(","));

    // ---- request frames after the handshake
    let reqs: Vec<&Frame> = frames.iter().filter(|f| !matches!(f.opcode, 0x05 | 0x01)).collect();
    let mut bodies: Vec<String> = Vec::new();
    for f in &reqs {
        match decompressed(f, comp) {
            Ok(b) => bodies.push(format!("{:02x}:{:02x}:{}", f.flags, f.opcode, hex(&b))),
            Err(e) => {
                ctx.fail(e);
                bodies.push(format!("{:02x}:{:02x}:?", f.flags, f.opcode));
            }
        }
    }
    macro_rules! fail {
        ($r:expr, $what:expr) => {
            if let Err(e) = $r {
                ctx.fail(format!("{}: {}", $what, e));
            }
        };
    }
    match &case.op {
        Op::Query { text, cfg, page_size, paging } => {
            let asked = Asked::Query(text.clone(), expected_params(&case, cfg, *page_size, paging.clone(), false, vec![]));
            match reqs.as_slice() {
                [f] => fail!(check_frame(f, comp, cfg.tracing, &asked), "QUERY frame"),
                other => ctx.fail(format!("expected exactly one QUERY frame, the server saw {}", other.len())),
            }
        }
        Op::Execute { prep, use_cached, cfg, page_size, paging, values } => {
            let representable_vals = values.len() <= 65535;
            match reqs.as_slice() {
                [p, e] if representable_vals => {
                    fail!(check_frame(p, comp, false, &Asked::Prepare(prep.text.clone())), "PREPARE frame");
                    let asked = expected_execute(&case, prep, *use_cached, cfg, *page_size, paging.clone(), values.clone());
                    fail!(check_frame(e, comp, cfg.tracing, &asked), "EXECUTE frame");
                }
                other => {
                    if representable_vals {
                        ctx.fail(format!("expected PREPARE + EXECUTE, the server saw {} frames", other.len()));
                    }
                }
            }
        }
        Op::Iter { prep, cfg, page_size, states, values } => {
            // PREPARE, then one EXECUTE per page: no paging state, then each state the server handed out
            if reqs.len() != 2 + states.len() {
                ctx.fail(format!("expected PREPARE + {} EXECUTE frames, the server saw {}", 1 + states.len(), reqs.len()));
            } else {
                fail!(check_frame(reqs[0], comp, false, &Asked::Prepare(prep.text.clone())), "PREPARE frame");
                for (i, f) in reqs[1..].iter().enumerate() {
                    let st = if i == 0 { None } else { Some(states[i - 1].clone()) };
                    let asked = expected_execute(&case, prep, false, cfg, Some(*page_size), st, values.clone());
                    fail!(check_frame(f, comp, cfg.tracing, &asked), &format!("EXECUTE frame of page {i}"));
                }
            }
        }
        Op::Batch { ty, cfg, stmts, rows } => {
            // which texts the driver must prepare itself: unprepared statements that carry values
            let mut to_prepare: Vec<&str> = Vec::new();
            for (i, (prepared, p)) in stmts.iter().enumerate() {
                if !*prepared && rows.get(i).is_some_and(|r| !r.is_empty()) && !to_prepare.contains(&p.text.as_str()) {
                    to_prepare.push(&p.text);
                }
            }
            let n_pre = stmts.iter().filter(|(p, _)| *p).count();
            let final_stmts: Vec<(Stmt, usize)> = stmts
                .iter()
                .map(|(prepared, p)| {
                    if *prepared || to_prepare.contains(&p.text.as_str()) { (Stmt::Prepared(p.id.clone()), p.bind_cols) } else { (Stmt::Query(p.text.clone()), 0) }
                })
                .collect();
            let sendable = final_stmts.len() == rows.len()
                && final_stmts.iter().zip(rows).all(|((s, cols), r)| {
                    *cols == r.len() && r.len() <= 65535 && match s {
                        Stmt::Prepared(id) => id.len() <= 65535,
                        _ => true,
                    }
                })
                && final_stmts.len() <= 65535;
            let prepares: Vec<&&Frame> = reqs.iter().filter(|f| f.opcode == 0x09).collect();
            let batches: Vec<&&Frame> = reqs.iter().filter(|f| f.opcode == 0x0D).collect();
            if prepares.len() != n_pre + to_prepare.len() {
                ctx.fail(format!("expected {} PREPARE frames ({} by the caller, {} for unprepared statements with values), saw {}", n_pre + to_prepare.len(), n_pre, to_prepare.len(), prepares.len()));
            }
            match (sendable, batches.as_slice()) {
                (true, [f]) => {
                    let asked = Asked::Batch {
                        ty: *ty,
                        cons: cfg.cons.unwrap_or(DEFAULT_CONSISTENCY),
                        serial: cfg.serial.flatten(),
                        ts: cfg.ts.or(case.genr),
                        stmts: final_stmts.iter().map(|(s, _)| s.clone()).collect(),
                        values: rows.clone(),
                        adapter: None,
                    };
                    fail!(check_frame(f, comp, cfg.tracing, &asked), "BATCH frame");
                }
                (true, other) => ctx.fail(format!("expected one BATCH frame, the server saw {}", other.len())),
                (false, []) => {}
                (false, _) => ctx.fail("a BATCH frame was sent although statements and value rows do not match (count / bind markers)"),
            }
        }
    }
    format!("{out} frames={} {}", bodies.len(), bodies.join(" ")).trim_end().to_owned()
}

// ------------------------------------------------------------------------------------------------
// generator
// ------------------------------------------------------------------------------------------------

fn gen_sup(rng: &mut Rng) -> (String, bool) {
    let ext = rng.bool();
    let comps = *rng.pick(&["-", "lz4", "snappy", "lz4+snappy", "lz4+snappy"]);
    let rl = *rng.pick(&["N", "N", "4096", "-1", "x9", "2147483648"]);
    let lwt = *rng.pick(&["N", "N", "2147483648", "1", "0", "xyz", "-1", "4294967296"]);
    let tab = rng.below(2);
    let cfgcomp = *rng.pick(&["none", "none", "lz4", "snappy"]);
    let genr = if rng.bool() { "N".to_string() } else { rng.i64_boundary().to_string() };
    (format!("sess {} {comps} {rl} {lwt} {tab} {cfgcomp} {genr}", ext as u8), ext)
}

fn gen_cfg(rng: &mut Rng) -> String {
    let cons = if rng.chance(1, 3) { "N" } else { *rng.pick(&CONS_NAMES) };
    let serial = *rng.pick(&["D", "N", "Serial", "LocalSerial"]);
    let ts = if rng.bool() { "N".to_string() } else { rng.i64_boundary().to_string() };
    format!("{cons} {serial} {ts} {}", rng.below(2))
}

fn gen_ps(rng: &mut Rng) -> String {
    match rng.below(4) {
        0 => "N".into(),
        1 => rng.pick(&[1i32, 2, 255, 256, 5000, 65536, i32::MAX, i32::MAX - 1]).to_string(),
        _ => rng.range(1, 10000).to_string(),
    }
}

fn gen_paging(rng: &mut Rng) -> String {
    if rng.chance(2, 3) { "N".into() } else { gen_bytes_tok(rng, false) }
}

fn gen_text(rng: &mut Rng, tag: usize) -> String {
    hex(format!("SELECT c{} FROM ks.t WHERE x = {}", rng.below(1000), tag).as_bytes())
}

fn gen_id(rng: &mut Rng) -> String {
    let n = *rng.pick(&[1usize, 8, 16, 16, 16, 32]);
    hex(&rng.bytes(n))
}

pub(super) fn generate(rng: &mut Rng, tier: Tier, emit: &mut dyn FnMut(String)) {
    let scale: u64 = if tier == Tier::Quick { 1 } else { 10 };
    // every (statement consistency set?, serial D/N/S/LS, timestamp set?, generator?, tracing) once for QUERY
    for cons in ["N", "Two"] {
        for serial in ["D", "N", "Serial", "LocalSerial"] {
            for ts in ["N", "-5"] {
                for genr in ["N", "77"] {
                    for tr in 0..2 {
                        emit(format!("sess 0 lz4+snappy N N 0 none {genr} query 73656c656374 {cons} {serial} {ts} {tr} N N"));
                    }
                }
            }
        }
    }
    // negotiation table: every SUPPORTED compression list x configured compression, extensions on/off/malformed
    for comps in ["-", "lz4", "snappy", "lz4+snappy"] {
        for cfg in ["none", "lz4", "snappy"] {
            for (rl, lwt, tab, ext) in [("N", "N", 0, 0), ("4096", "2147483648", 1, 1), ("x", "x", 1, 0), ("-7", "4294967296", 0, 1)] {
                emit(format!("sess {ext} {comps} {rl} {lwt} {tab} {cfg} N query 78 N D N 1 10 N"));
            }
        }
    }
    // EXECUTE: the cached-metadata decision table (extension x use_cached x result columns 0 / >0)
    for ext in 0..2 {
        for uc in 0..2 {
            for rcols in [0, 1, 3] {
                let mid = if ext == 1 { "a1b2c3d4" } else { "N" };
                for comp in ["none", "lz4", "snappy"] {
                    emit(format!("sess {ext} lz4+snappy N N 0 {comp} 9 execute 73656c31 0102030405060708 2 {rcols} {mid} {uc} One Serial N 1 100 0a0b 00,N"));
                }
            }
        }
    }
    for _ in 0..600 * scale {
        let (head, ext) = gen_sup(rng);
        let mid = if ext { gen_id(rng) } else { "N".into() };
        match rng.below(9) {
            0 | 1 => emit(format!("{head} query {} {} {} {}", gen_text(rng, 0), gen_cfg(rng), gen_ps(rng), gen_paging(rng))),
            2 | 3 | 4 => {
                let vals = gen_values_tok(rng, false);
                let n = values_tok(&vals).map(|v| v.len()).unwrap_or(0);
                emit(format!(
                    "{head} execute {} {} {n} {} {mid} {} {} {} {} {vals}",
                    gen_text(rng, 1),
                    gen_id(rng),
                    *rng.pick(&[0usize, 0, 1, 2, 5]),
                    rng.below(2),
                    gen_cfg(rng),
                    gen_ps(rng),
                    gen_paging(rng)
                ));
            }
            5 => {
                let vals = gen_values_tok(rng, false);
                let n = values_tok(&vals).map(|v| v.len()).unwrap_or(0);
                let npages = rng.below(5) as usize;
                let states: Vec<String> = (0..npages).map(|_| { let k = 1 + rng.below(12) as usize; hex(&rng.bytes(k)) }).collect();
                emit(format!(
                    "{head} iter {} {} {n} {} {mid} {} {} {} {vals}",
                    gen_text(rng, 2),
                    gen_id(rng),
                    1 + rng.below(3),
                    gen_cfg(rng),
                    rng.pick(&[1i32, 2, 100, 5000, i32::MAX]),
                    if states.is_empty() { "_".to_string() } else { states.join(",") }
                ));
            }
            _ => {
                // BATCH: prepared beforehand / unprepared with and without values; row count = / < / > statements
                let nst = rng.below(5) as usize;
                let nrows = match rng.below(6) {
                    0 => nst + 1,
                    1 => nst.saturating_sub(1),
                    _ => nst,
                };
                let mut stmts = Vec::new();
                let mut rows = Vec::new();
                let shared_text = gen_text(rng, 99);
                let shared_id = gen_id(rng);
                for i in 0..nst.max(nrows) {
                    let prepared = rng.bool();
                    let vals = if rng.chance(1, 3) { "_".to_string() } else { gen_values_tok(rng, false) };
                    let n = values_tok(&vals).map(|v| v.len()).unwrap_or(0);
                    if i < nrows {
                        rows.push(vals);
                    }
                    if i < nst {
                        // bind markers: usually what the row has; sometimes one off
                        let cols = if rng.chance(1, 10) { n + 1 } else { n };
                        if rng.chance(1, 6) {
                            // the same text twice (prepare_batch's set of texts)
                            stmts.push(format!("q:{shared_text}:{shared_id}:1"));
                        } else {
                            stmts.push(format!("{}:{}:{}:{cols}", if prepared { "p" } else { "q" }, gen_text(rng, 10 + i), gen_id(rng)));
                        }
                    }
                }
                let ty = *rng.pick(&["Logged", "Unlogged", "Counter"]);
                emit(format!("{head} batch {ty} {} {} / {}", gen_cfg(rng), stmts.join(" "), rows.join(" ")).replace("  ", " "));
            }
        }
    }
}

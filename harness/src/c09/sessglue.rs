//! C09, `Session`-level glue (production defaulting): who decides the consistency, serial consistency and page size a
//! frame carries — the statement if it sets them, else the execution profile (the statement's own, else the session's
//! default) — plus timestamp, tracing flag, and the (custom) `SelfIdentity` in STARTUP. A real `Session` against the mock
//! cluster (one node); every statement frame and every STARTUP frame the node records is judged.
//!
//! Case: `glue <session profile cons> <session profile serial N|Serial|LocalSerial> <statement profile -|Cons/Serial>
//!        <timestamp generator N|i64> <driver name N|hex> <driver version N|hex> <app name N|hex> <app version N|hex>
//!        <client id N|hex> <op> <cons|N> <serial D|N|Serial|LocalSerial> <ts|N> <tracing 0|1> <page size> <pages>
//!        <via> <use cached metadata 0|1> <id of the prepared INSERT>,<id of the second batch statement>`
//! `<op>`: tracing (`Session::get_tracing_info`: two driver-built statements at the session's tracing_info_fetch_consistency,
//! given as <cons>) | *_pages (manual paging: `*_single_page` in a loop, each response's state fed into the next call) |
//! query_{unpaged,page,iter} (no values) | queryv_{unpaged,page,iter} (`Session::query_*` WITH values: PREPARE +
//! EXECUTE) | execute_{unpaged,page,iter} | batch.  `<via>` (execute_* / batch): `handle` = prepare `Statement::new(text)`,
//! configure the prepared handle; `stmt` = configure the Statement, then `Session::prepare(stmt)` (the handle must inherit
//! everything); `cmiss` / `chit` = `CachingSession::execute_*` / `batch` with the configured Statement on a cold cache / after a
//! warm-up call with a DIFFERENT configuration (cache hit: `make_configured_handle`); `-` for query*/queryv*.
//! Output: `identity=<k=v,... sorted hex> ptr=<tracing bit of the PREPARE frames 0|1|x|-> frames=<n>
//! <opcode>:<consistency>:<serial|->:<page size|->:<tracing bit>:<timestamp|->:<paging state|N>:<skip_metadata 0|1|->[:<BATCH body hex>]...`
//! or `e2e-skip <why>` when the session could not be built (overloaded machine; judged by nothing, echoed by the model).
use super::*;
use crate::e2e::common::{INSERT, SELECT, SELECT_ALL, Shape, Strat, connect, row_specs};
use crate::mockcluster::{Act, MockCluster, Req, act_void, rows_body, runtime};
use crate::mocknode::{Parsed, RESP_RESULT};
use scylla::client::SelfIdentity;
use scylla::client::execution_profile::ExecutionProfile;
use scylla::policies::timestamp_generator::TimestampGenerator;
use scylla::statement::batch::Batch as SBatch;
use scylla::statement::unprepared::Statement;
use std::sync::Arc;

struct FixedGen(i64);
impl TimestampGenerator for FixedGen {
    fn next_timestamp(&self) -> i64 {
        self.0
    }
}

#[derive(Clone, Debug)]
struct Glue {
    sess_cons: Consistency,
    sess_serial: Option<SerialConsistency>,
    stmt_prof: Option<(Consistency, Option<SerialConsistency>)>,
    genr: Option<i64>,
    identity: [Option<String>; 5],
    op: String,
    cons: Option<Consistency>,
    serial: Option<Option<SerialConsistency>>,
    ts: Option<i64>,
    tracing: bool,
    page_size: i32,
    pages: usize,
    via: String,
    uc: bool,
}

fn serial_opt(s: &str) -> Option<Option<SerialConsistency>> {
    match s {
        "N" => Some(None),
        "Serial" => Some(Some(SerialConsistency::Serial)),
        "LocalSerial" => Some(Some(SerialConsistency::LocalSerial)),
        _ => None,
    }
}

pub(super) const TEXT2: &str = "INSERT INTO ks.t (pk, v) VALUES (0x00, 0)";
pub(super) const TEXTA: &str = "INSERT INTO ks.t (pk, v) VALUES (?, 1)";
pub(super) const TEXTB: &str = "INSERT INTO ks.t (pk, v) VALUES (?, 2)";

fn ids_token() -> String {
    [INSERT, TEXT2, TEXTA, TEXTB].iter().map(|t| hex(&crate::mocknode::md5ish(t))).collect::<Vec<_>>().join(",")
}

/// The paging state the server hands out after page `j-1` (j >= 1). Iterators: `[j]`. Manual paging (`*_pages`):
/// j = 1: EMPTY but present; even j: long (301 bytes); odd j: two bytes.
fn state_of(j: usize, manual: bool) -> Vec<u8> {
    if !manual {
        return vec![j as u8];
    }
    if j == 1 {
        vec![]
    } else if j % 2 == 0 {
        let mut v = vec![j as u8];
        v.extend(std::iter::repeat(0xAB).take(300));
        v
    } else {
        vec![j as u8, 0]
    }
}

fn parse(w: &[&str]) -> Option<Glue> {
    if w.len() != 20 || w[0] != "glue" {
        return None;
    }
    let stmt_prof = if w[3] == "-" {
        None
    } else {
        let (c, s) = w[3].split_once('/')?;
        Some((cons_tok(c)?, serial_opt(s)?))
    };
    let idf = |s: &str| -> Option<Option<String>> {
        if s == "N" { Some(None) } else { Some(Some(str_tok(s)?)) }
    };
    let g = Glue {
        sess_cons: cons_tok(w[1])?,
        sess_serial: serial_opt(w[2])?,
        stmt_prof,
        genr: opt_num(w[4])?,
        identity: [idf(w[5])?, idf(w[6])?, idf(w[7])?, idf(w[8])?, idf(w[9])?],
        op: w[10].to_string(),
        cons: if w[11] == "N" { None } else { Some(cons_tok(w[11])?) },
        serial: match w[12] {
            "D" => None,
            s => Some(serial_opt(s)?),
        },
        ts: opt_num(w[13])?,
        tracing: match w[14] {
            "0" => false,
            "1" => true,
            _ => return None,
        },
        page_size: w[15].parse().ok().filter(|p| *p > 0)?,
        pages: w[16].parse().ok().filter(|p| (1..=20).contains(p))?,
        via: w[17].to_string(),
        uc: match w[18] {
            "0" => false,
            "1" => true,
            _ => return None,
        },
    };
    let plain = ["query_unpaged", "query_page", "query_iter", "query_pages", "queryv_unpaged", "queryv_page", "queryv_iter", "queryv_pages"];
    let exec = ["execute_unpaged", "execute_page", "execute_iter", "execute_pages"];
    let ok = (plain.contains(&g.op.as_str()) && g.via == "-" && !g.uc)
        || (exec.contains(&g.op.as_str()) && ["handle", "stmt", "cmiss", "chit"].contains(&g.via.as_str()))
        || (g.op == "batch" && ["handle", "cmiss", "chit", "pbatch"].contains(&g.via.as_str()) && !g.uc)
        // `Session::get_tracing_info`: <cons> is the session's tracing_info_fetch_consistency; nothing else is configurable
        || (g.op == "tracing" && g.via == "-" && !g.uc && g.cons.is_some() && g.serial.is_none() && g.ts.is_none() && !g.tracing && g.stmt_prof.is_none());
    if !ok {
        return None;
    }
    // the ids the mock answers PREPARE with (part of the case so that the model can build the BATCH body)
    if w[19] != ids_token() {
        return None;
    }
    if g.identity.iter().flatten().any(|s| s.len() > 200) {
        return None;
    }
    Some(g)
}

fn profile(c: Consistency, s: Option<SerialConsistency>) -> ExecutionProfile {
    ExecutionProfile::builder().consistency(c).serial_consistency(s).build()
}

const IDENTITY_KEYS: [&str; 5] = ["DRIVER_NAME", "DRIVER_VERSION", "APPLICATION_NAME", "APPLICATION_VERSION", "CLIENT_ID"];

pub(super) fn run(case_line: &str, ctx: &mut Ctx) -> String {
    let w: Vec<&str> = case_line.split_whitespace().collect();
    let Some(g) = parse(&w) else { return "bad-case".into() };
    let shape = Shape { nodes: 1, dcs: 1, racks: 1, shards: 0, msb: 12, vnodes: 2, strat: Strat::Simple(1), seed: 1 };
    let manual = g.op.ends_with("_pages");
    // one execution of the case; `reorder`: answer prepare_batch's PREPAREs in reverse arrival order (needs a driver that
    // sends them concurrently; if it does not within 3 s the case is re-run with plain answers - positions are judged either way)
    let exec = |reorder: bool| -> Result<(Vec<Req>, usize), String> {
    let n_states = g.pages - 1;
    // PREPAREs of a `Session::prepare_batch` are answered in REVERSE arrival order (completion order != position order)
    let mut held: Vec<(i16, String)> = Vec::new();
    let handler: crate::mockcluster::ClusterHandler = Box::new(move |r: &Req| {
        if let Parsed::Prepare { text } = &r.parsed {
            if reorder && [TEXTA, TEXTB, TEXT2].contains(&text.as_str()) {
                held.push((r.stream, text.clone()));
                if held.len() < 3 {
                    return vec![];
                }
                let acts = held.iter().rev().map(|(st, t)| Act::RespondOn(*st, RESP_RESULT, crate::e2e::common::std_prepared(t))).collect();
                held.clear();
                return acts;
            }
            if text.contains("system_traces") {
                // the driver's own tracing queries: one uuid bind marker, no result metadata
                let bind = crate::mockcluster::Specs::new("system_traces", "sessions", &[("session_id", crate::mockcluster::CqlT::Native(crate::mockcluster::T_UUID))]);
                return vec![Act::Respond(RESP_RESULT, crate::mockcluster::prepared_body(&crate::mocknode::md5ish(text), &bind, &[], None))];
            }
            return vec![Act::Respond(RESP_RESULT, crate::e2e::common::std_prepared(text))];
        }
        let params = match &r.parsed {
            Parsed::Query { text, params } if text == SELECT_ALL => params,
            Parsed::Execute { params, .. } => params,
            _ => return vec![act_void()],
        };
        // which page is asked for: no state = 0, the empty state = 1, else the state's first byte
        let j = match &params.paging_state {
            None => 0,
            Some(p) if p.is_empty() => 1,
            Some(p) => p[0] as usize,
        };
        let next = if j < n_states { Some(state_of(j + 1, manual)) } else { None };
        vec![Act::Respond(RESP_RESULT, rows_body(&row_specs(), !params.skip_metadata, next.as_deref(), &[]))]
    });
    let rt = runtime(1);
    let g2 = g.clone();
    let shape = shape.clone();
    rt.block_on(async move {
        let g = g2;
        let cluster = MockCluster::start(shape.topology(), handler).await;
        let mut identity = SelfIdentity::new();
        if let Some(v) = &g.identity[0] {
            identity.set_custom_driver_name(v.clone());
        }
        if let Some(v) = &g.identity[1] {
            identity.set_custom_driver_version(v.clone());
        }
        if let Some(v) = &g.identity[2] {
            identity.set_application_name(v.clone());
        }
        if let Some(v) = &g.identity[3] {
            identity.set_application_version(v.clone());
        }
        if let Some(v) = &g.identity[4] {
            identity.set_client_id(v.clone());
        }
        let handle = profile(g.sess_cons, g.sess_serial).into_handle();
        let genr = g.genr;
        let fetch_cons = if g.op == "tracing" { g.cons } else { None };
        let session = connect(&cluster, move |b| {
            let b = b.default_execution_profile_handle(handle.clone()).custom_identity(identity.clone());
            let b = match fetch_cons {
                Some(c) => b.tracing_info_fetch_consistency(c),
                None => b,
            };
            match genr {
                Some(v) => b.timestamp_generator(Arc::new(FixedGen(v))),
                None => b,
            }
        })
        .await?;
        let stmt_handle = g.stmt_prof.map(|(c, s)| profile(c, s).into_handle());
        macro_rules! configure {
            ($s:expr) => {{
                if let Some(c) = g.cons {
                    $s.set_consistency(c);
                }
                if let Some(sc) = g.serial {
                    $s.set_serial_consistency(sc);
                }
                $s.set_timestamp(g.ts);
                $s.set_tracing(g.tracing);
                $s.set_execution_profile_handle(stmt_handle.clone());
            }};
        }
        macro_rules! drain {
            ($p:expr) => {{
                if let Ok(p) = $p {
                    if let Ok(mut s) = p.rows_stream::<scylla::value::Row>() {
                        while let Some(r) = s.next().await {
                            if r.is_err() {
                                break;
                            }
                        }
                    }
                }
            }};
        }
        // manual paging: feed each response's paging state into the next `*_single_page` call
        macro_rules! pages {
            ($call:expr) => {{
                let mut state = PS::start();
                for _ in 0..(g.pages + 2) {
                    let f = $call;
                    match f(state.clone()).await {
                        Ok((_, psr)) => match psr.into_paging_control_flow() {
                            std::ops::ControlFlow::Continue(next) => state = next,
                            std::ops::ControlFlow::Break(()) => break,
                        },
                        Err(_) => break,
                    }
                }
            }};
        }
        use futures::StreamExt;
        use scylla::client::caching_session::CachingSessionBuilder;
        use scylla::response::PagingState as PS;
        let kind = g.op.rsplit('_').next().unwrap_or("").to_string(); // unpaged | page | iter | batch
        let mut mark = 0usize;
        if g.op == "tracing" {
            // driver-built requests: what they carry is what the caller configured on the SESSION
            let _ = session.get_tracing_info(&uuid::Uuid::from_bytes([7u8; 16])).await;
        } else if g.op.starts_with("query") {
            let with_values = g.op.starts_with("queryv");
            let mut st = Statement::new(if with_values { SELECT } else { SELECT_ALL });
            configure!(st);
            st.set_page_size(g.page_size);
            match (kind.as_str(), with_values) {
                ("unpaged", false) => drop(session.query_unpaged(st, ()).await),
                ("page", false) => drop(session.query_single_page(st, (), PS::start()).await),
                ("iter", false) => drain!(session.query_iter(st, ()).await),
                ("pages", false) => pages!(|ps: PS| session.query_single_page(st.clone(), (), ps)),
                ("pages", true) => pages!(|ps: PS| session.query_single_page(st.clone(), (vec![1u8, 2],), ps)),
                ("unpaged", true) => drop(session.query_unpaged(st, (vec![1u8, 2],)).await),
                ("page", true) => drop(session.query_single_page(st, (vec![1u8, 2],), PS::start()).await),
                _ => drain!(session.query_iter(st, (vec![1u8, 2],)).await),
            }
        } else if g.op.starts_with("execute") {
            match g.via.as_str() {
                "handle" | "stmt" => {
                    let ps = if g.via == "handle" {
                        // prepare a bare statement, configure the handle
                        let Ok(mut ps) = session.prepare(SELECT).await else { return Err("e2e-skip prepare-failed".to_string()) };
                        configure!(ps);
                        ps.set_page_size(g.page_size);
                        ps.set_use_cached_result_metadata(g.uc);
                        ps
                    } else {
                        // configure the statement, then prepare: the handle must inherit everything
                        let mut st = Statement::new(SELECT);
                        configure!(st);
                        st.set_page_size(g.page_size);
                        let Ok(mut ps) = session.prepare(st).await else { return Err("e2e-skip prepare-failed".to_string()) };
                        ps.set_use_cached_result_metadata(g.uc);
                        ps
                    };
                    match kind.as_str() {
                        "unpaged" => drop(session.execute_unpaged(&ps, (vec![1u8, 2],)).await),
                        "page" => drop(session.execute_single_page(&ps, (vec![1u8, 2],), PS::start()).await),
                        "pages" => pages!(|st: PS| session.execute_single_page(&ps, (vec![1u8, 2],), st)),
                        _ => drain!(session.execute_iter(ps, (vec![1u8, 2],)).await),
                    }
                }
                _ => {
                    let caching = CachingSessionBuilder::new(session).max_capacity(8).use_cached_result_metadata(g.uc).build();
                    if g.via == "chit" {
                        // warm the cache with a differently configured statement of the same text
                        let mut warm = Statement::new(SELECT);
                        warm.set_consistency(Consistency::Any);
                        warm.set_serial_consistency(Some(SerialConsistency::Serial));
                        warm.set_timestamp(Some(-1));
                        warm.set_page_size(3);
                        let _ = caching.execute_unpaged(warm, (vec![9u8],)).await;
                        mark = cluster.frames().len();
                    }
                    let mut st = Statement::new(SELECT);
                    configure!(st);
                    st.set_page_size(g.page_size);
                    match kind.as_str() {
                        "unpaged" => drop(caching.execute_unpaged(st, (vec![1u8, 2],)).await),
                        "page" => drop(caching.execute_single_page(st, (vec![1u8, 2],), PS::start()).await),
                        "pages" => pages!(|x: PS| caching.execute_single_page(st.clone(), (vec![1u8, 2],), x)),
                        _ => drain!(caching.execute_iter(st, (vec![1u8, 2],)).await),
                    }
                }
            }
        } else {
            let mut b = SBatch::new(BatchType::Unlogged);
            if g.via == "pbatch" {
                // Session::prepare_batch: unprepared and prepared statements in mixed positions
                let Ok(ps) = session.prepare(INSERT).await else { return Err("e2e-skip prepare-failed".to_string()) };
                b.append_statement(Statement::new(TEXTA));
                b.append_statement(ps);
                b.append_statement(Statement::new(TEXTB));
                b.append_statement(Statement::new(TEXT2));
                configure!(b);
                match tokio::time::timeout(std::time::Duration::from_secs(3), session.prepare_batch(&b)).await {
                    Err(_) if reorder => return Err("retry-plain".to_string()),
                    Ok(Ok(pb)) => {
                        let _ = session.batch(&pb, ((vec![1u8, 2],), (vec![1u8, 2], 5i32), (vec![1u8, 2],), ())).await;
                    }
                    _ => {}
                }
            } else if g.via == "handle" {
                let Ok(ps) = session.prepare(INSERT).await else { return Err("e2e-skip prepare-failed".to_string()) };
                b.append_statement(ps);
                b.append_statement(Statement::new(TEXT2));
                configure!(b);
                let _ = session.batch(&b, ((vec![1u8, 2], 5i32), ())).await;
            } else {
                let caching = CachingSessionBuilder::new(session).max_capacity(8).build();
                if g.via == "chit" {
                    let mut warm = SBatch::new(BatchType::Unlogged);
                    warm.append_statement(Statement::new(INSERT));
                    warm.append_statement(Statement::new(TEXT2));
                    warm.set_consistency(Consistency::Any);
                    warm.set_timestamp(Some(-1));
                    let _ = caching.batch(&warm, ((vec![9u8], 1i32), ())).await;
                    mark = cluster.frames().len();
                }
                b.append_statement(Statement::new(INSERT));
                b.append_statement(Statement::new(TEXT2));
                configure!(b);
                let _ = caching.batch(&b, ((vec![1u8, 2], 5i32), ())).await;
            }
        }
        tokio::time::sleep(std::time::Duration::from_millis(2)).await;
        Ok((cluster.frames(), mark))
    })
    };
    let frames = match exec(g.via == "pbatch") {
        Err(e) if e == "retry-plain" => exec(false),
        x => x,
    };
    let (frames, mark) = match frames {
        Ok(f) => f,
        Err(skip) => return skip,
    };

    // ---- STARTUP identity on every connection
    let mut identity_line: Option<String> = None;
    for f in frames.iter().filter(|f| f.opcode == 0x01) {
        let Parsed::Startup(opts) = &f.parsed else { continue };
        let get = |k: &str| opts.iter().find(|(a, _)| a == k).map(|(_, v)| v.clone());
        let wants: [Option<String>; 5] = [
            Some(g.identity[0].clone().unwrap_or_else(|| "ScyllaDB Rust Driver".to_string())),
            g.identity[1].clone(), // default version: whatever the crate says (not judged)
            g.identity[2].clone(),
            g.identity[3].clone(),
            g.identity[4].clone(),
        ];
        for (i, k) in IDENTITY_KEYS.iter().enumerate() {
            let got = get(k);
            let ok = match (i, &wants[i]) {
                (1, None) => got.is_some(),
                (_, w) => got == *w,
            };
            if !ok {
                ctx.fail(format!("STARTUP on a connection says {k}={got:?}; the caller configured {:?}", g.identity[i]));
            }
        }
        let mut line: Vec<(String, String)> = opts.iter().filter(|(k, _)| IDENTITY_KEYS.contains(&k.as_str())).cloned().collect();
        line.sort();
        let s = line.iter().map(|(k, v)| format!("{}={}", hex(k.as_bytes()), hex(v.as_bytes()))).collect::<Vec<_>>().join(",");
        match &identity_line {
            None => identity_line = Some(s),
            Some(prev) if *prev != s => ctx.fail("connections of one session advertise different identities"),
            _ => {}
        }
    }

    // ---- statement frames: value = the statement's if set, else the chosen profile's
    let (prof_c, prof_s) = g.stmt_prof.unwrap_or((g.sess_cons, g.sess_serial));
    let want_cons = spec_cons_code(g.cons.unwrap_or(prof_c));
    let want_serial = match g.serial {
        Some(s) => s,
        None => prof_s,
    }
    .map(spec_serial_code);
    let want_ts = g.ts.or(g.genr);
    let paged = !g.op.ends_with("unpaged") && g.op != "batch" && g.op != "tracing";
    let judged: Vec<&Req> = frames.iter().skip(mark).filter(|f| !f.internal).collect();
    // PREPARE frames of the judged call: their tracing flag is the statement's when the configured statement is what
    // gets prepared (queryv_*, via=stmt, cache miss); a bare `Statement::new(text)` is prepared untraced (via=handle)
    let preps: Vec<bool> = judged.iter().filter(|f| f.opcode == 0x09).map(|f| f.flags & 0x02 != 0).collect();
    let ptr = if preps.is_empty() { "-" } else if preps.iter().all(|b| *b) { "1" } else if preps.iter().all(|b| !*b) { "0" } else { "x" };
    let stmt_prepared_here = g.op.starts_with("queryv") || g.via == "stmt" || g.via == "cmiss";
    if stmt_prepared_here && g.via != "cmiss" || (g.via == "cmiss" && g.op != "batch") {
        let want = if g.tracing { "1" } else { "0" };
        if ptr != want {
            ctx.fail(format!("PREPARE frames of a statement with set_tracing({}) carry tracing bit(s) `{ptr}`", g.tracing));
        }
    }
    let mut out = Vec::new();
    let mut n = 0usize;
    for f in judged.iter() {
        let (cons, serial, ps, ts, paging, skip) = match &f.parsed {
            Parsed::Query { params, .. } | Parsed::Execute { params, .. } => (
                params.consistency,
                params.serial_consistency,
                params.page_size,
                params.timestamp,
                params.paging_state.clone(),
                Some(params.skip_metadata),
            ),
            Parsed::Batch { consistency, serial_consistency, timestamp, .. } => (*consistency, *serial_consistency, None, *timestamp, None, None),
            _ => continue,
        };
        if cons != want_cons {
            ctx.fail(format!("frame {n} of `{}` via {} carries consistency {cons:#06x}; statement {:?}, statement profile {:?}, session profile {:?}", g.op, g.via, g.cons, g.stmt_prof.map(|p| p.0), g.sess_cons));
        }
        if serial != want_serial {
            ctx.fail(format!("frame {n} of `{}` via {} carries serial consistency {serial:?}; statement {:?}, statement profile {:?}, session profile {:?}", g.op, g.via, g.serial, g.stmt_prof.map(|p| p.1), g.sess_serial));
        }
        if ts != want_ts {
            ctx.fail(format!("frame {n} of `{}` via {} carries timestamp {ts:?}; statement {:?}, generator {:?}", g.op, g.via, g.ts, g.genr));
        }
        if ps != paged.then_some(g.page_size) {
            ctx.fail(format!("frame {n} of `{}` via {} carries page size {ps:?}; statement page size {}", g.op, g.via, g.page_size));
        }
        if (f.flags & 0x02 != 0) != g.tracing {
            ctx.fail(format!("frame {n} of `{}` via {}: tracing flag {} but set_tracing({})", g.op, g.via, f.flags & 0x02 != 0, g.tracing));
        }
        let want_paging = if n == 0 || g.op == "tracing" { None } else { Some(state_of(n, manual)) };
        if g.op != "batch" && paging != want_paging {
            ctx.fail(format!("frame {n} carries paging state {paging:?}, the server's previous answer was {want_paging:?}"));
        }
        // skip_metadata: only with cached columns and the caller's (or the CachingSession's) consent; never on QUERY
        let want_skip = match f.opcode {
            0x0A => Some(g.uc),
            0x07 => Some(false),
            _ => None,
        };
        if skip != want_skip {
            ctx.fail(format!("frame {n} of `{}` via {}: skip_metadata {skip:?}, use_cached_result_metadata was {}", g.op, g.via, g.uc));
        }
        let is_execute_path = g.op.starts_with("queryv") || g.op.starts_with("execute") || g.op == "tracing";
        if is_execute_path && f.opcode != 0x0A || (g.op.starts_with("query_") && f.opcode != 0x07) {
            ctx.fail(format!("`{}` sent a frame with opcode {:#04x}", g.op, f.opcode));
        }
        out.push(format!(
            "{:02x}:{}:{}:{}:{}:{}:{}:{}{}",
            f.opcode,
            cons,
            serial.map(|s| s.to_string()).unwrap_or("-".into()),
            ps.map(|s| s.to_string()).unwrap_or("-".into()),
            (f.flags >> 1) & 1,
            ts.map(|s| s.to_string()).unwrap_or("-".into()),
            paging.map(|p| hex(&p)).unwrap_or("N".into()),
            skip.map(|b| (b as u8).to_string()).unwrap_or("-".into()),
            if f.opcode == 0x0D { format!(":{}", hex(&f.body)) } else { String::new() }
        ));
        n += 1;
    }
    let want_frames = if g.op == "tracing" { 2 } else if g.op.ends_with("_iter") || manual { g.pages } else { 1 };
    if g.via == "pbatch" {
        // position i of the BATCH = the id the server announced for text i (or the given prepared statement)
        let want: Vec<Vec<u8>> = [TEXTA, INSERT, TEXTB, TEXT2].iter().map(|t| crate::mocknode::md5ish(t)).collect();
        for f in judged.iter() {
            if let Parsed::Batch { statements, .. } = &f.parsed {
                let got: Vec<Option<Vec<u8>>> = statements
                    .iter()
                    .map(|s| match s {
                        crate::mocknode::BatchStmt::Prepared(id, _) => Some(id.clone()),
                        _ => None,
                    })
                    .collect();
                if got != want.iter().cloned().map(Some).collect::<Vec<_>>() {
                    ctx.fail("BATCH after Session::prepare_batch: the statement at some position is not the one the server prepared for that position's text");
                }
            }
        }
    }
    if n != want_frames {
        ctx.fail(format!("`{}` via {} over {} page(s): the node saw {n} statement frames, expected {want_frames}", g.op, g.via, g.pages));
    }
    format!("identity={} ptr={ptr} frames={} {}", identity_line.unwrap_or_default(), n, out.join(" ")).trim_end().to_owned()
}

/// FNV-1a (64 bit): a 3 MB BATCH body is compared byte for byte through its length and this digest.
fn fnv1a(b: &[u8]) -> u64 {
    b.iter().fold(0xcbf29ce484222325u64, |h, x| (h ^ *x as u64).wrapping_mul(0x100000001b3))
}

/// `glueb <n> <mode u|p|m> <via s|c> <cons|N> <serial D|N|Serial|LocalSerial> <ts|N> <tracing 0|1> <ids>`:
/// `Session::batch` (`via s`; `c` = `CachingSession::batch` on an all-prepared batch, which delegates) with exactly `n`
/// statements — `u`: unprepared without values, `p`: the prepared INSERT with (pk, v), `m`: alternating p,u,p,... — around
/// the 65535 boundary of the session's own guard (`session.rs:1039-1045`, in front of the serializer's `try_into::<u16>`).
/// Output: `ok|err:TooManyQueries:<n>|err:refused frames=<k> [0d:<cons>:<serial|->:<tracing>:<ts|->:n=<statements the
/// node parsed>:len=<body length>:fnv=<digest>]`.  Oracle (the property's text): n <= 65535 -> the call succeeds and the
/// node sees ONE BATCH with exactly the n statements asked for, in order; n > 65535 -> an error and NO BATCH frame.
pub(super) fn run_b(case_line: &str, ctx: &mut Ctx) -> String {
    let w: Vec<&str> = case_line.split_whitespace().collect();
    if w.len() != 9 || w[0] != "glueb" || w[8] != ids_token() {
        return "bad-case".into();
    }
    let Some(n) = w[1].parse::<usize>().ok().filter(|n| *n <= 200000) else { return "bad-case".into() };
    let mode = w[2].to_string();
    let via = w[3].to_string();
    if !["u", "p", "m"].contains(&mode.as_str()) || !(via == "s" || (via == "c" && mode == "p")) {
        return "bad-case".into();
    }
    let cons: Option<Consistency> = if w[4] == "N" { None } else { match cons_tok(w[4]) { Some(c) => Some(c), None => return "bad-case".into() } };
    let serial: Option<Option<SerialConsistency>> = match w[5] {
        "D" => None,
        s => match serial_opt(s) { Some(x) => Some(x), None => return "bad-case".into() },
    };
    let Some(ts) = opt_num::<i64>(w[6]) else { return "bad-case".into() };
    let tracing = match w[7] { "0" => false, "1" => true, _ => return "bad-case".into() };
    let is_prep = |i: usize| mode == "p" || (mode == "m" && i % 2 == 0);
    let shape = Shape { nodes: 1, dcs: 1, racks: 1, shards: 0, msb: 12, vnodes: 2, strat: Strat::Simple(1), seed: 1 };
    let handler: crate::mockcluster::ClusterHandler = Box::new(move |r: &Req| match &r.parsed {
        Parsed::Prepare { text } => vec![Act::Respond(RESP_RESULT, crate::e2e::common::std_prepared(text))],
        _ => vec![act_void()],
    });
    let rt = runtime(1);
    let (mode2, via2) = (mode.clone(), via.clone());
    let res: Result<(Vec<Req>, Result<(), String>), String> = rt.block_on(async move {
        use scylla::client::caching_session::CachingSessionBuilder;
        use scylla::value::CqlValue;
        let is_prep = |i: usize| mode2 == "p" || (mode2 == "m" && i % 2 == 0);
        let cluster = MockCluster::start(shape.topology(), handler).await;
        let handle = profile(Consistency::LocalQuorum, Some(SerialConsistency::LocalSerial)).into_handle();
        let session = connect(&cluster, move |b| b.default_execution_profile_handle(handle.clone())).await?;
        let Ok(ps) = session.prepare(INSERT).await else { return Err("e2e-skip prepare-failed".to_string()) };
        let mut b = SBatch::new(BatchType::Unlogged);
        let mut rows: Vec<Vec<CqlValue>> = Vec::with_capacity(n);
        for i in 0..n {
            if is_prep(i) {
                b.append_statement(ps.clone());
                rows.push(vec![CqlValue::Blob(vec![1u8, 2]), CqlValue::Int(5)]);
            } else {
                b.append_statement(Statement::new(TEXT2));
                rows.push(vec![]);
            }
        }
        if let Some(c) = cons {
            b.set_consistency(c);
        }
        if let Some(sc) = serial {
            b.set_serial_consistency(sc);
        }
        b.set_timestamp(ts);
        b.set_tracing(tracing);
        let mark = cluster.frames().len();
        let r = if via2 == "c" {
            let caching = CachingSessionBuilder::new(session).max_capacity(8).build();
            caching.batch(&b, &rows).await
        } else {
            session.batch(&b, &rows).await
        };
        let r = match r {
            Ok(_) => Ok(()),
            Err(scylla::errors::ExecutionError::BadQuery(scylla::errors::BadQuery::TooManyQueriesInBatchStatement(k))) => Err(format!("TooManyQueries:{k}")),
            Err(_) => Err("refused".to_string()),
        };
        tokio::time::sleep(std::time::Duration::from_millis(2)).await;
        Ok((cluster.frames().into_iter().skip(mark).filter(|f| !f.internal && f.opcode == 0x0D).collect(), r))
    });
    let (frames, r) = match res {
        Ok(x) => x,
        Err(skip) => return skip,
    };
    // ---- the property's text: a representable batch is sent whole, an oversize one is refused, nothing is truncated
    if n <= 65535 {
        if let Err(e) = &r {
            ctx.fail(format!("Session::batch refused a batch of {n} statements ({e}); 65535 statements fit a v4 BATCH"));
        }
        if frames.len() != 1 {
            ctx.fail(format!("Session::batch of {n} statements: the node saw {} BATCH frames, expected 1", frames.len()));
        }
    } else {
        if r.is_ok() {
            ctx.fail(format!("Session::batch accepted a batch of {n} statements (more than the u16 count of a v4 BATCH can say)"));
        }
        if !frames.is_empty() {
            ctx.fail(format!("Session::batch of {n} statements (> 65535) put a BATCH frame on the wire"));
        }
    }
    let want_id = crate::mocknode::md5ish(INSERT);
    let mut out = Vec::new();
    for f in frames.iter() {
        let Parsed::Batch { statements, consistency, serial_consistency, timestamp, .. } = &f.parsed else {
            ctx.fail("the node could not parse the BATCH frame");
            out.push("unparsable-batch-body".to_string());
            continue;
        };
        if statements.len() != n {
            ctx.fail(format!("BATCH frame carries {} statements, the caller's batch has {n} (truncated / padded)", statements.len()));
        }
        for (i, st) in statements.iter().enumerate() {
            let ok = match st {
                crate::mocknode::BatchStmt::Prepared(id, v) => is_prep(i) && *id == want_id && v.len() == 2,
                crate::mocknode::BatchStmt::Query(t, v) => !is_prep(i) && t == TEXT2 && v.is_empty(),
            };
            if !ok {
                ctx.fail(format!("statement {i} of the BATCH frame is not statement {i} of the caller's batch"));
                break;
            }
        }
        let want_cons = spec_cons_code(cons.unwrap_or(Consistency::LocalQuorum));
        let want_serial = match serial { Some(s) => s, None => Some(SerialConsistency::LocalSerial) }.map(spec_serial_code);
        if *consistency != want_cons || *serial_consistency != want_serial || *timestamp != ts || (f.flags & 0x02 != 0) != tracing {
            ctx.fail(format!("BATCH of {n} statements carries consistency {consistency:#06x} / serial {serial_consistency:?} / timestamp {timestamp:?} / tracing {}; the caller set {cons:?} / {serial:?} / {ts:?} / {tracing}", f.flags & 0x02 != 0));
        }
        out.push(format!(
            "0d:{}:{}:{}:{}:n={}:len={}:fnv={}",
            consistency,
            serial_consistency.map(|s| s.to_string()).unwrap_or("-".into()),
            (f.flags >> 1) & 1,
            timestamp.map(|s| s.to_string()).unwrap_or("-".into()),
            statements.len(),
            f.body.len(),
            fnv1a(&f.body)
        ));
    }
    let head = match &r { Ok(()) => "ok".to_string(), Err(e) => format!("err:{e}") };
    format!("{head} frames={} {}", frames.len(), out.join(" ")).trim_end().to_owned()
}

fn generate_b(rng: &mut Rng, tier: Tier, emit: &mut dyn FnMut(String)) {
    let ids = ids_token();
    // the boundary of the guard, from both sides, for every statement mix; 131071 / 131072 = what an `as u16` would turn
    // into 65535 / 0
    for n in [65535usize, 65536] {
        for (mode, via) in [("u", "s"), ("p", "s"), ("m", "s"), ("p", "c")] {
            emit(format!("glueb {n} {mode} {via} N D N 0 {ids}"));
        }
    }
    for (n, mode) in [(0usize, "u"), (1, "p"), (65534, "m"), (65537, "u"), (65537, "p"), (131071, "u"), (131072, "m"), (70000, "p")] {
        emit(format!("glueb {n} {mode} s Two Serial -77 1 {ids}"));
    }
    let k = if tier == Tier::Quick { 10 } else { 80 };
    for _ in 0..k {
        let n = match rng.below(6) {
            0 => 65535,
            1 => 65536,
            2 => 65536 + rng.below(3000) as usize,
            3 => 65535 - rng.below(3000) as usize,
            _ => rng.below(300) as usize,
        };
        let mode = *rng.pick(&["u", "p", "m"]);
        let via = if mode == "p" && rng.bool() { "c" } else { "s" };
        emit(format!(
            "glueb {n} {mode} {via} {} {} {} {} {ids}",
            if rng.bool() { "N" } else { *rng.pick(&CONS_NAMES[..8]) },
            rng.pick(&["D", "N", "Serial", "LocalSerial"]),
            if rng.bool() { "N".to_string() } else { rng.i64_boundary().to_string() },
            rng.below(2)
        ));
    }
}

pub(super) fn generate(rng: &mut Rng, tier: Tier, emit: &mut dyn FnMut(String)) {
    let ids = ids_token();
    generate_b(rng, tier, emit);
    // (op, via) combinations
    let mut combos: Vec<(String, &str)> = Vec::new();
    for k in ["unpaged", "page", "iter", "pages"] {
        combos.push((format!("query_{k}"), "-"));
        combos.push((format!("queryv_{k}"), "-"));
        for via in ["handle", "stmt", "cmiss", "chit"] {
            combos.push((format!("execute_{k}"), via));
        }
    }
    for via in ["handle", "cmiss", "chit", "pbatch"] {
        combos.push(("batch".to_string(), via));
    }
    // decision table: statement consistency set / unset x serial D / N / Serial x statement profile none / given, per combo
    for (op, via) in &combos {
        for cons in ["N", "Two"] {
            for serial in ["D", "N", "Serial"] {
                for sp in ["-", "One/LocalSerial"] {
                    let pages = if op.ends_with("_iter") { 2 } else if op.ends_with("_pages") { 4 } else { 1 };
                    let (ts, tr) = if cons == "N" { ("N", 0) } else { ("-77", 1) };
                    emit(format!("glue LocalQuorum LocalSerial {sp} N N N N N N {op} {cons} {serial} {ts} {tr} 7 {pages} {via} 0 {ids}"));
                }
            }
        }
    }
    for fc in CONS_NAMES {
        for (sc, ss, genr) in [("LocalQuorum", "LocalSerial", "N"), ("One", "N", "77"), ("All", "Serial", "-3")] {
            emit(format!("glue {sc} {ss} - {genr} N N N N N tracing {fc} D N 0 7 1 - 0 {ids}"));
        }
    }
    let n = if tier == Tier::Quick { 150 } else { 1500 };
    let idv = |rng: &mut Rng| -> String {
        if rng.chance(2, 3) { "N".into() } else { hex(rng.pick(&["my-app", "1.2.3", "x", "ScyllaDB Rust Driver", "a b c", "client-42"]).as_bytes()) }
    };
    for _ in 0..n {
        let sp = if rng.bool() { "-".to_string() } else { format!("{}/{}", rng.pick(&CONS_NAMES[..8]), rng.pick(&["N", "Serial", "LocalSerial"])) };
        let (op, via) = rng.pick(&combos).clone();
        let uc = if op.starts_with("execute") { rng.below(2) } else { 0 };
        emit(format!(
            "glue {} {} {sp} {} {} {} {} {} {} {op} {} {} {} {} {} {} {via} {uc} {ids}",
            rng.pick(&CONS_NAMES[..8]),
            rng.pick(&["N", "Serial", "LocalSerial"]),
            if rng.bool() { "N".to_string() } else { rng.i64_boundary().to_string() },
            idv(rng),
            idv(rng),
            idv(rng),
            idv(rng),
            idv(rng),
            if rng.chance(1, 2) { "N" } else { *rng.pick(&CONS_NAMES[..8]) },
            rng.pick(&["D", "N", "Serial", "LocalSerial"]),
            if rng.bool() { "N".to_string() } else { rng.i64_boundary().to_string() },
            rng.below(2),
            rng.pick(&[1i32, 2, 100, 5000, i32::MAX]),
            1 + rng.below(4)
        ));
    }
}

//! C13 — speculative execution is idempotent-only, bounded, and first real answer wins.
//!
//! Cases (virtual time in ms, tokio current-thread runtime started paused):
//! * `class <ok|Error>`                  — the real `can_be_ignored` on one value of the error universe (`Name` or `Name(payload,...)`): `ignorable` / `definitive`;
//! * `spec <max> <interval> <d>:<o> ...`  — the real `speculative_execution::execute` over synthetic fibers:
//!   the i-th fiber created by the generator sleeps `d_i` ms (0 = does not sleep at all) and returns `o_i`
//!   (`ok`, `none` = plan exhausted, or an error name); fibers beyond the script return `none` at once;
//! * `lbplan <shards> <ident> <node> <shard>` — the real `load_balancing::Plan` over the real `SingleTargetLoadBalancingPolicy` on a hook-built cluster;
//! * `gate <idem>[/<timeout>] <none|max:interval> <c>:<d>:<o>:<dec> ...` — the real `run_request_no_side_effects` (with `request_timeout = timeout` ms when given)
//!   (idempotence gate + `SharedPlan` + real fibers) over synthetic targets: target k has a connection iff
//!   `c = 1`, an attempt on it takes `d` ms and ends with `o` (`ok` or an attempt-error name); on an error the
//!   (scripted) retry policy answers `dec`: `n` next target, `d` don't retry, `i` ignore write error,
//!   `s` same target once, then next target.
use crate::rng::Rng;
use crate::{Ctx, Tier};
use scylla::errors::{
    BrokenConnectionError, BrokenConnectionErrorKind, ConnectionPoolError, CqlErrorParseError,
    CqlRequestSerializationError, CqlResponseKind, CqlResultParseError, DbError, FrameBodyExtensionsParseError,
    OperationType, RequestAttemptError, RequestError, SerializationError, WriteType,
};
use scylla::frame::types::Consistency;
use scylla::policies::load_balancing::DefaultPolicy;
use scylla::policies::retry::{RequestInfo, RetryDecision, RetryPolicy, RetrySession};
use scylla::policies::speculative_execution::SimpleSpeculativeExecutionPolicy;
use scylla::verif_hooks::exec;
use scylla::verif_hooks::speculative as hooks;
use std::cell::{Cell, RefCell};
use std::rc::Rc;
use std::sync::{Arc, OnceLock};
use std::time::Duration;

/// Virtual-time horizon: a call that has not returned by then waits on nothing.
const HORIZON_MS: u64 = 3_600_000;

// ------------------------------------------------------------------------------------------------
// the error universe
// ------------------------------------------------------------------------------------------------

const DB_NAMES: [&str; 20] = [
    "SyntaxError",
    "Invalid",
    "AlreadyExists",
    "FunctionFailure",
    "AuthenticationError",
    "Unauthorized",
    "ConfigError",
    "Unavailable",
    "Overloaded",
    "IsBootstrapping",
    "TruncateError",
    "ReadTimeout",
    "WriteTimeout",
    "ReadFailure",
    "WriteFailure",
    "Unprepared",
    "ServerError",
    "ProtocolError",
    "RateLimitReached",
    "Other",
];

const ATTEMPT_NAMES: [&str; 11] = [
    "SerializationError",
    "CqlRequestSerialization",
    "UnableToAllocStreamId",
    "BrokenConnectionError",
    "BodyExtensionsParseError",
    "CqlResultParseError",
    "CqlErrorParseError",
    "UnexpectedResponse",
    "RepreparedIdChanged",
    "RepreparedIdMissingInBatch",
    "NonfinishedPagingState",
];

const REQUEST_NAMES: [&str; 3] = ["EmptyPlan", "ConnectionPoolError", "RequestTimeout"];

/// The oracle's own classification, written from the property statement and the doc comments of the driver
/// ("errors whose presence on one node does not imply the same error on another node"), independent of the
/// Lean model: everything not listed is a *definitive* answer.
const IGNORABLE: [&str; 13] = [
    "ConnectionPoolError",
    "BrokenConnectionError",
    "UnableToAllocStreamId",
    "Unavailable",
    "Overloaded",
    "IsBootstrapping",
    "ReadTimeout",
    "WriteTimeout",
    "ReadFailure",
    "WriteFailure",
    "Unprepared",
    "ServerError",
    "RateLimitReached",
];

#[derive(Debug)]
struct StrErr(&'static str);
impl std::fmt::Display for StrErr {
    fn fmt(&self, f: &mut std::fmt::Formatter<'_>) -> std::fmt::Result {
        f.write_str(self.0)
    }
}
impl std::error::Error for StrErr {}

// An error value on the wire is `Name` or `Name(arg,...)`; a bare name of a variant with a payload stands for a
// default payload (the same default as in Drive/C13.lean).

const CONSISTENCIES: [(&str, Consistency); 11] = [
    ("Any", Consistency::Any),
    ("One", Consistency::One),
    ("Two", Consistency::Two),
    ("Three", Consistency::Three),
    ("Quorum", Consistency::Quorum),
    ("All", Consistency::All),
    ("LocalQuorum", Consistency::LocalQuorum),
    ("EachQuorum", Consistency::EachQuorum),
    ("LocalOne", Consistency::LocalOne),
    ("Serial", Consistency::Serial),
    ("LocalSerial", Consistency::LocalSerial),
];

fn cl_arg(s: &str) -> Option<Consistency> {
    CONSISTENCIES.iter().find(|(n, _)| *n == s).map(|(_, c)| *c)
}

fn wt_arg(s: &str) -> Option<WriteType> {
    Some(match s {
        "Simple" => WriteType::Simple,
        "Batch" => WriteType::Batch,
        "UnloggedBatch" => WriteType::UnloggedBatch,
        "Counter" => WriteType::Counter,
        "BatchLog" => WriteType::BatchLog,
        "Cas" => WriteType::Cas,
        "View" => WriteType::View,
        "Cdc" => WriteType::Cdc,
        _ => return None,
    })
}

fn bool_arg(s: &str) -> Option<bool> {
    match s {
        "1" => Some(true),
        "0" => Some(false),
        _ => None,
    }
}

fn op_arg(s: &str) -> Option<OperationType> {
    match s {
        "Read" => Some(OperationType::Read),
        "Write" => Some(OperationType::Write),
        _ => s.strip_prefix("Other").and_then(|n| n.parse::<u8>().ok()).map(OperationType::Other),
    }
}

fn split_tok(tok: &str) -> Option<(&str, Vec<&str>)> {
    match tok.split_once('(') {
        None => Some((tok, vec![])),
        Some((n, rest)) => {
            let inner = rest.strip_suffix(')')?;
            if inner.contains('(') {
                return None;
            }
            Some((n, if inner.is_empty() { vec![] } else { inner.split(',').collect() }))
        }
    }
}

/// The variant name of a token.
fn kind_of(tok: &str) -> &str {
    tok.split('(').next().unwrap_or(tok)
}

fn db_error(name: &str, a: &[&str]) -> Option<DbError> {
    let i = |s: &str| s.parse::<i32>().ok();
    Some(match (name, a) {
        ("SyntaxError", []) => DbError::SyntaxError,
        ("Invalid", []) => DbError::Invalid,
        ("AlreadyExists", []) => DbError::AlreadyExists { keyspace: "ks".into(), table: "t".into() },
        ("AlreadyExists", [k, t]) => DbError::AlreadyExists { keyspace: (*k).into(), table: (*t).into() },
        ("FunctionFailure", []) => DbError::FunctionFailure { keyspace: "ks".into(), function: "f".into(), arg_types: vec!["int".into()] },
        ("FunctionFailure", [k, f, n]) => DbError::FunctionFailure {
            keyspace: (*k).into(),
            function: (*f).into(),
            arg_types: vec!["int".to_owned(); n.parse::<usize>().ok()?],
        },
        ("AuthenticationError", []) => DbError::AuthenticationError,
        ("Unauthorized", []) => DbError::Unauthorized,
        ("ConfigError", []) => DbError::ConfigError,
        ("Unavailable", []) => DbError::Unavailable { consistency: Consistency::Quorum, required: 2, alive: 1 },
        ("Unavailable", [c, r, al]) => DbError::Unavailable { consistency: cl_arg(c)?, required: i(r)?, alive: i(al)? },
        ("Overloaded", []) => DbError::Overloaded,
        ("IsBootstrapping", []) => DbError::IsBootstrapping,
        ("TruncateError", []) => DbError::TruncateError,
        ("ReadTimeout", []) => DbError::ReadTimeout { consistency: Consistency::Quorum, received: 1, required: 2, data_present: true },
        ("ReadTimeout", [c, rc, rq, dp]) => {
            DbError::ReadTimeout { consistency: cl_arg(c)?, received: i(rc)?, required: i(rq)?, data_present: bool_arg(dp)? }
        }
        ("WriteTimeout", []) => {
            DbError::WriteTimeout { consistency: Consistency::Quorum, received: 1, required: 2, write_type: WriteType::Simple }
        }
        ("WriteTimeout", [c, rc, rq, wt]) => {
            DbError::WriteTimeout { consistency: cl_arg(c)?, received: i(rc)?, required: i(rq)?, write_type: wt_arg(wt)? }
        }
        ("ReadFailure", []) => {
            DbError::ReadFailure { consistency: Consistency::Quorum, received: 1, required: 2, numfailures: 1, data_present: false }
        }
        ("ReadFailure", [c, rc, rq, nf, dp]) => DbError::ReadFailure {
            consistency: cl_arg(c)?,
            received: i(rc)?,
            required: i(rq)?,
            numfailures: i(nf)?,
            data_present: bool_arg(dp)?,
        },
        ("WriteFailure", []) => DbError::WriteFailure {
            consistency: Consistency::Quorum,
            received: 1,
            required: 2,
            numfailures: 1,
            write_type: WriteType::Batch,
        },
        ("WriteFailure", [c, rc, rq, nf, wt]) => DbError::WriteFailure {
            consistency: cl_arg(c)?,
            received: i(rc)?,
            required: i(rq)?,
            numfailures: i(nf)?,
            write_type: wt_arg(wt)?,
        },
        ("Unprepared", []) => DbError::Unprepared { statement_id: bytes::Bytes::from_static(b"id") },
        ("Unprepared", [h]) => DbError::Unprepared { statement_id: bytes::Bytes::from(crate::util::unhex(h)?) },
        ("ServerError", []) => DbError::ServerError,
        ("ProtocolError", []) => DbError::ProtocolError,
        ("RateLimitReached", []) => DbError::RateLimitReached { op_type: OperationType::Write, rejected_by_coordinator: true },
        ("RateLimitReached", [op, f]) => DbError::RateLimitReached { op_type: op_arg(op)?, rejected_by_coordinator: bool_arg(f)? },
        ("Other", []) => DbError::Other(0x1234),
        ("Other", [c]) => DbError::Other(i(c)?),
        _ => return None,
    })
}

fn low_level() -> scylla_cql_core::frame::frame_errors::LowLevelDeserializationError {
    scylla_cql_core::frame::frame_errors::LowLevelDeserializationError::InvalidValueLength(-7)
}

fn io_err(kind: &str) -> Option<std::io::Error> {
    let k = match kind {
        "BrokenPipe" => std::io::ErrorKind::BrokenPipe,
        "ConnectionReset" => std::io::ErrorKind::ConnectionReset,
        "TimedOut" => std::io::ErrorKind::TimedOut,
        "UnexpectedEof" => std::io::ErrorKind::UnexpectedEof,
        _ => return None,
    };
    Some(std::io::Error::new(k, "verif"))
}

fn broken_kind(a: &[&str]) -> Option<BrokenConnectionErrorKind> {
    use scylla::errors::FrameHeaderParseError as H;
    Some(match a {
        [] | ["ChannelError"] => BrokenConnectionErrorKind::ChannelError,
        ["KeepaliveTimeout"] => BrokenConnectionErrorKind::KeepaliveTimeout(std::net::IpAddr::from([127, 0, 0, 1])),
        ["KeepaliveRequestError"] => BrokenConnectionErrorKind::KeepaliveRequestError(Arc::new(StrErr("keepalive"))),
        ["FrameHeaderParseError", sub] => BrokenConnectionErrorKind::FrameHeaderParseError(match *sub {
            "HeaderIoError" => H::HeaderIoError(io_err("UnexpectedEof")?),
            "FrameFromClient" => H::FrameFromClient,
            "FrameFromServer" => H::FrameFromServer,
            "VersionNotSupported" => H::VersionNotSupported(3),
            "ConnectionClosed" => H::ConnectionClosed(9, 4),
            _ => return None,
        }),
        ["CqlEventHandlingError"] => {
            BrokenConnectionErrorKind::CqlEventHandlingError(scylla::errors::CqlEventHandlingError::SendError)
        }
        ["UnexpectedStreamId", n] => BrokenConnectionErrorKind::UnexpectedStreamId(n.parse().ok()?),
        ["WriteError", k] => BrokenConnectionErrorKind::WriteError(io_err(k)?),
        ["TooManyOrphanedStreamIds", n] => BrokenConnectionErrorKind::TooManyOrphanedStreamIds(n.parse().ok()?),
        _ => return None,
    })
}

fn sub_arg<'a>(allowed: &[&'a str], a: &[&str]) -> Option<&'a str> {
    match a {
        [] => allowed.first().copied(),
        [x] => allowed.iter().find(|y| *y == x).copied(),
        _ => None,
    }
}

fn attempt_error_parts(name: &str, a: &[&str]) -> Option<RequestAttemptError> {
    use scylla_cql_core::frame::frame_errors::BatchSerializationError;
    Some(match name {
        "SerializationError" if a.is_empty() => RequestAttemptError::SerializationError(SerializationError::new(StrErr("ser"))),
        "CqlRequestSerialization" => RequestAttemptError::CqlRequestSerialization(
            match sub_arg(&["SnapCompressError", "BatchTooManyStatements", "BatchLengthMismatch"], a)? {
                "SnapCompressError" => CqlRequestSerializationError::SnapCompressError(Arc::new(StrErr("snap"))),
                "BatchTooManyStatements" => {
                    CqlRequestSerializationError::BatchSerialization(BatchSerializationError::TooManyStatements(70000))
                }
                _ => CqlRequestSerializationError::BatchSerialization(BatchSerializationError::ValuesAndStatementsLengthMismatch {
                    n_value_lists: 1,
                    n_statements: 2,
                }),
            },
        ),
        "UnableToAllocStreamId" if a.is_empty() => RequestAttemptError::UnableToAllocStreamId,
        "BrokenConnectionError" => RequestAttemptError::BrokenConnectionError(BrokenConnectionError::from(broken_kind(a)?)),
        "BodyExtensionsParseError" => RequestAttemptError::BodyExtensionsParseError(
            match sub_arg(&["NoCompressionNegotiated", "TraceIdParse", "WarningsListParse", "CustomPayloadMapParse", "SnapDecompressError"], a)? {
                "NoCompressionNegotiated" => FrameBodyExtensionsParseError::NoCompressionNegotiated,
                "TraceIdParse" => FrameBodyExtensionsParseError::TraceIdParse(low_level()),
                "WarningsListParse" => FrameBodyExtensionsParseError::WarningsListParse(low_level()),
                "CustomPayloadMapParse" => FrameBodyExtensionsParseError::CustomPayloadMapParse(low_level()),
                _ => FrameBodyExtensionsParseError::SnapDecompressError(Arc::new(StrErr("snap"))),
            },
        ),
        "CqlResultParseError" => RequestAttemptError::CqlResultParseError(
            match sub_arg(&["UnknownResultId", "ResultIdParseError", "SetKeyspaceParseError"], a)? {
                "UnknownResultId" => CqlResultParseError::UnknownResultId(77),
                "ResultIdParseError" => CqlResultParseError::ResultIdParseError(low_level()),
                _ => CqlResultParseError::SetKeyspaceParseError(
                    scylla_cql_core::frame::frame_errors::SetKeyspaceParseError::MalformedKeyspaceName(low_level()),
                ),
            },
        ),
        "CqlErrorParseError" => RequestAttemptError::CqlErrorParseError(
            match sub_arg(&["ErrorCodeParseError", "ReasonParseError", "MalformedErrorField"], a)? {
                "ErrorCodeParseError" => CqlErrorParseError::ErrorCodeParseError(low_level()),
                "ReasonParseError" => CqlErrorParseError::ReasonParseError(low_level()),
                _ => CqlErrorParseError::MalformedErrorField { db_error: "RATE_LIMIT_ERROR", field: "OP_TYPE", err: low_level() },
            },
        ),
        "UnexpectedResponse" => RequestAttemptError::UnexpectedResponse(
            match sub_arg(&["Ready", "Error", "Authenticate", "Supported", "Result", "Event", "AuthChallenge", "AuthSuccess"], a)? {
                "Ready" => CqlResponseKind::Ready,
                "Error" => CqlResponseKind::Error,
                "Authenticate" => CqlResponseKind::Authenticate,
                "Supported" => CqlResponseKind::Supported,
                "Result" => CqlResponseKind::Result,
                "Event" => CqlResponseKind::Event,
                "AuthChallenge" => CqlResponseKind::AuthChallenge,
                _ => CqlResponseKind::AuthSuccess,
            },
        ),
        "RepreparedIdChanged" if a.is_empty() => {
            RequestAttemptError::RepreparedIdChanged { statement: "s".into(), expected_id: vec![1], reprepared_id: vec![2] }
        }
        "RepreparedIdMissingInBatch" if a.is_empty() => RequestAttemptError::RepreparedIdMissingInBatch,
        "NonfinishedPagingState" if a.is_empty() => RequestAttemptError::NonfinishedPagingState,
        _ => RequestAttemptError::DbError(db_error(name, a)?, "msg".into()),
    })
}

/// Builds the REAL attempt error named by a token.
fn attempt_error(tok: &str) -> Option<RequestAttemptError> {
    let (name, a) = split_tok(tok)?;
    attempt_error_parts(name, &a)
}

/// Builds the REAL request error named by a token.
fn request_error(tok: &str) -> Option<RequestError> {
    let (name, a) = split_tok(tok)?;
    Some(match (name, a.as_slice()) {
        ("EmptyPlan", []) => RequestError::EmptyPlan,
        ("ConnectionPoolError", []) | ("ConnectionPoolError", ["Initializing"]) => {
            RequestError::ConnectionPoolError(ConnectionPoolError::Initializing)
        }
        ("ConnectionPoolError", ["Broken"]) => RequestError::ConnectionPoolError(ConnectionPoolError::Broken {
            last_connection_error: scylla::errors::ConnectionError::ConnectTimeout,
        }),
        ("ConnectionPoolError", ["NodeDisabledByHostFilter"]) => {
            RequestError::ConnectionPoolError(ConnectionPoolError::NodeDisabledByHostFilter)
        }
        ("RequestTimeout", []) => RequestError::RequestTimeout(Duration::from_millis(5)),
        ("RequestTimeout", [ms]) => RequestError::RequestTimeout(Duration::from_millis(ms.parse().ok()?)),
        _ => RequestError::LastAttemptError(attempt_error_parts(name, &a)?),
    })
}

/// The attempt-error part of the universe: every `RequestAttemptError` variant, every nested variant the harness
/// can build, every `DbError` variant with boundary payloads (both flag values, every operation / write type).
fn attempt_universe() -> Vec<String> {
    let mut u: Vec<String> = Vec::new();
    let mut p = |s: &str| u.push(s.to_owned());
    p("SerializationError");
    for s in ["SnapCompressError", "BatchTooManyStatements", "BatchLengthMismatch"] {
        p(&format!("CqlRequestSerialization({})", s));
    }
    p("UnableToAllocStreamId");
    for s in [
        "KeepaliveTimeout",
        "KeepaliveRequestError",
        "FrameHeaderParseError,HeaderIoError",
        "FrameHeaderParseError,FrameFromClient",
        "FrameHeaderParseError,FrameFromServer",
        "FrameHeaderParseError,VersionNotSupported",
        "FrameHeaderParseError,ConnectionClosed",
        "CqlEventHandlingError",
        "UnexpectedStreamId,7",
        "UnexpectedStreamId,-1",
        "WriteError,BrokenPipe",
        "WriteError,ConnectionReset",
        "WriteError,TimedOut",
        "TooManyOrphanedStreamIds,9",
        "ChannelError",
    ] {
        p(&format!("BrokenConnectionError({})", s));
    }
    for s in ["NoCompressionNegotiated", "TraceIdParse", "WarningsListParse", "CustomPayloadMapParse", "SnapDecompressError"] {
        p(&format!("BodyExtensionsParseError({})", s));
    }
    for s in ["UnknownResultId", "ResultIdParseError", "SetKeyspaceParseError"] {
        p(&format!("CqlResultParseError({})", s));
    }
    for s in ["ErrorCodeParseError", "ReasonParseError", "MalformedErrorField"] {
        p(&format!("CqlErrorParseError({})", s));
    }
    for s in ["Ready", "Error", "Authenticate", "Supported", "Result", "Event", "AuthChallenge", "AuthSuccess"] {
        p(&format!("UnexpectedResponse({})", s));
    }
    p("RepreparedIdChanged");
    p("RepreparedIdMissingInBatch");
    p("NonfinishedPagingState");
    // DbError
    for s in ["SyntaxError", "Invalid", "AuthenticationError", "Unauthorized", "ConfigError", "Overloaded", "IsBootstrapping", "TruncateError", "ServerError", "ProtocolError"] {
        p(s);
    }
    p("AlreadyExists(ks,tbl)");
    p("AlreadyExists(,)");
    p("FunctionFailure(ks,fn,0)");
    p("FunctionFailure(ks,fn,3)");
    for (cl, _) in CONSISTENCIES {
        p(&format!("Unavailable({},2,1)", cl));
    }
    for (r, a) in [(0, 0), (1, 0), (3, 3), (2147483647, -1), (-2147483648, 2147483647)] {
        p(&format!("Unavailable(Quorum,{},{})", r, a));
    }
    for dp in [0, 1] {
        for (rc, rq) in [(0, 1), (1, 2), (2, 2), (3, 2), (-1, 2147483647)] {
            p(&format!("ReadTimeout(LocalQuorum,{},{},{})", rc, rq, dp));
            p(&format!("ReadFailure(One,{},{},{},{})", rc, rq, (rc + 1) % 3, dp));
        }
    }
    for wt in ["Simple", "Batch", "UnloggedBatch", "Counter", "BatchLog", "Cas", "View", "Cdc"] {
        for (rc, rq) in [(0, 1), (1, 2), (2, 2)] {
            p(&format!("WriteTimeout(Quorum,{},{},{})", rc, rq, wt));
            p(&format!("WriteFailure(All,{},{},1,{})", rc, rq, wt));
        }
    }
    p("Unprepared(-)");
    p("Unprepared(00)");
    p("Unprepared(deadbeef0123456789abcdef00112233)");
    for op in ["Read", "Write", "Other0", "Other2", "Other255"] {
        for f in [0, 1] {
            p(&format!("RateLimitReached({},{})", op, f));
        }
    }
    for c in [0, 1, -1, 0x1234, 0x4321, 2147483647, -2147483648i64] {
        p(&format!("Other({})", c));
    }
    u
}

/// The whole error universe: `RequestError` = `EmptyPlan | ConnectionPoolError(..) | RequestTimeout(..) | LastAttemptError(..)`.
fn universe() -> Vec<String> {
    let mut u: Vec<String> = vec![
        "EmptyPlan".to_owned(),
        "ConnectionPoolError(Broken)".to_owned(),
        "ConnectionPoolError(Initializing)".to_owned(),
        "ConnectionPoolError(NodeDisabledByHostFilter)".to_owned(),
        "RequestTimeout(0)".to_owned(),
        "RequestTimeout(5)".to_owned(),
        "RequestTimeout(3600000)".to_owned(),
    ];
    u.extend(attempt_universe());
    u
}

/// Universe split by the ORACLE's classification (by variant name only: the property's classes do not depend on
/// any payload), so that every ignorable value and every definitive value is fed to the execute-level cases.
fn universe_by_class(attempts_only: bool) -> (Vec<String>, Vec<String>) {
    let all = if attempts_only { attempt_universe() } else { universe() };
    all.into_iter().partition(|t| is_ignorable_name(kind_of(t)))
}

fn db_name(e: &DbError) -> &'static str {
    match e {
        DbError::SyntaxError => "SyntaxError",
        DbError::Invalid => "Invalid",
        DbError::AlreadyExists { .. } => "AlreadyExists",
        DbError::FunctionFailure { .. } => "FunctionFailure",
        DbError::AuthenticationError => "AuthenticationError",
        DbError::Unauthorized => "Unauthorized",
        DbError::ConfigError => "ConfigError",
        DbError::Unavailable { .. } => "Unavailable",
        DbError::Overloaded => "Overloaded",
        DbError::IsBootstrapping => "IsBootstrapping",
        DbError::TruncateError => "TruncateError",
        DbError::ReadTimeout { .. } => "ReadTimeout",
        DbError::WriteTimeout { .. } => "WriteTimeout",
        DbError::ReadFailure { .. } => "ReadFailure",
        DbError::WriteFailure { .. } => "WriteFailure",
        DbError::Unprepared { .. } => "Unprepared",
        DbError::ServerError => "ServerError",
        DbError::ProtocolError => "ProtocolError",
        DbError::RateLimitReached { .. } => "RateLimitReached",
        DbError::Other(_) => "Other",
        _ => "UnknownDbError",
    }
}

fn attempt_name(e: &RequestAttemptError) -> &'static str {
    match e {
        RequestAttemptError::SerializationError(_) => "SerializationError",
        RequestAttemptError::CqlRequestSerialization(_) => "CqlRequestSerialization",
        RequestAttemptError::UnableToAllocStreamId => "UnableToAllocStreamId",
        RequestAttemptError::BrokenConnectionError(_) => "BrokenConnectionError",
        RequestAttemptError::BodyExtensionsParseError(_) => "BodyExtensionsParseError",
        RequestAttemptError::CqlResultParseError(_) => "CqlResultParseError",
        RequestAttemptError::CqlErrorParseError(_) => "CqlErrorParseError",
        RequestAttemptError::DbError(db, _) => db_name(db),
        RequestAttemptError::UnexpectedResponse(_) => "UnexpectedResponse",
        RequestAttemptError::RepreparedIdChanged { .. } => "RepreparedIdChanged",
        RequestAttemptError::RepreparedIdMissingInBatch => "RepreparedIdMissingInBatch",
        RequestAttemptError::NonfinishedPagingState => "NonfinishedPagingState",
        _ => "UnknownAttemptError",
    }
}

fn request_name(e: &RequestError) -> &'static str {
    match e {
        RequestError::EmptyPlan => "EmptyPlan",
        RequestError::ConnectionPoolError(_) => "ConnectionPoolError",
        RequestError::RequestTimeout(_) => "RequestTimeout",
        RequestError::LastAttemptError(e) => attempt_name(e),
        _ => "UnknownRequestError",
    }
}

/// Canonical rendering of a returned error: the variant name; `RequestTimeout` with its duration in ms.
fn render_err(e: &RequestError) -> String {
    match e {
        RequestError::RequestTimeout(d) => format!("RequestTimeout({})", d.as_millis()),
        e => request_name(e).to_owned(),
    }
}

/// What `render_err` gives for the error built from a token.
fn render_tok(tok: &str) -> String {
    request_error(tok).map(|e| render_err(&e)).unwrap_or_else(|| kind_of(tok).to_owned())
}

fn is_ignorable_name(name: &str) -> bool {
    IGNORABLE.contains(&name)
}

// ------------------------------------------------------------------------------------------------
// generation
// ------------------------------------------------------------------------------------------------

/// The four outcome classes of a synthetic fiber: S success, D definitive error, I ignorable error, N plan exhausted.
/// `k` selects the value inside the class: the sweeps rotate through EVERY ignorable / definitive value of the universe.
fn outcome_token(class: char, k: usize, pools: &(Vec<String>, Vec<String>)) -> String {
    match class {
        'S' => "ok".to_owned(),
        'N' => "none".to_owned(),
        'I' => pools.0[k % pools.0.len()].clone(),
        _ => pools.1[k % pools.1.len()].clone(),
    }
}

fn all_error_names() -> Vec<&'static str> {
    REQUEST_NAMES.iter().chain(ATTEMPT_NAMES.iter()).chain(DB_NAMES.iter()).copied().collect()
}

fn emit_spec_exhaustive(fibers: usize, interval: u64, maxes: &[usize], delays: &[u64], emit: &mut dyn FnMut(String)) {
    let classes = ['S', 'D', 'I', 'N'];
    let pools = universe_by_class(false);
    let per = delays.len() * classes.len();
    let total = per.pow(fibers as u32);
    for &max in maxes {
        for code in 0..total {
            let mut c = code;
            let mut line = format!("spec {} {}", max, interval);
            for f in 0..fibers {
                let k = c % per;
                c /= per;
                // a different value for every fiber of a case, rotating through the whole class over the sweep
                let pick = code.wrapping_mul(7) + max * 3 + f * 13;
                line.push_str(&format!(" {}:{}", delays[k / classes.len()], outcome_token(classes[k % classes.len()], pick, &pools)));
            }
            emit(line);
        }
    }
}

fn random_spec(rng: &mut Rng, max_fibers: usize, pools: &(Vec<String>, Vec<String>)) -> String {
    let interval = *rng.pick(&[0u64, 1, 2, 7, 10, 10, 10, 100]);
    let max = rng.below(5) as usize;
    let n = 1 + rng.below(max_fibers as u64) as usize;
    let mut line = format!("spec {} {}", max, interval);
    // mostly ignorable errors (so that several fibers get started), delays around multiples of the interval
    for f in 0..n {
        let d = match rng.below(6) {
            0 => 0,
            1 => interval * rng.below(6),
            2 => interval * rng.below(6) + rng.below(interval),
            3 => (interval * (1 + rng.below(5))).saturating_sub(1),
            4 => interval * (1 + rng.below(5)) + 1,
            _ => rng.below(interval * 6 + 1),
        };
        let o = match rng.below(12) {
            0 | 1 => "ok".to_owned(),
            2 => "none".to_owned(),
            3 => (*rng.pick(&all_error_names())).to_owned(),
            4 | 5 => outcome_token('D', rng.below(1 << 20) as usize + f, pools),
            _ => outcome_token('I', rng.below(1 << 20) as usize + f, pools),
        };
        line.push_str(&format!(" {}:{}", d, o));
    }
    line
}

fn random_gate(rng: &mut Rng, max_targets: usize, pools: &(Vec<String>, Vec<String>)) -> String {
    let idem = rng.chance(1, 2);
    let pol = if rng.chance(1, 6) {
        "none".to_owned()
    } else {
        format!("{}:{}", rng.below(5), *rng.pick(&[4u64, 10, 10, 25]))
    };
    let n = rng.below(max_targets as u64 + 1) as usize;
    let timeout = if rng.chance(1, 3) {
        format!("/{}", *rng.pick(&[0u64, 1, 5, 10, 15, 20, 25, 30, 40, 60, 100, 200]))
    } else {
        String::new()
    };
    let mut line = format!("gate {}{} {}", idem as u8, timeout, pol);
    for _ in 0..n {
        let c = if rng.chance(1, 7) { 0 } else { 1 };
        let d = match rng.below(5) {
            0 => 0,
            1 => *rng.pick(&[4u64, 5, 8, 10, 20, 25, 30, 50]),
            _ => 1 + rng.below(60),
        };
        let o = match rng.below(10) {
            0 | 1 => "ok".to_owned(),
            2 => (*rng.pick(&ATTEMPT_NAMES.iter().chain(DB_NAMES.iter()).copied().collect::<Vec<_>>())).to_owned(),
            3 | 4 => rng.pick(&pools.1).clone(),
            _ => rng.pick(&pools.0).clone(),
        };
        let dec = *rng.pick(&['n', 'n', 'n', 'n', 'd', 'i', 's', 's']);
        line.push_str(&format!(" {}:{}:{}:{}", c, d, o, dec));
    }
    line
}

/// Small pool of target scripts for the exhaustive `gate` sweep (interval is 10):
/// quick/slow success, quick/slow/very slow ignorable error moving on, definitive error stopping the fiber,
/// no connection, same-target retry, ignored write error.
const GATE_POOL: [&str; 9] = [
    "1:5:ok:n",
    "1:15:ok:n",
    "1:5:Overloaded:n",
    "1:15:Unavailable:n",
    "1:25:ServerError:n",
    "1:15:Invalid:d",
    "0:0:ok:n",
    "1:15:ReadTimeout:s",
    "1:5:WriteTimeout:i",
];

fn emit_gate_exhaustive(targets: usize, emit: &mut dyn FnMut(String)) {
    let total = GATE_POOL.len().pow(targets as u32);
    // without a client-side timeout, with one off the grid of completion times, with one that ties with them
    for idem in ["0", "1", "0/12", "1/12", "0/30", "1/30"] {
        for pol in ["none", "0:10", "1:10", "2:10"] {
            for code in 0..total {
                let mut c = code;
                let mut line = format!("gate {} {}", idem, pol);
                for _ in 0..targets {
                    line.push(' ');
                    line.push_str(GATE_POOL[c % GATE_POOL.len()]);
                    c /= GATE_POOL.len();
                }
                emit(line);
            }
        }
    }
}

pub fn generate(rng: &mut Rng, tier: Tier, emit: &mut dyn FnMut(String)) {
    let quick = tier == Tier::Quick;
    // classification table: the whole universe
    emit("class ok".to_owned());
    for n in all_error_names() {
        emit(format!("class {}", n));
    }
    for t in universe() {
        emit(format!("class {}", t));
    }
    // the real Plan over the real single-target policy: every identifier kind x node x shard (none / in range / out of range)
    for shards in ["0", "4", "0,0", "0,4", "4,2", "1,0,3", "2,2,2"] {
        let n = shards.split(',').count();
        for ident in ["host", "node", "addr", "nohost", "noaddr"] {
            for target in 0..n {
                for shard in ["-", "0", "1", "3", "7"] {
                    emit(format!("lbplan {} {} {} {}", shards, ident, target, shard));
                }
            }
        }
    }
    // the real Plan over a SCRIPTED policy: every pick (none included) x every fallback of <= 3 entries over a 2-node
    // universe (unsharded node 0, 4-shard node 1; shard-less, in-range and equal/different explicit shards): exact copies
    // of the pick, the same node on another shard, shard-less copies, duplicates inside the fallback, empty fallback
    {
        let ents = ["0:-", "0:0", "0:1", "1:-", "1:0", "1:3"];
        let mut fbs: Vec<String> = vec!["-".to_owned()];
        for a in ents {
            fbs.push(a.to_owned());
            for b in ents {
                fbs.push(format!("{},{}", a, b));
                for c in ents {
                    fbs.push(format!("{},{},{}", a, b, c));
                }
            }
        }
        for pick in std::iter::once("none").chain(ents) {
            for fb in &fbs {
                emit(format!("lbscript 0,4 {} {}", pick, fb));
            }
        }
        for _ in 0..(if quick { 500 } else { 6000 }) {
            let n = 1 + rng.below(4) as usize;
            let shards: Vec<u64> = (0..n).map(|_| *rng.pick(&[0u64, 0, 1, 2, 5])).collect();
            let ent = |rng: &mut Rng| {
                let k = rng.below(n as u64) as usize;
                match rng.below(3) {
                    0 => format!("{}:-", k),
                    _ => format!("{}:{}", k, rng.below(shards[k].max(1) + 1)),
                }
            };
            let pick = if rng.chance(1, 4) { "none".to_owned() } else { ent(rng) };
            let len = rng.below(6);
            let fb = if len == 0 { "-".to_owned() } else { (0..len).map(|_| ent(rng)).collect::<Vec<_>>().join(",") };
            emit(format!("lbscript {} {} {}", shards.iter().map(|s| s.to_string()).collect::<Vec<_>>().join(","), pick, fb));
        }
    }
    // pplan: a real Session with a scripted in-order policy pages through the mock cluster; the Lean driver runs
    // `pagerPlan` on the (node, shard) targets of every page (real time: a few cases)
    for i in 0..(if quick { 24 } else { 100 }) {
        let n = 2 + rng.below(3) as usize;
        let sh = *rng.pick(&[0u64, 0, 2, 3]);
        let mut nodes: Vec<usize> = (0..n).collect();
        rng.shuffle(&mut nodes);
        let mut order: Vec<(usize, Option<u64>)> = nodes.iter().map(|k| (*k, if sh == 0 { None } else { Some(rng.below(sh)) })).collect();
        if sh > 0 {
            // the same node on another shard (a different target), possibly the coordinator's node
            for _ in 0..rng.below(3) {
                let k = rng.below(n as u64) as usize;
                let s = rng.below(sh);
                if !order.contains(&(k, Some(s))) {
                    let at = rng.below(order.len() as u64 + 1) as usize;
                    order.insert(at, (k, Some(s)));
                }
            }
        }
        if rng.chance(1, 3) {
            let first = order[0];
            order.push(first); // an exact copy of the picked entry: skipped by `Plan`
        }
        let ord: Vec<String> = order.iter().map(|(k, s)| format!("{}:{}", k, s.map(|x| x.to_string()).unwrap_or_else(|| "-".to_owned()))).collect();
        emit(format!(
            "pplan n={} sh={} idem=1 max={} iv=25 slow={} kind={} order={} seed={}",
            n,
            sh,
            order.len(),
            [1u64, 2, 1, 0][i % 4],
            if i % 2 == 0 { "exec" } else { "query" },
            ord.join(","),
            rng.below(1 << 32)
        ));
    }
    let spec_pools = universe_by_class(false);
    let gate_pools = universe_by_class(true);
    // every value of the universe as the outcome of the first execution while a second one is pending
    // (an ignorable one must not end the call, a definitive one must)
    for t in universe() {
        emit(format!("spec 1 10 5:{} 20:ok", t));
        emit(format!("spec 2 10 15:{} 30:Overloaded 0:ok", t));
    }
    for t in attempt_universe() {
        emit(format!("gate 1 1:10 1:5:{}:d 1:20:ok:n", t));
        emit(format!("gate 1 2:10 1:15:{}:n 1:20:ok:n 1:1:ok:n", t));
    }
    // exhaustive: (delay on the half-interval grid incl. ties with the timer, outcome class) per fiber x max 0..4
    let interval = 10u64;
    let grid: Vec<u64> = vec![0, 5, 10, 15, 20, 30];
    let all_max = [0usize, 1, 2, 3, 4];
    emit_spec_exhaustive(1, interval, &all_max, &grid, emit);
    emit_spec_exhaustive(2, interval, &all_max, &grid, emit);
    emit_spec_exhaustive(3, interval, &all_max, &grid, emit);
    for t in 0..=3 {
        emit_gate_exhaustive(t, emit);
    }
    if quick {
        emit_spec_exhaustive(4, interval, &[3, 4], &[5, 10, 25], emit);
    } else {
        emit_spec_exhaustive(4, interval, &[1, 2, 4], &grid, emit);
        emit_spec_exhaustive(5, interval, &[3, 4], &[5, 10, 45], emit);
        emit_gate_exhaustive(4, emit);
    }
    let scale = if quick { 1 } else { 12 };
    for _ in 0..20_000 * scale {
        emit(random_spec(rng, 6, &spec_pools));
    }
    for _ in 0..30_000 * scale {
        emit(random_gate(rng, 6, &gate_pools));
    }
    // where the flag the gate reads comes from: the public setters of Statement / PreparedStatement / Batch
    crate::c13_cfg::generate(rng, tier, emit);
}

// ------------------------------------------------------------------------------------------------
// running
// ------------------------------------------------------------------------------------------------

#[derive(Clone, Debug, PartialEq)]
enum Out {
    Ok,
    None,
    Err(String),
}

fn parse_outcome(s: &str) -> Option<Out> {
    match s {
        "ok" => Some(Out::Ok),
        "none" => Some(Out::None),
        n => request_error(n).map(|_| Out::Err(n.to_owned())),
    }
}

fn runtime() -> tokio::runtime::Runtime {
    tokio::runtime::Builder::new_current_thread().enable_time().start_paused(true).build().unwrap()
}

fn render_result<T>(r: &Result<T, RequestError>, ok: impl Fn(&T) -> String) -> String {
    match r {
        Ok(v) => ok(v),
        Err(e) => format!("err:{}", render_err(e)),
    }
}

fn run_class(w: &[&str], ctx: &mut Ctx) -> String {
    if w.len() != 2 {
        return "bad-case".to_owned();
    }
    let r: Result<usize, RequestError> = match w[1] {
        "ok" => Ok(0),
        n => match request_error(n) {
            Some(e) => Err(e),
            None => return "bad-case".to_owned(),
        },
    };
    // the REAL classification (`speculative_execution::can_be_ignored`, which delegates to
    // `DbError::can_speculative_retry`) on the real error value
    let got = hooks::can_be_ignored(&r);
    // the property's classification: by variant only, whatever the payload
    let want = w[1] != "ok" && is_ignorable_name(kind_of(w[1]));
    if got != want {
        ctx.fail(format!(
            "can_be_ignored({}) = {} but the property classifies every {} as {}",
            w[1],
            got,
            kind_of(w[1]),
            if want { "ignorable (may differ on another node: must not end the call)" } else { "a real answer (success or definitive error)" }
        ));
    }
    if let Err(e) = &r {
        if request_name(e) != kind_of(w[1]) {
            ctx.fail(format!("harness built a {} for token {}", request_name(e), w[1]));
        }
    }
    (if got { "ignorable" } else { "definitive" }).to_owned()
}

fn run_spec(w: &[&str], mutant: Option<u32>, ctx: &mut Ctx) -> String {
    if w.len() < 3 {
        return "bad-case".to_owned();
    }
    let (Ok(max), Ok(interval)) = (w[1].parse::<usize>(), w[2].parse::<u64>()) else {
        return "bad-case".to_owned();
    };
    let mut script: Vec<(u64, Out)> = Vec::new();
    for t in &w[3..] {
        let Some((d, o)) = t.split_once(':') else { return "bad-case".to_owned() };
        let (Ok(d), Some(o)) = (d.parse::<u64>(), parse_outcome(o)) else { return "bad-case".to_owned() };
        script.push((d, o));
    }
    let policy = SimpleSpeculativeExecutionPolicy { max_retry_count: max, retry_interval: Duration::from_millis(interval) };
    // (sequence number, time, fiber, is_speculative)
    let starts: Rc<RefCell<Vec<(u64, bool)>>> = Rc::default();
    // (time, fiber, outcome) in the order the fibers' futures completed
    let done: Rc<RefCell<Vec<(u64, usize, Out)>>> = Rc::default();
    let start_after_none: Rc<Cell<bool>> = Rc::default();
    let rt = runtime();
    let res = rt.block_on(async {
        let t0 = tokio::time::Instant::now();
        let generator = {
            let starts = Rc::clone(&starts);
            let done = Rc::clone(&done);
            let start_after_none = Rc::clone(&start_after_none);
            let script = script.clone();
            move |is_speculative: bool| {
                let idx = starts.borrow().len();
                starts.borrow_mut().push((t0.elapsed().as_millis() as u64, is_speculative));
                if done.borrow().iter().any(|(_, _, o)| *o == Out::None) {
                    start_after_none.set(true);
                }
                let (d, o) = script.get(idx).cloned().unwrap_or((0, Out::None));
                let done = Rc::clone(&done);
                async move {
                    if d > 0 {
                        tokio::time::sleep(Duration::from_millis(d)).await;
                    }
                    done.borrow_mut().push((t0.elapsed().as_millis() as u64, idx, o.clone()));
                    match o {
                        Out::Ok => Some(Ok(idx)),
                        Out::None => None,
                        Out::Err(n) => Some(Err(request_error(&n).unwrap())),
                    }
                }
            }
        };
        let r = match mutant {
            None => tokio::time::timeout(Duration::from_millis(HORIZON_MS), hooks::execute(&policy, generator)).await,
            Some(k) => tokio::time::timeout(Duration::from_millis(HORIZON_MS), mutant_execute(k, max, interval, generator)).await,
        };
        (r, t0.elapsed().as_millis() as u64)
    });
    let starts = starts.borrow();
    let done = done.borrow();
    let (res, at) = res;
    let Ok(res) = res else {
        ctx.fail(format!(
            "execute did not return within the virtual horizon: {} fibers started, {} completed (waits on nothing)",
            starts.len(),
            done.len()
        ));
        return "HANG".to_owned();
    };
    // ---- oracle (independent of the model) ----
    if starts.len() > 1 + max {
        ctx.fail(format!("{} executions started, policy allows 1 + {}", starts.len(), max));
    }
    for (i, (_, flag)) in starts.iter().enumerate() {
        if *flag != (i > 0) {
            ctx.fail(format!("execution {} started with is_speculative = {}", i, flag));
        }
    }
    if start_after_none.get() {
        ctx.fail("an execution was started after another one reported the plan exhausted");
    }
    let real = |o: &Out| match o {
        Out::Ok => true,
        Out::None => false,
        Out::Err(n) => !is_ignorable_name(kind_of(n)),
    };
    let rendered = render_result(&res, |i| format!("ok:{}", i));
    match done.iter().position(|(_, _, o)| real(o)) {
        Some(p) => {
            let (_, f, o) = &done[p];
            let want = match o {
                Out::Ok => format!("ok:{}", f),
                Out::Err(n) => format!("err:{}", render_tok(n)),
                Out::None => unreachable!(),
            };
            if rendered != want {
                ctx.fail(format!("returned {} but the first real answer (execution {}) was {}", rendered, f, want));
            }
            if p + 1 != done.len() {
                ctx.fail("executions kept being consumed after the first real answer");
            }
        }
        None => {
            let want = done
                .iter()
                .rev()
                .find_map(|(_, _, o)| if let Out::Err(n) = o { Some(format!("err:{}", render_tok(n))) } else { None })
                .unwrap_or_else(|| "err:EmptyPlan".to_owned());
            if rendered != want {
                ctx.fail(format!("no real answer: returned {} but the last error was {}", rendered, want));
            }
            if done.len() != starts.len() {
                ctx.fail(format!(
                    "returned the last error while {} of {} started executions were still running",
                    starts.len() - done.len(),
                    starts.len()
                ));
            }
            let exhausted = done.iter().any(|(_, _, o)| *o == Out::None);
            if starts.len() < 1 + max && !exhausted {
                ctx.fail(format!(
                    "gave up with the last error after {} executions although {} more were allowed and the plan was not exhausted",
                    starts.len(),
                    1 + max - starts.len()
                ));
            }
        }
    }
    format!(
        "starts={} seen={} res={} at={}",
        starts.iter().map(|(t, _)| t.to_string()).collect::<Vec<_>>().join(","),
        if done.is_empty() { "-".to_owned() } else { done.iter().map(|(_, f, _)| f.to_string()).collect::<Vec<_>>().join(",") },
        rendered,
        at
    )
}

/// Oracle self-test only: a transcription of `speculative_execution::execute` with one seeded bug.
/// 0 = faithful copy; 1 = `retries_remaining` not decremented; 2 = return the first completion whatever its class;
/// 3 = return test without `async_tasks.is_empty()`; 4 = return test without `retries_remaining == 0`;
/// 5 = `None` does not clear `retries_remaining`; 6 = `last_error` keeps the first error; 7 = no return test at all;
/// 8 = timer not re-armed; 9 = `is_speculative` flag inverted.
async fn mutant_execute<QueryFut, T>(
    bug: u32,
    max: usize,
    interval: u64,
    mut query_runner_generator: impl FnMut(bool) -> QueryFut,
) -> Result<T, RequestError>
where
    QueryFut: std::future::Future<Output = Option<Result<T, RequestError>>>,
{
    use futures::{future::FutureExt, stream::{FuturesUnordered, StreamExt}};
    let mut retries_remaining = max;
    let retry_interval = Duration::from_millis(interval);
    let mut async_tasks = FuturesUnordered::new();
    async_tasks.push(query_runner_generator(bug == 9));
    let sleep = tokio::time::sleep(retry_interval).fuse();
    tokio::pin!(sleep);
    let mut last_error = None;
    loop {
        futures::select! {
            _ = &mut sleep => {
                if retries_remaining > 0 {
                    async_tasks.push(query_runner_generator(bug != 9));
                    if bug != 1 { retries_remaining -= 1; }
                    if bug != 8 { sleep.set(tokio::time::sleep(retry_interval).fuse()); }
                }
            }
            res = async_tasks.select_next_some() => {
                if let Some(r) = res {
                    if !hooks::can_be_ignored(&r) || bug == 2 {
                        return r;
                    } else if bug != 6 || last_error.is_none() {
                        last_error = Some(r)
                    }
                } else if bug != 5 {
                    retries_remaining = 0;
                }
                let done = match bug {
                    3 => retries_remaining == 0,
                    4 => async_tasks.is_empty(),
                    7 => false,
                    _ => async_tasks.is_empty() && retries_remaining == 0,
                };
                if done {
                    return last_error.unwrap_or(Err(RequestError::EmptyPlan));
                }
            }
        }
    }
}

// ---- gate: the real run_request_no_side_effects -------------------------------------------------

thread_local! {
    /// Decision the scripted retry policy gives for the attempt that has just failed
    /// (no await separates the end of `run_request_once` from `decide_should_retry`).
    static DECISION: Cell<char> = const { Cell::new('d') };
}

#[derive(Debug)]
struct ScriptedRetry;
struct ScriptedSession;
impl RetryPolicy for ScriptedRetry {
    fn new_session(&self) -> Box<dyn RetrySession> {
        Box::new(ScriptedSession)
    }
}
impl RetrySession for ScriptedSession {
    fn decide_should_retry(&mut self, _: RequestInfo) -> RetryDecision {
        match DECISION.with(|d| d.get()) {
            'n' => RetryDecision::RetryNextTarget(None),
            's' => RetryDecision::RetrySameTarget(None),
            'i' => RetryDecision::IgnoreWriteError,
            _ => RetryDecision::DontRetry,
        }
    }
    fn reset(&mut self) {}
}

/// One real `Connection` object for the whole process, living on its own (real-time) runtime; the synthetic
/// targets hand it out as a token, nothing is ever sent on it.
fn dummy_conn() -> &'static exec::DummyConnection {
    static CONN: OnceLock<exec::DummyConnection> = OnceLock::new();
    CONN.get_or_init(|| {
        let (tx, rx) = std::sync::mpsc::channel();
        std::thread::spawn(move || {
            let rt = tokio::runtime::Builder::new_current_thread().enable_all().build().unwrap();
            let listener = std::net::TcpListener::bind("127.0.0.1:0").unwrap();
            let addr = listener.local_addr().unwrap();
            rt.block_on(async move {
                let conn = exec::dummy_connection(addr).await;
                tx.send(conn).unwrap();
                let _hold = listener;
                std::future::pending::<()>().await
            })
        });
        rx.recv().unwrap().expect("dummy connection")
    })
}

struct Target {
    conn: bool,
    delay: u64,
    out: Out,
    dec: char,
}

struct Guard(Rc<Cell<usize>>);
impl Drop for Guard {
    fn drop(&mut self) {
        self.0.set(self.0.get() - 1);
    }
}

fn run_gate(w: &[&str], ctx: &mut Ctx) -> String {
    if w.len() < 3 {
        return "bad-case".to_owned();
    }
    let (idem_tok, timeout_tok) = match w[1].split_once('/') {
        Some((b, t)) => (b, Some(t)),
        None => (w[1], None),
    };
    let idem = match idem_tok {
        "0" => false,
        "1" => true,
        _ => return "bad-case".to_owned(),
    };
    // client-side request timeout (virtual ms): `RequestExecutionParams::request_timeout`
    let request_timeout: Option<u64> = match timeout_tok {
        None => None,
        Some(t) => match t.parse::<u64>() {
            Ok(t) => Some(t),
            Err(_) => return "bad-case".to_owned(),
        },
    };
    let policy = if w[2] == "none" {
        None
    } else {
        let Some((m, i)) = w[2].split_once(':') else { return "bad-case".to_owned() };
        let (Ok(m), Ok(i)) = (m.parse::<usize>(), i.parse::<u64>()) else { return "bad-case".to_owned() };
        Some(SimpleSpeculativeExecutionPolicy { max_retry_count: m, retry_interval: Duration::from_millis(i) })
    };
    let mut targets: Vec<Target> = Vec::new();
    for t in &w[3..] {
        let p: Vec<&str> = t.split(':').collect();
        if p.len() != 4 {
            return "bad-case".to_owned();
        }
        let conn = match p[0] {
            "0" => false,
            "1" => true,
            _ => return "bad-case".to_owned(),
        };
        let Ok(delay) = p[1].parse::<u64>() else { return "bad-case".to_owned() };
        let out = match p[2] {
            "ok" => Out::Ok,
            n if attempt_error(n).is_some() => Out::Err(n.to_owned()),
            _ => return "bad-case".to_owned(),
        };
        let dec = match p[3] {
            "n" | "d" | "i" | "s" => p[3].chars().next().unwrap(),
            _ => return "bad-case".to_owned(),
        };
        targets.push(Target { conn, delay, out, dec });
    }
    let conn = dummy_conn();
    let lbp = DefaultPolicy::default();
    let retry = ScriptedRetry;
    let outstanding: Rc<Cell<usize>> = Rc::default();
    let max_outstanding: Rc<Cell<usize>> = Rc::default();
    let attempts: Rc<RefCell<Vec<(u64, usize)>>> = Rc::default();
    let per_target: Rc<RefCell<Vec<usize>>> = Rc::new(RefCell::new(vec![0; targets.len()]));
    let overlap: Rc<RefCell<Option<String>>> = Rc::default();
    let in_flight_on: Rc<RefCell<Vec<usize>>> = Rc::default();
    let rt = runtime();
    let targets = Rc::new(targets);
    let (res, at) = rt.block_on(async {
        let t0 = tokio::time::Instant::now();
        let params = exec::ExecParams {
            is_idempotent: idem,
            consistency: Consistency::Quorum,
            serial_consistency: None,
            retry_policy: &retry,
            load_balancing_policy: &lbp,
            speculative_policy: policy.as_ref().map(|p| p as &dyn scylla::policies::speculative_execution::SpeculativeExecutionPolicy),
            request_timeout: request_timeout.map(Duration::from_millis),
        };
        let plan: Vec<bool> = targets.iter().map(|t| t.conn).collect();
        let run_once = {
            let targets = Rc::clone(&targets);
            let outstanding = Rc::clone(&outstanding);
            let max_outstanding = Rc::clone(&max_outstanding);
            let attempts = Rc::clone(&attempts);
            let per_target = Rc::clone(&per_target);
            let overlap = Rc::clone(&overlap);
            let in_flight_on = Rc::clone(&in_flight_on);
            move |idx: usize, _c: Consistency| {
                let now = t0.elapsed().as_millis() as u64;
                attempts.borrow_mut().push((now, idx));
                outstanding.set(outstanding.get() + 1);
                max_outstanding.set(max_outstanding.get().max(outstanding.get()));
                if in_flight_on.borrow().contains(&idx) && overlap.borrow().is_none() {
                    *overlap.borrow_mut() = Some(format!("two attempts outstanding on target {} at t={}", idx, now));
                }
                in_flight_on.borrow_mut().push(idx);
                let guard = Guard(Rc::clone(&outstanding));
                let in_flight_on = Rc::clone(&in_flight_on);
                let nth = {
                    let mut pt = per_target.borrow_mut();
                    if idx < pt.len() {
                        pt[idx] += 1;
                        pt[idx]
                    } else {
                        1
                    }
                };
                let t = targets.get(idx).map(|t| (t.delay, t.out.clone(), t.dec));
                async move {
                    let _guard = guard;
                    struct Off(Rc<RefCell<Vec<usize>>>, usize);
                    impl Drop for Off {
                        fn drop(&mut self) {
                            let mut v = self.0.borrow_mut();
                            if let Some(p) = v.iter().position(|x| *x == self.1) {
                                v.remove(p);
                            }
                        }
                    }
                    let _off = Off(in_flight_on, idx);
                    let Some((delay, out, dec)) = t else {
                        DECISION.with(|d| d.set('d'));
                        return Err(RequestAttemptError::NonfinishedPagingState);
                    };
                    if delay > 0 {
                        tokio::time::sleep(Duration::from_millis(delay)).await;
                    }
                    match out {
                        Out::Ok => Ok(()),
                        Out::Err(n) => {
                            let dec = if dec == 's' && nth >= 2 { 'n' } else { dec };
                            DECISION.with(|d| d.set(dec));
                            Err(attempt_error(&n).unwrap())
                        }
                        Out::None => unreachable!(),
                    }
                }
            }
        };
        let r = tokio::time::timeout(Duration::from_millis(HORIZON_MS), exec::run_request(params, conn, plan, run_once)).await;
        (r, t0.elapsed().as_millis() as u64)
    });
    let attempts = attempts.borrow();
    let Ok(res) = res else {
        ctx.fail(format!("the request did not return within the virtual horizon after {} attempts (waits on nothing)", attempts.len()));
        return "HANG".to_owned();
    };
    // ---- oracle ----
    let timed_out = matches!(&res, Err(RequestError::RequestTimeout(_)));
    match request_timeout {
        Some(t) => {
            if at > t {
                ctx.fail(format!("the call returned at t={} although the client-side request timeout is {} ms", at, t));
            }
            if timed_out && at != t {
                ctx.fail(format!("RequestTimeout returned at t={}, the deadline is t={}", at, t));
            }
            if let Err(RequestError::RequestTimeout(d)) = &res {
                if d.as_millis() as u64 != t {
                    ctx.fail(format!("RequestTimeout reports {} ms, the configured request timeout is {} ms", d.as_millis(), t));
                }
            }
            if let Some((ta, k)) = attempts.iter().find(|(ta, _)| *ta > t) {
                ctx.fail(format!("attempt on target {} started at t={} after the request deadline t={}", k, ta, t));
            }
        }
        None => {
            // no scripted attempt error is a RequestTimeout: it can only come from the deadline
            if timed_out {
                ctx.fail("RequestTimeout returned although no client-side request timeout is configured");
            }
        }
    }
    if outstanding.get() != 0 {
        ctx.fail(format!("{} attempt futures still alive after the call returned (executions not cancelled)", outstanding.get()));
    }
    let mo = max_outstanding.get();
    if !idem && mo > 1 {
        ctx.fail(format!("non-idempotent request had {} attempts in flight at once (speculative policy {})", mo, w[2]));
    }
    let allowed = 1 + policy.as_ref().map(|p| p.max_retry_count).unwrap_or(0);
    if mo > allowed {
        ctx.fail(format!("{} attempts in flight at once, at most {} executions may exist", mo, allowed));
    }
    if let Some(o) = overlap.borrow().as_ref() {
        ctx.fail(o.clone());
    }
    for (k, n) in per_target.borrow().iter().enumerate() {
        let t = &targets[k];
        let limit = if !t.conn {
            0
        } else if t.dec == 's' && matches!(t.out, Out::Err(_)) {
            2
        } else {
            1
        };
        if *n > limit {
            ctx.fail(format!("plan target {} was attempted {} times (two executions got the same target?), script allows {}", k, n, limit));
        }
    }
    let rendered = match &res {
        Ok(exec::ExecOutcome::Completed(t)) => format!("ok:{}", t),
        Ok(exec::ExecOutcome::IgnoredWriteError(t)) => format!("ign:{}", t),
        Err(e) => format!("err:{}", render_err(e)),
    };
    if !idem || policy.is_none() {
        // one sequential walk over the plan: the attempts must be on increasing targets
        for p in attempts.windows(2) {
            if p[1].1 < p[0].1 {
                ctx.fail("sequential execution went back in the plan");
            }
        }
    }
    format!(
        "att={} res={} at={} mo={}",
        if attempts.is_empty() { "-".to_owned() } else { attempts.iter().map(|(t, k)| format!("{}@{}", t, k)).collect::<Vec<_>>().join(",") },
        rendered,
        at,
        mo
    )
}

// ---- lbplan: the real `load_balancing::Plan` over the real `SingleTargetLoadBalancingPolicy` ----------------------

thread_local! {
    static RT_LB: tokio::runtime::Runtime = tokio::runtime::Builder::new_current_thread().enable_all().build().unwrap();
}

fn lb_host_id(i: usize) -> uuid::Uuid {
    uuid::Uuid::from_u128(0x1300_0000_0000_0000_0000_0000_0000_0000u128 + i as u128 + 1)
}

/// `lbplan <nr_shards per node, 0 = unsharded> <host|node|addr|nohost|noaddr> <target node> <shard|->`
fn run_lbplan(w: &[&str], ctx: &mut Ctx) -> String {
    use scylla::policies::load_balancing::{LoadBalancingPolicy, NodeIdentifier, Plan, RoutingInfo, SingleTargetLoadBalancingPolicy};
    use scylla::verif_hooks::cluster::{NodeSpec, cluster_from_topology, set_sharders};
    if w.len() != 5 {
        return "bad-case".to_owned();
    }
    let Some(shards) = w[1].split(',').map(|x| x.parse::<u16>().ok()).collect::<Option<Vec<u16>>>() else {
        return "bad-case".to_owned();
    };
    let Ok(target) = w[3].parse::<usize>() else { return "bad-case".to_owned() };
    let shard: Option<u32> = match w[4] {
        "-" => None,
        x => match x.parse::<u32>() {
            Ok(v) => Some(v),
            Err(_) => return "bad-case".to_owned(),
        },
    };
    if shards.is_empty() || shards.len() > 8 || target >= shards.len() || !["host", "node", "addr", "nohost", "noaddr"].contains(&w[2]) {
        return "bad-case".to_owned();
    }
    let nodes: Vec<NodeSpec> = (0..shards.len())
        .map(|i| NodeSpec {
            host_id: lb_host_id(i),
            datacenter: Some("dc1".to_owned()),
            rack: Some("r1".to_owned()),
            tokens: vec![(i as i64 + 1) * 1000],
            enabled: true,
            connected: true,
        })
        .collect();
    let cs = RT_LB.with(|rt| rt.block_on(cluster_from_topology(&nodes, &[])));
    let sharders: std::collections::HashMap<uuid::Uuid, (u16, u8)> =
        shards.iter().enumerate().filter(|(_, n)| **n > 0).map(|(i, n)| (lb_host_id(i), (*n, 12u8))).collect();
    set_sharders(&cs, &sharders);
    let idx_of = |n: &scylla::cluster::Node| (0..shards.len()).find(|i| lb_host_id(*i) == n.host_id).unwrap_or(99);
    let ident = match w[2] {
        "host" => NodeIdentifier::HostId(lb_host_id(target)),
        "nohost" => NodeIdentifier::HostId(lb_host_id(77)),
        "noaddr" => NodeIdentifier::NodeAddress("127.77.77.77:1".parse().unwrap()),
        "node" => match cs.get_nodes_info().iter().find(|n| n.host_id == lb_host_id(target)) {
            Some(n) => NodeIdentifier::Node(Arc::clone(n)),
            None => return "bad-case".to_owned(),
        },
        _ => match cs.get_nodes_info().iter().find(|n| n.host_id == lb_host_id(target)) {
            Some(n) => NodeIdentifier::NodeAddress(std::net::SocketAddr::new(n.address.ip(), n.address.port())),
            None => return "bad-case".to_owned(),
        },
    };
    let policy: Arc<dyn LoadBalancingPolicy> = SingleTargetLoadBalancingPolicy::new(ident, shard);
    let ri = RoutingInfo::default();
    let raw_pick: Option<(usize, Option<u32>)> = policy.pick(&ri, &cs).map(|(n, s)| (idx_of(n), s));
    let raw_fb: Vec<(usize, Option<u32>)> = policy.fallback(&ri, &cs).map(|(n, s)| (idx_of(n), s)).collect();
    let plan: Vec<(usize, u32)> = Plan::new(&*policy, &ri, &cs).map(|(n, s)| (idx_of(n), s)).collect();
    // ---- oracle: no two plan entries are the same target ----
    // raw entries as `Plan` takes them: the picked one, then the fallback without exact copies of it
    let mut raw: Vec<(usize, Option<u32>)> = Vec::new();
    match raw_pick {
        Some(p) => {
            raw.push(p);
            raw.extend(raw_fb.iter().filter(|t| **t != p));
        }
        None => {
            if let Some(f) = raw_fb.first() {
                raw.push(*f);
                raw.extend(raw_fb[1..].iter().filter(|t| *t != f));
            }
        }
    }
    let is_sharded = |n: usize| shards.get(n).map(|k| *k > 0).unwrap_or(false);
    for a in 0..raw.len() {
        for b in a + 1..raw.len() {
            // a shard-less entry may be sent to any shard of its node: it covers every shard
            let same = raw[a].0 == raw[b].0 && (!is_sharded(raw[a].0) || raw[a].1.is_none() || raw[b].1.is_none() || raw[a].1 == raw[b].1);
            if same {
                ctx.fail(format!(
                    "the policy's plan names the same target twice: entries {:?} and {:?} (node, shard; no shard = any shard of the node)",
                    raw[a], raw[b]
                ));
            }
        }
    }
    for a in 0..plan.len() {
        for b in a + 1..plan.len() {
            if plan[a].0 == plan[b].0 && (!is_sharded(plan[a].0) || plan[a].1 == plan[b].1) {
                ctx.fail(format!("Plan yields the same target twice: {:?} and {:?}", plan[a], plan[b]));
            }
        }
    }
    if plan.len() != raw.len() {
        ctx.fail(format!("Plan yields {} targets, pick + filtered fallback give {}", plan.len(), raw.len()));
    }
    let (found, single) = (!matches!(w[2], "nohost" | "noaddr"), matches!(raw_pick, Some(_)));
    if found != single {
        ctx.fail(format!("single-target pick = {:?} although the node is {}", raw_pick, if found { "known" } else { "unknown" }));
    }
    let rt = |t: &(usize, Option<u32>)| format!("{}:{}", t.0, t.1.map(|s| s.to_string()).unwrap_or_else(|| "-".to_owned()));
    format!(
        "pick={} fb={} plan={}",
        raw_pick.as_ref().map(rt).unwrap_or_else(|| "none".to_owned()),
        if raw_fb.is_empty() { "-".to_owned() } else { raw_fb.iter().map(rt).collect::<Vec<_>>().join(",") },
        if plan.is_empty() { "-".to_owned() } else { plan.iter().map(|(n, s)| format!("{}:{}", n, s)).collect::<Vec<_>>().join(",") }
    )
}

/// `n:s` / `n:-`
fn parse_raw_entry(t: &str, n_nodes: usize) -> Option<(usize, Option<u32>)> {
    let (n, s) = t.split_once(':')?;
    let n = n.parse::<usize>().ok()?;
    if n >= n_nodes {
        return None;
    }
    Some((n, if s == "-" { None } else { Some(s.parse::<u32>().ok()?) }))
}

/// `lbscript <nr_shards per node, 0 = unsharded> <pick: none|n:s|n:-> <fallback: -|entry,entry,...>`: the real `Plan` over a
/// scripted policy.
fn run_lbscript(w: &[&str], ctx: &mut Ctx) -> String {
    use crate::c13_lbscript::{NodeKey, ScriptedLb};
    use scylla::policies::load_balancing::{Plan, RoutingInfo};
    use scylla::verif_hooks::cluster::{NodeSpec, cluster_from_topology, set_sharders};
    if w.len() != 4 {
        return "bad-case".to_owned();
    }
    let Some(shards) = w[1].split(',').map(|x| x.parse::<u16>().ok()).collect::<Option<Vec<u16>>>() else {
        return "bad-case".to_owned();
    };
    if shards.is_empty() || shards.len() > 8 {
        return "bad-case".to_owned();
    }
    let n = shards.len();
    let pick = match w[2] {
        "none" => None,
        t => match parse_raw_entry(t, n) {
            Some(e) => Some(e),
            None => return "bad-case".to_owned(),
        },
    };
    let fb: Vec<(usize, Option<u32>)> = if w[3] == "-" {
        vec![]
    } else {
        match w[3].split(',').map(|t| parse_raw_entry(t, n)).collect::<Option<Vec<_>>>() {
            Some(v) => v,
            None => return "bad-case".to_owned(),
        }
    };
    let nodes: Vec<NodeSpec> = (0..n)
        .map(|i| NodeSpec {
            host_id: lb_host_id(i),
            datacenter: Some("dc1".to_owned()),
            rack: Some("r1".to_owned()),
            tokens: vec![(i as i64 + 1) * 1000],
            enabled: true,
            connected: true,
        })
        .collect();
    let cs = RT_LB.with(|rt| rt.block_on(cluster_from_topology(&nodes, &[])));
    let sharders: std::collections::HashMap<uuid::Uuid, (u16, u8)> =
        shards.iter().enumerate().filter(|(_, k)| **k > 0).map(|(i, k)| (lb_host_id(i), (*k, 12u8))).collect();
    set_sharders(&cs, &sharders);
    let key = |e: &(usize, Option<u32>)| (NodeKey::Host(lb_host_id(e.0)), e.1);
    let policy = ScriptedLb { pick: pick.as_ref().map(key), fallback: fb.iter().map(key).collect() };
    let ri = RoutingInfo::default();
    let idx_of = |nd: &scylla::cluster::Node| (0..n).find(|i| lb_host_id(*i) == nd.host_id).unwrap_or(99);
    let plan: Vec<(usize, u32)> = Plan::new(&policy, &ri, &cs).map(|(nd, s)| (idx_of(nd), s)).collect();
    // ---- oracle (written from the property, not from plan.rs) ----
    let is_sharded = |k: usize| shards[k] > 0;
    let same = |a: &(usize, Option<u32>), b: &(usize, Option<u32>)| a.0 == b.0 && (!is_sharded(a.0) || a.1.is_none() || b.1.is_none() || a.1 == b.1);
    // the hypothesis on the policy: its fallback names no two same targets, and none that is the same target as the picked
    // one unless it is an exact copy (a policy may repeat the picked entry: `Plan` skips exact copies)
    let head: Option<(usize, Option<u32>)> = pick.or_else(|| fb.first().copied());
    // the fallback after the first choice, without the exact copies of it (a policy may repeat it: `Plan` skips them)
    let rest: Vec<(usize, Option<u32>)> = (if pick.is_some() { &fb[..] } else if fb.is_empty() { &[][..] } else { &fb[1..] })
        .iter()
        .filter(|e| Some(**e) != head)
        .copied()
        .collect();
    let mut distinct = true;
    for a in 0..rest.len() {
        for b in a + 1..rest.len() {
            if same(&rest[a], &rest[b]) {
                distinct = false;
            }
        }
        if let Some(h) = &head {
            if same(h, &rest[a]) {
                distinct = false;
            }
        }
    }
    if distinct {
        for a in 0..plan.len() {
            for b in a + 1..plan.len() {
                if plan[a].0 == plan[b].0 && (!is_sharded(plan[a].0) || plan[a].1 == plan[b].1) {
                    ctx.fail(format!(
                        "the policy names no target twice, but Plan yields the same target twice: {:?} and {:?} (plan {:?})",
                        plan[a], plan[b], plan
                    ));
                }
            }
        }
        // nothing is lost either: every target the policy names is in the plan
        let named = head.iter().count() + rest.len();
        if plan.len() != named {
            ctx.fail(format!("the policy names {} different targets, Plan yields {} ({:?})", named, plan.len(), plan));
        }
    }
    // whatever the policy: the plan starts with the picked entry and every explicit shard is kept
    if let (Some(h), Some(first)) = (&head, plan.first()) {
        if first.0 != h.0 || h.1.is_some_and(|s| s != first.1) {
            ctx.fail(format!("Plan starts with {:?}, the policy's first choice is {:?}", first, h));
        }
    }
    if head.is_some() != !plan.is_empty() {
        ctx.fail(format!("policy first choice {:?} but plan {:?}", head, plan));
    }
    for (k, s) in &plan {
        if *s >= (shards[*k] as u32).max(1) && !fb.iter().chain(pick.iter()).any(|e| e.0 == *k && e.1 == Some(*s)) {
            ctx.fail(format!("Plan drew shard {} for node {} which has {} shards", s, k, shards[*k]));
        }
    }
    format!(
        "distinct={} plan={}",
        distinct as u8,
        if plan.is_empty() { "-".to_owned() } else { plan.iter().map(|(k, s)| format!("{}:{}", k, s)).collect::<Vec<_>>().join(",") }
    )
}

pub fn run(case: &str, ctx: &mut Ctx) -> String {
    let w: Vec<&str> = case.split_whitespace().collect();
    match w.first().copied() {
        Some("class") => run_class(&w, ctx),
        Some("cfg") => crate::c13_cfg::run(&w, ctx),
        Some("lbplan") => run_lbplan(&w, ctx),
        Some("lbscript") => run_lbscript(&w, ctx),
        // the pager's plan, end to end, with the targets of every page printed for the model (see e2e/spec.rs)
        Some("pplan") => crate::e2e::spec::run_pplan(&w[1..], ctx),
        Some("spec") => run_spec(&w, None, ctx),
        // developer self-test of the oracle (never generated): `mut<k>` runs a local copy of the select loop with
        // seeded bug k instead of the driver's `execute`
        Some(m) if m.starts_with("mut") => match m[3..].parse::<u32>() {
            Ok(k) => run_spec(&w, Some(k), ctx),
            Err(_) => "bad-case".to_owned(),
        },
        Some("gate") => run_gate(&w, ctx),
        _ => "bad-case".to_owned(),
    }
}

//! C15 — the tablet map of a table stays a set of disjoint ranges with latest-wins lookup.
//!
//! Case grammar:
//!   tab <op>;<op>;…       one history on a fresh `VerifTablets` (see lean/ScyllaVerif/Drive/C15.lean for the ops)
//!   cs <op>;<op>;…        one history on a real `ClusterState` (`ClusterState::new`, `update_tablets`, `new_updated`):
//!                         `P<id>[@<dc>[/<rack>]],…` topology (first) / metadata refresh, `L<t>:<first>:<last>:<reps>` learn,
//!                         `B<item>|<item>|…` ONE `update_tablets` call with a whole batch (shadow: tablet by tablet, in order),
//!                         `s<t>:<lo>:<hi>` / `d<t>:<token>@<dc>` lookups through `replica_locator()`.  Oracle after every
//!                         step: every replica answered for any token is a current peer and the current `Node` object,
//!                         and the answer is what the history shadow says (tablets with a replica on a host that left
//!                         are gone, every other tablet is still there).
//!   payload <hex>         `RawTablet::from_custom_payload` on the cell bytes stored under the tablets key
//!   exh <A|B> <depth> <i,j,…|->   every history of `depth` more operations of a small alphabet over the token
//!                         universe 0..=5 after the given prefix; output = number of histories visited + digest of
//!                         every lookup after every step (the oracle runs on every visited history)
//!
//! ORACLE (independent of the Lean model): a naive shadow keeps every insert ever made as
//! `(seq, first, last, raw replicas, resolved replicas, unknown?, alive?)`; an insert kills the alive entries
//! it overlaps, maintenance kills entries with a replica on a removed node and entries whose unknown replicas
//! still do not resolve.  The answer for a token must be the entry with the greatest `seq` covering it if
//! that entry is alive, else nothing.  The dumped list must be sorted, pairwise disjoint, `first <= last`, and be
//! exactly the alive entries; dc-restricted replicas must be the filter of the full list by the node's
//! datacenter; after maintenance nothing is unresolved or points to a replaced `Node` object.
use crate::rng::Rng;
use crate::util::{hex, unhex};
use crate::{Ctx, Tier};
use bytes::Bytes;
use scylla::cluster::metadata::Strategy;
use scylla::cluster::{ClusterState, Node};
use scylla::frame::response::result::TableSpec;
use scylla::routing::Token;
use scylla::verif_hooks::cluster::{
    KeyspaceSpec, NodeSpec, cluster_refresh_topology, cluster_refresh_topology_accepting, cluster_refresh_topology_filtered, cluster_state_filtered,
    cluster_state_general,
};
use scylla::verif_hooks::tablets::{TabletView, VerifTablets, raw_tablet_from_payload};
use std::sync::Arc;
use std::collections::HashMap;
use std::panic::{AssertUnwindSafe, catch_unwind};
use uuid::Uuid;

fn token_new(v: i64) -> i64 {
    if v == i64::MIN { i64::MAX } else { v }
}

fn uuid_of(id: u32) -> Uuid {
    Uuid::from_u128(id as u128)
}

fn id_of(u: &Uuid) -> u128 {
    u.as_u128()
}

// ------------------------------------------------------------------------------------------------
// shadow (the property, by brute force over the history)
// ------------------------------------------------------------------------------------------------

#[derive(Clone, Debug)]
struct Entry {
    first: i64,
    last: i64,
    raw: Vec<(u32, u32)>,
    resolved: Vec<(u32, u32)>,
    unknown: bool,
    alive: bool,
}

#[derive(Default, Clone)]
struct TableShadow {
    entries: Vec<Entry>,
}

impl TableShadow {
    fn insert(&mut self, first: i64, last: i64, raw: &[(u32, u32)], nodes: &HashMap<u32, Option<String>>) {
        for e in self.entries.iter_mut() {
            if e.alive && e.first <= last && first <= e.last {
                e.alive = false;
            }
        }
        let resolved: Vec<(u32, u32)> = raw.iter().copied().filter(|(id, _)| nodes.contains_key(id)).collect();
        let unknown = resolved.len() != raw.len();
        self.entries.push(Entry { first, last, raw: raw.to_vec(), resolved, unknown, alive: true });
    }

    fn maintenance(&mut self, removed: &[u32], nodes: &HashMap<u32, Option<String>>) {
        for e in self.entries.iter_mut().filter(|e| e.alive) {
            if e.unknown {
                if e.raw.iter().all(|(id, _)| nodes.contains_key(id)) {
                    e.resolved = e.raw.clone();
                    e.unknown = false;
                } else {
                    e.alive = false;
                    continue;
                }
            }
            if e.resolved.iter().any(|(id, _)| removed.contains(id)) {
                e.alive = false;
            }
        }
    }

    /// latest insert covering the token, if it is still alive
    fn lookup(&self, tok: i64) -> Option<&Entry> {
        let latest = self.entries.iter().rev().find(|e| e.first <= tok && tok <= e.last)?;
        if latest.alive { Some(latest) } else { None }
    }

    fn alive_sorted(&self) -> Vec<(i64, i64, Vec<(u32, u32)>)> {
        let mut v: Vec<_> = self.entries.iter().filter(|e| e.alive).map(|e| (e.first, e.last, e.resolved.clone())).collect();
        v.sort();
        v
    }
}

struct Shadow {
    nodes: HashMap<u32, Option<String>>,
    table: TableShadow,
    info: HashMap<(String, String), TableShadow>,
    /// an ill-formed insert (`first > last`) happened: the property says nothing from here on
    invalid: bool,
    /// a node object was replaced behind the tablets' back (`n` on a known id): staleness is expected
    tainted: bool,
}

fn view_ids(v: &TabletView) -> (i64, i64, Vec<(u32, u32)>) {
    (v.0, v.1, v.2.iter().map(|(u, s)| (id_of(u) as u32, *s)).collect())
}

fn show_reps(r: &[(u32, u32)]) -> String {
    if r.is_empty() {
        "-".to_owned()
    } else {
        r.iter().map(|(i, s)| format!("{}.{}", i, s)).collect::<Vec<_>>().join(",")
    }
}

fn show_view(v: &(i64, i64, Vec<(u32, u32)>)) -> String {
    format!("{}:{}:{}", v.0, v.1, show_reps(&v.2))
}

fn check_list(what: &str, list: &[(i64, i64, Vec<(u32, u32)>)], ctx: &mut Ctx) {
    for t in list {
        if t.0 > t.1 {
            ctx.fail(format!("{}: tablet [{}, {}] has first > last", what, t.0, t.1));
        }
    }
    for w in list.windows(2) {
        if !(w[0].1 < w[1].0) {
            ctx.fail(format!(
                "{}: tablet list not sorted/disjoint: [{}, {}] is followed by [{}, {}]",
                what, w[0].0, w[0].1, w[1].0, w[1].1
            ));
        }
    }
}

// ------------------------------------------------------------------------------------------------
// running one history
// ------------------------------------------------------------------------------------------------

fn parse_reps(s: &str) -> Option<Vec<(u32, u32)>> {
    if s.is_empty() || s == "-" {
        return Some(vec![]);
    }
    s.split(',')
        .map(|r| {
            let (a, b) = r.split_once('.')?;
            Some((a.parse().ok()?, b.parse().ok()?))
        })
        .collect()
}

fn parse_node_dc(s: &str) -> Option<(u32, Option<String>)> {
    match s.split_once('@') {
        None => Some((s.parse().ok()?, None)),
        Some((a, d)) => {
            if d.contains('@') {
                return None;
            }
            Some((a.parse().ok()?, Some(d.to_owned())))
        }
    }
}

fn parse_ids(s: &str) -> Option<Vec<u32>> {
    if s.is_empty() || s == "-" {
        return Some(vec![]);
    }
    s.split(',').map(|x| x.parse().ok()).collect()
}

fn parse_recreated(s: &str) -> Option<Vec<(u32, Option<String>)>> {
    if s.is_empty() || s == "-" {
        return Some(vec![]);
    }
    s.split(',').map(parse_node_dc).collect()
}

fn to_uuid_reps(r: &[(u32, u32)]) -> Vec<(Uuid, u32)> {
    r.iter().map(|(i, s)| (uuid_of(*i), *s)).collect()
}

struct Runner {
    vt: VerifTablets,
    sh: Shadow,
}

impl Runner {
    fn new() -> Self {
        Runner {
            vt: VerifTablets::new(),
            sh: Shadow { nodes: HashMap::new(), table: TableShadow::default(), info: HashMap::new(), invalid: false, tainted: false },
        }
    }

    /// node-set part of a maintenance step on the shadow
    fn shadow_topology(&mut self, removed: &[u32], recreated: &[(u32, Option<String>)]) {
        for id in removed {
            self.sh.nodes.remove(id);
        }
        for (id, dc) in recreated {
            if self.sh.nodes.contains_key(id) {
                self.sh.nodes.insert(*id, dc.clone());
            }
        }
    }

    fn lookup(&mut self, tok: i64, ctx: &mut Ctx) -> String {
        let got = self.vt.lookup(tok).map(|v| view_ids(&v));
        let reps = self.vt.replicas(tok).map(|r| r.iter().map(|(u, s)| (id_of(u) as u32, *s)).collect::<Vec<_>>());
        if reps != got.as_ref().map(|g| g.2.clone()) {
            ctx.fail(format!("replicas_for_token({}) differs from the replicas of tablet_for_token", tok));
        }
        if !self.sh.invalid {
            let t = token_new(tok);
            let want = self.sh.table.lookup(t).map(|e| (e.first, e.last, e.resolved.clone()));
            if got != want {
                let stale = got.is_some() && want.is_none();
                ctx.fail(format!(
                    "lookup({}) answered {} but the latest covering insert that is still valid is {}{}",
                    tok,
                    got.as_ref().map(show_view).unwrap_or("none".into()),
                    want.as_ref().map(show_view).unwrap_or("none".into()),
                    if stale { " (stale answer)" } else { "" }
                ));
            }
        }
        got.as_ref().map(show_view).unwrap_or("none".to_owned())
    }

    fn dc_lookup(&mut self, tok: i64, dc: &str, ctx: &mut Ctx) -> String {
        let got = self.vt.dc_replicas(tok, dc).map(|r| r.iter().map(|(u, s)| (id_of(u) as u32, *s)).collect::<Vec<_>>());
        let full = self.vt.replicas(tok).map(|r| r.iter().map(|(u, s)| (id_of(u) as u32, *s)).collect::<Vec<_>>());
        if !self.sh.tainted {
            let want = full.map(|f| {
                f.into_iter()
                    .filter(|(id, _)| self.sh.nodes.get(id).map(|d| d.as_deref() == Some(dc)).unwrap_or(false))
                    .collect::<Vec<_>>()
            });
            if got != want {
                ctx.fail(format!(
                    "dc_replicas_for_token({}, {}) = {} but the full replica list restricted to that datacenter is {}",
                    tok,
                    dc,
                    got.as_ref().map(|g| show_reps(g)).unwrap_or("none".into()),
                    want.as_ref().map(|g| show_reps(g)).unwrap_or("none".into())
                ));
            }
        }
        got.as_ref().map(|g| show_reps(g)).unwrap_or("none".to_owned())
    }

    fn dump(&self) -> Vec<(i64, i64, Vec<(u32, u32)>)> {
        self.vt.tablets().iter().map(view_ids).collect()
    }

    /// invariants checked after every operation
    fn check_state(&self, ctx: &mut Ctx) {
        if self.sh.invalid {
            return;
        }
        let list = self.dump();
        check_list("table", &list, ctx);
        let want = self.sh.table.alive_sorted();
        if list != want {
            ctx.fail(format!(
                "tablet list [{}] differs from the inserts still valid [{}]",
                list.iter().map(show_view).collect::<Vec<_>>().join("|"),
                want.iter().map(show_view).collect::<Vec<_>>().join("|")
            ));
        }
    }

    fn check_info(&self, ctx: &mut Ctx) -> Vec<(String, String, Vec<(i64, i64, Vec<(u32, u32)>)>)> {
        let tables: Vec<_> =
            self.vt.info_tables().into_iter().map(|(k, t, l)| (k, t, l.iter().map(view_ids).collect::<Vec<_>>())).collect();
        if !self.sh.invalid {
            let mut want: Vec<_> = self.sh.info.iter().map(|((k, t), s)| (k.clone(), t.clone(), s.alive_sorted())).collect();
            want.sort();
            for (k, t, l) in &tables {
                check_list(&format!("table {}.{}", k, t), l, ctx);
            }
            if tables != want {
                ctx.fail(format!("TabletsInfo holds {:?}, expected {:?}", tables, want));
            }
        }
        tables
    }

    fn op(&mut self, op: &str, ctx: &mut Ctx) -> Option<String> {
        let c = op.chars().next()?;
        let arg = &op[c.len_utf8()..];
        let out = match c {
            'n' => {
                let (id, dc) = parse_node_dc(arg)?;
                if self.sh.nodes.contains_key(&id) {
                    self.sh.tainted = true;
                }
                self.sh.nodes.insert(id, dc.clone());
                self.vt.set_node(uuid_of(id), dc);
                "n".to_owned()
            }
            'a' | 'A' => {
                let parts: Vec<&str> = arg.split(':').collect();
                let (spec, parts) = if c == 'A' {
                    if parts.len() != 4 {
                        return None;
                    }
                    let (ks, tb) = parts[0].split_once('.')?;
                    if tb.contains('.') {
                        return None;
                    }
                    (Some((ks.to_owned(), tb.to_owned())), &parts[1..])
                } else {
                    (None, &parts[..])
                };
                if parts.len() != 3 {
                    return None;
                }
                let f: i64 = parts[0].parse().ok()?;
                let l: i64 = parts[1].parse().ok()?;
                let reps = parse_reps(parts[2])?;
                let ureps = to_uuid_reps(&reps);
                let (nf, nl) = (token_new(f), token_new(l));
                if nf > nl || self.sh.invalid {
                    // ill-formed tablet (never produced by `from_custom_payload`), or a list already corrupted by
                    // one: `drain(left..right)` may panic
                    self.sh.invalid = true;
                    let vt = &mut self.vt;
                    let r = catch_unwind(AssertUnwindSafe(|| match &spec {
                        Some((ks, tb)) => vt.info_add(ks, tb, f, l, &ureps),
                        None => vt.add(f, l, &ureps),
                    }));
                    if r.is_ok() { c.to_string() } else { "panic".to_owned() }
                } else {
                    match &spec {
                        Some((ks, tb)) => {
                            self.vt.info_add(ks, tb, f, l, &ureps);
                            self.sh.info.entry((ks.clone(), tb.clone())).or_default().insert(nf, nl, &reps, &self.sh.nodes);
                        }
                        None => {
                            self.vt.add(f, l, &ureps);
                            self.sh.table.insert(nf, nl, &reps, &self.sh.nodes);
                        }
                    }
                    c.to_string()
                }
            }
            'q' => {
                let tok: i64 = arg.parse().ok()?;
                self.lookup(tok, ctx)
            }
            's' => {
                let (lo, hi) = arg.split_once(':')?;
                let lo: i64 = lo.parse().ok()?;
                let hi: i64 = hi.parse().ok()?;
                if !(lo <= hi && (hi as i128 - lo as i128) <= 64) {
                    return None;
                }
                (lo..=hi).map(|t| self.lookup(t, ctx)).collect::<Vec<_>>().join("/")
            }
            'd' => {
                let (tok, dc) = arg.split_once('@')?;
                if dc.contains('@') {
                    return None;
                }
                let tok: i64 = tok.parse().ok()?;
                self.dc_lookup(tok, dc, ctx)
            }
            'm' => {
                let parts: Vec<&str> = arg.split('/').collect();
                if parts.len() != 2 {
                    return None;
                }
                let removed = parse_ids(parts[0])?;
                let recreated = parse_recreated(parts[1])?;
                self.shadow_topology(&removed, &recreated);
                self.sh.table.maintenance(&removed, &self.sh.nodes);
                let ru: Vec<Uuid> = removed.iter().map(|i| uuid_of(*i)).collect();
                let rc: Vec<(Uuid, Option<String>)> = recreated.iter().map(|(i, d)| (uuid_of(*i), d.clone())).collect();
                self.vt.maintenance(&ru, &rc);
                let (u, s) = (self.vt.unresolved(), self.vt.stale_replicas());
                if u != 0 {
                    ctx.fail(format!("{} tablet(s) with unresolved replicas survive maintenance", u));
                }
                if s != 0 && !self.sh.tainted {
                    ctx.fail(format!("{} replica entries still point to a replaced or removed Node object after maintenance", s));
                }
                format!("m{}:{}", u, s)
            }
            't' => {
                if !arg.is_empty() {
                    return None;
                }
                let list = self.dump();
                format!(
                    "[{}]u{}s{}",
                    list.iter().map(show_view).collect::<Vec<_>>().join("|"),
                    self.vt.unresolved(),
                    self.vt.stale_replicas()
                )
            }
            'M' => {
                let parts: Vec<&str> = arg.split('/').collect();
                if parts.len() != 3 {
                    return None;
                }
                // keyspace = `<name>:<0|1>:<tables>[:<views>]`
                let mut kss: Vec<(String, bool, Vec<String>, Vec<String>)> = Vec::new();
                if !parts[0].is_empty() && parts[0] != "-" {
                    for k in parts[0].split('&') {
                        let f: Vec<&str> = k.split(':').collect();
                        if (f.len() != 3 && f.len() != 4) || (f[1] != "0" && f[1] != "1") {
                            return None;
                        }
                        let names = |s: &str| -> Vec<String> { if s.is_empty() { vec![] } else { s.split('+').map(|s| s.to_owned()).collect() } };
                        kss.push((f[0].to_owned(), f[1] == "1", names(f[2]), if f.len() == 4 { names(f[3]) } else { vec![] }));
                    }
                }
                let removed = parse_ids(parts[1])?;
                let recreated = parse_recreated(parts[2])?;
                self.shadow_topology(&removed, &recreated);
                // expected table set (a repeated keyspace name: the last entry wins, as in a HashMap)
                // tables AND materialized views of a tablet keyspace are kept / get an empty entry
                let ksmap: HashMap<&str, (bool, &Vec<String>, &Vec<String>)> = kss.iter().map(|(n, b, t, v)| (n.as_str(), (*b, t, v))).collect();
                self.sh.info.retain(|(k, t), _| ksmap.get(k.as_str()).map(|(b, ts, vs)| *b && (ts.contains(t) || vs.contains(t))).unwrap_or(false));
                for (k, (b, ts, vs)) in &ksmap {
                    if *b {
                        for t in ts.iter().chain(vs.iter()) {
                            self.sh.info.entry((k.to_string(), t.clone())).or_default();
                        }
                    }
                }
                for s in self.sh.info.values_mut() {
                    s.maintenance(&removed, &self.sh.nodes);
                }
                let ru: Vec<Uuid> = removed.iter().map(|i| uuid_of(*i)).collect();
                let rc: Vec<(Uuid, Option<String>)> = recreated.iter().map(|(i, d)| (uuid_of(*i), d.clone())).collect();
                self.vt.info_maintenance_with_views(&kss, &ru, &rc);
                self.check_info(ctx);
                let (u, st) = self.vt.info_counters();
                if u != 0 {
                    ctx.fail(format!("{} tablet(s) of the TabletsInfo with unresolved replicas survive maintenance", u));
                }
                if st != 0 && !self.sh.tainted {
                    ctx.fail(format!("{} replica entries of the TabletsInfo still point to a replaced or removed Node object after maintenance", st));
                }
                format!("M{}:{}", u, st)
            }
            'T' => {
                if !arg.is_empty() {
                    return None;
                }
                let tables = self.check_info(ctx);
                let (u, st) = self.vt.info_counters();
                let body = if tables.is_empty() {
                    "-".to_owned()
                } else {
                    tables
                        .iter()
                        .map(|(k, t, l)| format!("{}.{}=[{}]", k, t, l.iter().map(show_view).collect::<Vec<_>>().join("|")))
                        .collect::<Vec<_>>()
                        .join("&")
                };
                format!("{}u{}s{}", body, u, st)
            }
            'D' => {
                let (a, dc) = arg.split_once('@')?;
                if dc.contains('@') {
                    return None;
                }
                let (spec, tok) = a.split_once(':')?;
                let (ks, tb) = spec.split_once('.')?;
                if tb.contains('.') {
                    return None;
                }
                let tok: i64 = tok.parse().ok()?;
                let conv = |r: Vec<(Uuid, u32)>| r.iter().map(|(u, s)| (id_of(u) as u32, *s)).collect::<Vec<_>>();
                let got = self.vt.info_dc_lookup(ks, tb, tok, dc).map(conv);
                let full = self.vt.info_lookup(ks, tb, tok).map(conv);
                if !self.sh.tainted {
                    let want = full.map(|f| {
                        f.into_iter()
                            .filter(|(id, _)| self.sh.nodes.get(id).map(|d| d.as_deref() == Some(dc)).unwrap_or(false))
                            .collect::<Vec<_>>()
                    });
                    if got != want {
                        ctx.fail(format!(
                            "TabletsInfo dc lookup {}.{} token {} datacenter {} = {} but the full replica list restricted to it is {}",
                            ks,
                            tb,
                            tok,
                            dc,
                            got.as_ref().map(|g| show_reps(g)).unwrap_or("none".into()),
                            want.as_ref().map(|g| show_reps(g)).unwrap_or("none".into())
                        ));
                    }
                }
                got.as_ref().map(|g| show_reps(g)).unwrap_or("none".to_owned())
            }
            'Q' => {
                let (spec, tok) = arg.split_once(':')?;
                let (ks, tb) = spec.split_once('.')?;
                if tb.contains('.') {
                    return None;
                }
                let tok: i64 = tok.parse().ok()?;
                let got = self.vt.info_lookup(ks, tb, tok).map(|r| r.iter().map(|(u, s)| (id_of(u) as u32, *s)).collect::<Vec<_>>());
                if !self.sh.invalid {
                    let want = self
                        .sh
                        .info
                        .get(&(ks.to_owned(), tb.to_owned()))
                        .and_then(|s| s.lookup(token_new(tok)))
                        .map(|e| e.resolved.clone());
                    if got != want {
                        ctx.fail(format!(
                            "TabletsInfo lookup {}.{} token {} answered {} expected {}",
                            ks,
                            tb,
                            tok,
                            got.as_ref().map(|g| show_reps(g)).unwrap_or("none".into()),
                            want.as_ref().map(|g| show_reps(g)).unwrap_or("none".into())
                        ));
                    }
                }
                got.as_ref().map(|g| show_reps(g)).unwrap_or("none".to_owned())
            }
            _ => return None,
        };
        self.check_state(ctx);
        Some(out)
    }
}

fn run_tab(ops: &str, ctx: &mut Ctx) -> String {
    let mut r = Runner::new();
    let mut outs = Vec::new();
    for op in ops.split(';').filter(|o| !o.is_empty()) {
        match r.op(op, ctx) {
            Some(o) => outs.push(o),
            None => return "bad-case".to_owned(),
        }
    }
    outs.join(";")
}

// ------------------------------------------------------------------------------------------------
// exhaustive small universe
// ------------------------------------------------------------------------------------------------

fn exh_ranges() -> Vec<(u32, u32)> {
    let mut v = Vec::new();
    for f in 0..6 {
        for l in f..6 {
            v.push((f, l));
        }
    }
    v
}

/// alphabet `A`: the 21 ranges over tokens 0..=5; alphabet `B`: the ranges with a replica that is unknown at
/// first (node 2) plus four topology steps (same definition in lean/ScyllaVerif/Drive/C15.lean).
fn exh_alphabet(alpha: &str) -> Option<Vec<String>> {
    match alpha {
        "A" => Some(exh_ranges().iter().map(|(f, l)| format!("a{}:{}:{}.{}", f, l, (f + l) % 2, f)).collect()),
        "B" => {
            let mut v: Vec<String> = exh_ranges().iter().map(|(f, l)| format!("a{}:{}:{}.0", f, l, (f + l) % 3)).collect();
            v.extend(["m/", "m0/", "n2@dc1", "m/1@dc0"].iter().map(|s| s.to_string()));
            Some(v)
        }
        _ => None,
    }
}

const EXH_SETUP: [&str; 2] = ["n0@dc0", "n1@dc1"];

fn mix(h: u64, v: u64) -> u64 {
    h.wrapping_mul(1099511628211).wrapping_add(v).wrapping_add(1)
}

fn reps_code(r: &[(u32, u32)]) -> u64 {
    r.iter().fold(0u64, |c, (id, sh)| c.wrapping_mul(64).wrapping_add((*id as u64 + 1) * 8 + *sh as u64))
}

struct Exh<'a> {
    ops: &'a [String],
    visited: u64,
    digest: u64,
    failures: usize,
}

impl Exh<'_> {
    /// replays `path` from scratch (the oracle runs on the last step only: every prefix is a node of its own)
    fn visit(&mut self, path: &[usize], ctx: &mut Ctx) {
        let mut r = Runner::new();
        let mut quiet = Ctx::default();
        for s in EXH_SETUP {
            r.op(s, &mut quiet);
        }
        let mut local = Ctx::default();
        for (k, i) in path.iter().enumerate() {
            let c = if k + 1 == path.len() { &mut local } else { &mut quiet };
            r.op(&self.ops[*i], c);
        }
        let mut h = self.digest;
        for tok in 0..6i64 {
            let got = r.vt.lookup(tok).map(|v| view_ids(&v));
            r.lookup(tok, &mut local);
            h = mix(h, got.map(|g| 1 + g.0 as u64 + 8 * g.1 as u64 + 64 * reps_code(&g.2)).unwrap_or(0));
            for dc in ["dc0", "dc1"] {
                let d = r.vt.dc_replicas(tok, dc).map(|x| x.iter().map(|(u, s)| (id_of(u) as u32, *s)).collect::<Vec<_>>());
                r.dc_lookup(tok, dc, &mut local);
                h = mix(h, d.map(|d| 1 + reps_code(&d)).unwrap_or(0));
            }
        }
        let n = r.vt.tablets().len() as u64;
        h = mix(h, n * 10000 + r.vt.unresolved() as u64 * 100 + r.vt.stale_replicas() as u64);
        self.digest = h;
        self.visited += 1;
        if !local.oracle_failures.is_empty() && self.failures < 3 {
            self.failures += 1;
            let line: Vec<&str> = EXH_SETUP.iter().copied().chain(path.iter().map(|i| self.ops[*i].as_str())).collect();
            ctx.fail(format!("{} [replay: tab {};s0:5;d0@dc0;d0@dc1;t]", local.oracle_failures[0], line.join(";")));
        }
    }

    fn go(&mut self, path: &mut Vec<usize>, depth: usize, ctx: &mut Ctx) {
        self.visit(path, ctx);
        if depth == 0 {
            return;
        }
        for i in 0..self.ops.len() {
            path.push(i);
            self.go(path, depth - 1, ctx);
            path.pop();
        }
    }
}

fn run_exh(alpha: &str, depth: &str, pre: &str, ctx: &mut Ctx) -> String {
    let Some(ops) = exh_alphabet(alpha) else { return "bad-case".to_owned() };
    let Ok(depth) = depth.parse::<usize>() else { return "bad-case".to_owned() };
    if depth > 6 {
        return "bad-case".to_owned();
    }
    let mut path: Vec<usize> = Vec::new();
    if pre != "-" {
        for x in pre.split(',') {
            match x.parse::<usize>() {
                Ok(i) if i < ops.len() => path.push(i),
                _ => return "bad-case".to_owned(),
            }
        }
    }
    let mut e = Exh { ops: &ops, visited: 0, digest: 14695981039346656037, failures: 0 };
    e.go(&mut path, depth, ctx);
    format!("{} {}", e.visited, e.digest)
}

// ------------------------------------------------------------------------------------------------
// payload
// ------------------------------------------------------------------------------------------------

const PAYLOAD_KEY: &str = "tablets-routing-v1";

fn run_payload(arg: &str, ctx: &mut Ctx) -> String {
    let mut map: HashMap<String, Bytes> = HashMap::new();
    map.insert("some-other-key".to_owned(), Bytes::from_static(&[1, 2, 3]));
    if arg == "absent" {
        return match raw_tablet_from_payload(&map) {
            None => "absent".to_owned(),
            Some(_) => {
                ctx.fail("a payload without the tablets key produced a tablet");
                "present".to_owned()
            }
        };
    }
    let Some(bytes) = unhex(arg) else { return "bad-case".to_owned() };
    map.insert(PAYLOAD_KEY.to_owned(), Bytes::from(bytes.clone()));
    // the two bounds as the protocol defines the cell (independent reading: [int len][8 bytes] twice)
    let bounds = || -> Option<(i64, i64)> {
        let rd = |o: usize| -> Option<i64> {
            if bytes.len() >= o + 12 && bytes[o..o + 4] == [0, 0, 0, 8] {
                Some(i64::from_be_bytes(bytes[o + 4..o + 12].try_into().ok()?))
            } else {
                None
            }
        };
        let (a, b) = (rd(0)?, rd(12)?);
        // the replica list cell must be framed (its items are only looked at after the range check)
        if bytes.len() > 24 {
            let len = i32::from_be_bytes(bytes.get(24..28)?.try_into().ok()?);
            if len >= 0 {
                let body = bytes.get(28..28 + len as usize)?;
                let count = i32::from_be_bytes(body.get(0..4)?.try_into().ok()?);
                if count < 0 {
                    return None;
                }
            }
        }
        Some((a, b))
    };
    match raw_tablet_from_payload(&map) {
        None => {
            ctx.fail("tablets key present but from_custom_payload returned None");
            "absent".to_owned()
        }
        Some(Ok((f, l, reps))) => {
            match bounds() {
                Some((a, b)) => {
                    if !(a < b) {
                        ctx.fail(format!("payload range ({}, {}] accepted although last <= first", a, b));
                    } else if f != a + 1 || l != b {
                        ctx.fail(format!("payload range ({}, {}] became [{}, {}], expected [{}, {}]", a, b, f, l, a + 1, b));
                    }
                }
                None => ctx.fail("payload accepted although it is not two 8-byte bigints and a framed list"),
            }
            if f > l {
                ctx.fail(format!("accepted tablet has first {} > last {}", f, l));
            }
            let r: Vec<String> = reps.iter().map(|(u, s)| format!("{}.{}", u.as_u128(), s)).collect();
            format!("ok {}:{}:{}", f, l, if r.is_empty() { "-".to_owned() } else { r.join(",") })
        }
        Some(Err(kind)) => {
            if let Some((a, b)) = bounds() {
                if b <= a && kind != "wrongrange" {
                    ctx.fail(format!("payload range ({}, {}] rejected as {} instead of wrongrange", a, b, kind));
                }
                if a < b && kind == "wrongrange" {
                    ctx.fail(format!("non-empty payload range ({}, {}] rejected as wrong range", a, b));
                }
            }
            format!("err {}", kind)
        }
    }
}

// ------------------------------------------------------------------------------------------------
// refresh histories on the real ClusterState
// ------------------------------------------------------------------------------------------------

thread_local! {
    static RT: tokio::runtime::Runtime =
        tokio::runtime::Builder::new_current_thread().enable_all().build().unwrap();
}

#[derive(Clone, Debug, PartialEq, Eq)]
struct CsPeer {
    id: u32,
    dc: Option<String>,
    rack: Option<String>,
    /// the host filter accepts this peer (`csm` histories: a trailing `*`)
    accepted: bool,
}

fn parse_cs_peers(s: &str) -> Option<Vec<CsPeer>> {
    if s.is_empty() {
        return None;
    }
    let mut v: Vec<CsPeer> = Vec::new();
    for part0 in s.split(',') {
        let (part, accepted) = match part0.strip_suffix('*') {
            Some(x) => (x, true),
            None => (part0, false),
        };
        let p = match part.split_once('@') {
            None => CsPeer { id: part.parse().ok()?, dc: None, rack: None, accepted },
            Some((a, loc)) => {
                if loc.contains('@') {
                    return None;
                }
                let id = a.parse().ok()?;
                match loc.split_once('/') {
                    None => CsPeer { id, dc: Some(loc.to_owned()), rack: None, accepted },
                    Some((d, r)) => {
                        if r.contains('/') {
                            return None;
                        }
                        CsPeer { id, dc: Some(d.to_owned()), rack: Some(r.to_owned()), accepted }
                    }
                }
            }
        };
        if v.iter().any(|q| q.id == p.id) {
            return None;
        }
        v.push(p);
    }
    Some(v)
}

/// one keyspace of the schema part of a refresh: is it there, is it tablet-based, which of `t0`/`t1` are its tables / views
#[derive(Clone, Debug, PartialEq, Eq)]
enum KsCfg {
    Absent,
    NotTablet,
    Tablet(Vec<String>, Vec<String>),
    /// its fetch failed (only as the argument of a refresh; resolved against the previous schema)
    FetchFailed,
}

const CS_KEYSPACES: [&str; 2] = ["k0", "k1"];

fn parse_ks_cfg(cfg: &str) -> Option<KsCfg> {
    match cfg {
        "x" => Some(KsCfg::Absent),
        "-" => Some(KsCfg::NotTablet),
        "e" => Some(KsCfg::FetchFailed),
        _ => {
            let (t, v) = cfg.split_once('/')?;
            if v.contains('/') {
                return None;
            }
            let names = |s: &str| -> Vec<String> { if s.is_empty() { vec![] } else { s.split('+').map(|x| x.to_owned()).collect() } };
            let (t, v) = (names(t), names(v));
            if t.iter().chain(v.iter()).any(|n| n != "t0" && n != "t1") {
                return None;
            }
            Some(KsCfg::Tablet(t, v))
        }
    }
}

/// `!<k0 cfg>[&<k1 cfg>]`; without `!`: `k0` = `t0+t1/`, `k1` absent
fn parse_cs_schema(s: Option<&str>) -> Option<[KsCfg; 2]> {
    match s {
        None => Some([KsCfg::Tablet(vec!["t0".into(), "t1".into()], vec![]), KsCfg::Absent]),
        Some(cfg) => {
            let parts: Vec<&str> = cfg.split('&').collect();
            match parts.as_slice() {
                [a] => Some([parse_ks_cfg(a)?, KsCfg::Absent]),
                [a, b] => Some([parse_ks_cfg(a)?, parse_ks_cfg(b)?]),
                _ => None,
            }
        }
    }
}

#[derive(Clone, Copy, Debug, PartialEq, Eq)]
enum CsMode {
    /// the host filter rejects every peer (`cs`)
    Reject,
    /// it accepts every peer, the nodes are enabled (`csa`)
    Accept,
    /// per-peer verdicts; a node is enabled iff it was accepted when built / kept (`csm`)
    Mixed,
}

/// table index of the ops: 0, 1 = `k0.t0`, `k0.t1`; 2, 3 = `k1.t0`, `k1.t1`
fn cs_table(t: usize) -> (&'static str, String) {
    (CS_KEYSPACES[t / 2], format!("t{}", t % 2))
}

fn parse_cs_table(s: &str) -> Option<usize> {
    match s {
        "0" => Some(0),
        "1" => Some(1),
        "2" => Some(2),
        "3" => Some(3),
        _ => None,
    }
}

struct CsRunner {
    mode: CsMode,
    cs: Option<ClusterState>,
    peers: Vec<CsPeer>,
    /// the keyspaces of the current state (after resolution)
    schema: [KsCfg; 2],
    nodes: HashMap<u32, Option<String>>,
    tables: [TableShadow; 4],
    /// is the table in the tablet map (shadow)
    present: [bool; 4],
}

impl CsRunner {
    #[allow(clippy::type_complexity)]
    fn specs(&self, peers: &[CsPeer], schema: &[KsCfg; 2]) -> (Vec<NodeSpec>, Vec<KeyspaceSpec>, HashMap<String, Vec<String>>, HashMap<String, Vec<String>>, Vec<String>) {
        let nodes = peers
            .iter()
            .map(|p| NodeSpec {
                host_id: uuid_of(p.id),
                datacenter: p.dc.clone(),
                rack: p.rack.clone(),
                tokens: vec![p.id as i64 * 1000 + 7],
                // per-peer verdicts: a node is enabled iff the filter accepts it (what `Node::new` / `new_disabled` make of it)
                enabled: if self.mode == CsMode::Mixed { p.accepted } else { true },
                connected: true,
            })
            .collect();
        let mut ks = Vec::new();
        let mut tt = HashMap::new();
        let mut tv = HashMap::new();
        let mut failed = Vec::new();
        for (name, cfg) in CS_KEYSPACES.iter().zip(schema.iter()) {
            let spec = || KeyspaceSpec { name: name.to_string(), strategy: Strategy::SimpleStrategy { replication_factor: 1 } };
            match cfg {
                KsCfg::Absent => {}
                KsCfg::FetchFailed => failed.push(name.to_string()),
                KsCfg::NotTablet => ks.push(spec()),
                KsCfg::Tablet(t, v) => {
                    ks.push(spec());
                    tt.insert(name.to_string(), t.clone());
                    if !v.is_empty() {
                        tv.insert(name.to_string(), v.clone());
                    }
                }
            }
        }
        (nodes, ks, tt, tv, failed)
    }

    /// is the table in the real tablet map
    fn has_table(&self, t: usize) -> bool {
        let (k, name) = cs_table(t);
        self.cs.as_ref().is_some_and(|cs| cs.verif_tablet_tables().iter().any(|(kk, n, _)| kk == k && *n == name))
    }

    /// one refresh (`topology_only`: `new_with_updated_topology`, the schema stays); output: node objects kept, table
    /// sizes, `~e` / `~E` per keyspace whose fetch failed (an older version reused / none: dropped)
    fn refresh(&mut self, peers: Vec<CsPeer>, schema: [KsCfg; 2], topology_only: bool, ctx: &mut Ctx) -> String {
        let (nodes, ks, tt, tv, failed) = self.specs(&peers, &schema);
        // a keyspace whose fetch failed keeps its previous version; without one it is absent until the next refresh
        let mut tags = String::new();
        let mut resolved = schema.clone();
        for i in 0..2 {
            if schema[i] == KsCfg::FetchFailed {
                tags.push_str(if self.schema[i] == KsCfg::Absent { "~E" } else { "~e" });
                resolved[i] = self.schema[i].clone();
            }
        }
        let schema = resolved;
        let mode = self.mode;
        let accepted: Vec<Uuid> = peers.iter().filter(|p| p.accepted).map(|p| uuid_of(p.id)).collect();
        let before: Vec<(u32, Arc<Node>)> = match &self.cs {
            None => vec![],
            Some(cs) => self.peers.iter().filter_map(|p| cs.get_node_by_host_id(uuid_of(p.id)).map(|n| (p.id, Arc::clone(n)))).collect(),
        };
        let new_cs = RT.with(|rt| {
            rt.block_on(async {
                match (&self.cs, mode) {
                    (Some(prev), CsMode::Mixed) if topology_only => cluster_refresh_topology_filtered(prev, &nodes, &accepted).await,
                    (Some(prev), CsMode::Accept) if topology_only => cluster_refresh_topology_accepting(prev, &nodes).await,
                    (Some(prev), CsMode::Reject) if topology_only => cluster_refresh_topology(prev, &nodes).await,
                    (prev, CsMode::Mixed) => cluster_state_filtered(prev.as_ref(), &nodes, &ks, &tt, &tv, &failed, &accepted).await,
                    (prev, m) => cluster_state_general(prev.as_ref(), &nodes, &ks, &tt, &tv, &failed, m == CsMode::Accept).await,
                }
            })
        });
        let mut kept: Vec<u32> = before
            .iter()
            .filter(|(id, n)| new_cs.get_node_by_host_id(uuid_of(*id)).is_some_and(|m| Arc::ptr_eq(m, n)))
            .map(|(id, _)| *id)
            .collect();
        kept.sort();
        // the shadow: tables that are no longer tables / views of a tablet keyspace are forgotten, the others exist
        for t in 0..4 {
            let name = format!("t{}", t % 2);
            let keep = matches!(&schema[t / 2], KsCfg::Tablet(ts, vs) if ts.contains(&name) || vs.contains(&name));
            if !keep {
                self.tables[t] = TableShadow::default();
            }
            self.present[t] = keep;
        }
        // hosts that left, hosts now known
        let removed: Vec<u32> = self.peers.iter().map(|p| p.id).filter(|id| !peers.iter().any(|q| q.id == *id)).collect();
        self.nodes = peers.iter().map(|p| (p.id, p.dc.clone())).collect();
        for t in self.tables.iter_mut() {
            t.maintenance(&removed, &self.nodes);
        }
        self.peers = peers;
        self.schema = schema;
        self.cs = Some(new_cs);
        let sizes = self.cs.as_ref().unwrap().verif_tablet_tables();
        let want: Vec<(String, String, usize)> = (0..4)
            .filter(|t| self.present[*t])
            .map(|t| (cs_table(t).0.to_owned(), cs_table(t).1, self.tables[t].entries.iter().filter(|e| e.alive).count()))
            .collect();
        if sizes != want {
            ctx.fail(format!("after the refresh the tablet map holds {:?}, the tables / views of tablet keyspaces with their still valid tablets are {:?}", sizes, want));
        }
        format!(
            "{}|{}{}",
            crate::util::nat_list(&kept),
            if sizes.is_empty() { "-".to_owned() } else { sizes.iter().map(|(k, t, n)| format!("{}.{}:{}", k, t, n)).collect::<Vec<_>>().join("+") },
            tags
        )
    }

    fn answer(&self, t: usize, tok: i64, dc: Option<&str>) -> Vec<(u32, u32, bool)> {
        let cs = self.cs.as_ref().unwrap();
        let (k, name) = cs_table(t);
        let spec = TableSpec::owned(k.to_owned(), name);
        let st = Strategy::SimpleStrategy { replication_factor: 1 };
        cs.replica_locator()
            .replicas_for_token(Token::new(tok), &st, dc, &spec)
            .into_iter()
            .map(|(n, s): (&Arc<Node>, u32)| {
                let current = cs.get_node_by_host_id(n.host_id).is_some_and(|m| Arc::ptr_eq(m, n));
                (n.host_id.as_u128() as u32, s, current)
            })
            .collect()
    }

    /// the property on one answer
    fn check_answer(&self, t: usize, tok: i64, ctx: &mut Ctx) -> Vec<(u32, u32)> {
        let got = self.answer(t, tok, None);
        for (id, _, current) in &got {
            if !self.peers.iter().any(|p| p.id == *id) {
                ctx.fail(format!(
                    "table t{} token {}: replica on host {} which is not in the current peer set (stale tablet served)",
                    t, tok, id
                ));
            } else if !current {
                ctx.fail(format!("table t{} token {}: replica on host {} points to a replaced Node object", t, tok, id));
            }
        }
        let got: Vec<(u32, u32)> = got.into_iter().map(|(i, s, _)| (i, s)).collect();
        // the public readers: `get_token_endpoints` (and `get_endpoints` = `compute_token` + it) must hand out the very same
        // replicas - same hosts, shards, order and `Node` objects - as the locator's tablet branch
        {
            let cs = self.cs.as_ref().unwrap();
            let (k, name) = cs_table(t);
            let api = cs.get_token_endpoints(k, &name, Token::new(tok));
            let spec = TableSpec::owned(k.to_owned(), name.clone());
            let st = Strategy::SimpleStrategy { replication_factor: 1 };
            let direct: Vec<(&Arc<Node>, u32)> = cs.replica_locator().replicas_for_token(Token::new(tok), &st, None, &spec).into_iter().collect();
            let same = api.len() == direct.len() && api.iter().zip(direct.iter()).all(|((a, sa), (d, sd))| Arc::ptr_eq(a, d) && sa == sd);
            if !same {
                ctx.fail(format!(
                    "table {}.{} token {}: ClusterState::get_token_endpoints answers {} but the locator's tablet branch answers {}",
                    k,
                    name,
                    tok,
                    show_reps(&api.iter().map(|(n, s)| (n.host_id.as_u128() as u32, *s)).collect::<Vec<_>>()),
                    show_reps(&got)
                ));
            }
            if let (Ok(token), Ok(by_key)) = (cs.compute_token(k, &name, &()), cs.get_endpoints(k, &name, &())) {
                let at = cs.get_token_endpoints(k, &name, token);
                if by_key.len() != at.len() || by_key.iter().zip(at.iter()).any(|((a, sa), (b, sb))| !Arc::ptr_eq(a, b) || sa != sb) {
                    ctx.fail(format!("table {}.{}: get_endpoints differs from get_token_endpoints at the key's token {}", k, name, token.value()));
                }
            }
        }
        let want = self.tables[t].lookup(token_new(tok)).map(|e| e.resolved.clone()).unwrap_or_default();
        if got != want {
            ctx.fail(format!(
                "table t{} token {}: answered {} but the tablets learnt and still valid say {}",
                t,
                tok,
                show_reps(&got),
                show_reps(&want)
            ));
        }
        got
    }

    /// every token at or next to an end of any range ever learnt
    fn check_all(&self, ctx: &mut Ctx) {
        for t in 0..4 {
            if self.present[t] != self.has_table(t) {
                ctx.fail(format!("table t{} {} in the tablet map", t, if self.present[t] { "should be but is not" } else { "should not be but is" }));
            }
            if !self.has_table(t) {
                continue;
            }
            let mut toks: Vec<i64> = Vec::new();
            for e in &self.tables[t].entries {
                for x in [e.first, e.last] {
                    toks.extend([x.saturating_sub(1), x, x.saturating_add(1)]);
                }
            }
            toks.sort();
            toks.dedup();
            for tok in toks {
                self.check_answer(t, tok, ctx);
            }
        }
    }

    fn op(&mut self, op: &str, ctx: &mut Ctx) -> Option<String> {
        let c = op.chars().next()?;
        let arg = &op[c.len_utf8()..];
        let out = match c {
            'P' => {
                let (ps, schema) = match arg.split_once('!') {
                    None => (arg, parse_cs_schema(None)?),
                    Some((a, b)) => {
                        if b.contains('!') {
                            return None;
                        }
                        (a, parse_cs_schema(Some(b))?)
                    }
                };
                let peers = parse_cs_peers(ps)?;
                format!("P{}", self.refresh(peers, schema, false, ctx))
            }
            'N' => {
                self.cs.as_ref()?;
                let peers = parse_cs_peers(arg)?;
                let schema = self.schema.clone();
                format!("N{}", self.refresh(peers, schema, true, ctx))
            }
            'L' | 'B' => {
                // `L`: a batch of one; `B`: ONE `update_tablets` call with the whole `|`-separated batch
                self.cs.as_ref()?;
                let items: Vec<&str> = if c == 'L' { vec![arg] } else { arg.split('|').collect() };
                let mut batch: Vec<(usize, i64, i64, Vec<(u32, u32)>)> = Vec::new();
                for it in items {
                    let parts: Vec<&str> = it.split(':').collect();
                    if parts.len() != 4 {
                        return None;
                    }
                    let t: usize = parse_cs_table(parts[0])?;
                    let f: i64 = parts[1].parse().ok()?;
                    let l: i64 = parts[2].parse().ok()?;
                    let reps = parse_reps(parts[3])?;
                    if token_new(f) > token_new(l) {
                        return None;
                    }
                    batch.push((t, f, l, reps));
                }
                let call: Vec<(String, String, i64, i64, Vec<(Uuid, u32)>)> =
                    batch.iter().map(|(t, f, l, r)| (cs_table(*t).0.to_owned(), cs_table(*t).1, *f, *l, to_uuid_reps(r))).collect();
                self.cs.as_mut().unwrap().verif_update_tablets(&call);
                // the shadow: tablet by tablet, in the order of the batch (a later tablet wins over an earlier one)
                for (t, f, l, r) in &batch {
                    self.tables[*t].insert(token_new(*f), token_new(*l), r, &self.nodes);
                    self.present[*t] = true;
                }
                c.to_string()
            }
            's' => {
                self.cs.as_ref()?;
                let parts: Vec<&str> = arg.split(':').collect();
                if parts.len() != 3 {
                    return None;
                }
                let t: usize = parse_cs_table(parts[0])?;
                let lo: i64 = parts[1].parse().ok()?;
                let hi: i64 = parts[2].parse().ok()?;
                if !(lo <= hi && (hi as i128 - lo as i128) <= 64) {
                    return None;
                }
                if !self.has_table(t) {
                    // not a table of the tablet map: the locator falls back to the token ring (not this property)
                    "notable".to_owned()
                } else {
                    (lo..=hi).map(|tok| show_reps(&self.check_answer(t, tok, ctx))).collect::<Vec<_>>().join("/")
                }
            }
            'd' => {
                self.cs.as_ref()?;
                let (a, dc) = arg.split_once('@')?;
                if dc.contains('@') {
                    return None;
                }
                let (t, tok) = a.split_once(':')?;
                let t: usize = parse_cs_table(t)?;
                let tok: i64 = tok.parse().ok()?;
                if !self.has_table(t) {
                    self.check_all(ctx);
                    return Some("notable".to_owned());
                }
                let got: Vec<(u32, u32)> = self.answer(t, tok, Some(dc)).into_iter().map(|(i, s, _)| (i, s)).collect();
                let want: Vec<(u32, u32)> = self
                    .check_answer(t, tok, ctx)
                    .into_iter()
                    .filter(|(id, _)| self.nodes.get(id).map(|d| d.as_deref() == Some(dc)).unwrap_or(false))
                    .collect();
                if got != want {
                    ctx.fail(format!(
                        "table t{} token {} datacenter {}: answered {} but the full list restricted to it is {}",
                        t,
                        tok,
                        dc,
                        show_reps(&got),
                        show_reps(&want)
                    ));
                }
                show_reps(&got)
            }
            _ => return None,
        };
        self.check_all(ctx);
        Some(out)
    }
}

fn run_cs(ops: &str, mode: CsMode, ctx: &mut Ctx) -> String {
    let mut r = CsRunner {
        mode,
        cs: None,
        peers: vec![],
        schema: [KsCfg::Absent, KsCfg::Absent],
        nodes: HashMap::new(),
        tables: [TableShadow::default(), TableShadow::default(), TableShadow::default(), TableShadow::default()],
        present: [false; 4],
    };
    let mut outs = Vec::new();
    for op in ops.split(';').filter(|o| !o.is_empty()) {
        match r.op(op, ctx) {
            Some(o) => outs.push(o),
            None => return "bad-case".to_owned(),
        }
    }
    outs.join(";")
}

pub fn run(case: &str, ctx: &mut Ctx) -> String {
    let w: Vec<&str> = case.split_whitespace().collect();
    match w.as_slice() {
        ["tab", ops] => run_tab(ops, ctx),
        ["cs", ops] => run_cs(ops, CsMode::Reject, ctx),
        ["csa", ops] => run_cs(ops, CsMode::Accept, ctx),
        ["csm", ops] => run_cs(ops, CsMode::Mixed, ctx),
        ["payload", arg] => run_payload(arg, ctx),
        ["exh", alpha, depth, pre] => run_exh(alpha, depth, pre, ctx),
        _ => "bad-case".to_owned(),
    }
}

// ------------------------------------------------------------------------------------------------
// generators
// ------------------------------------------------------------------------------------------------

const DCS: [&str; 3] = ["dc0", "dc1", "dc2"];

/// token pool of one random history: the extremes, a few anchors and their neighbours (so that ranges touch,
/// nest and share end points often)
fn token_pool(rng: &mut Rng) -> Vec<i64> {
    let mut pool = vec![i64::MIN + 1, i64::MIN + 2, i64::MAX - 1, i64::MAX, -1, 0, 1];
    let anchors = 2 + rng.below(5);
    for _ in 0..anchors {
        let a = match rng.below(3) {
            0 => rng.range(-50, 50),
            1 => rng.i64_boundary(),
            _ => rng.next() as i64,
        };
        for d in [-2i64, -1, 0, 1, 2] {
            let t = a.saturating_add(d);
            if t != i64::MIN {
                pool.push(t);
            }
        }
    }
    pool
}

fn gen_reps(rng: &mut Rng, max_id: u32) -> String {
    let n = match rng.below(10) {
        0 => 0,
        1..=3 => 1,
        4..=7 => 3,
        _ => rng.range(2, 5) as usize,
    };
    let r: Vec<String> = (0..n).map(|_| format!("{}.{}", rng.below(max_id as u64), rng.below(4))).collect();
    if r.is_empty() { "-".to_owned() } else { r.join(",") }
}

fn gen_range(rng: &mut Rng, pool: &[i64]) -> (i64, i64) {
    let a = *rng.pick(pool);
    let b = match rng.below(6) {
        0 => a,
        1 => a.saturating_add(rng.range(0, 3)),
        _ => *rng.pick(pool),
    };
    (a.min(b), a.max(b))
}

fn gen_topology(rng: &mut Rng, known: &mut Vec<u32>, max_id: u32) -> (String, String) {
    // removed: mostly known nodes, sometimes an id that was never known
    let mut removed: Vec<u32> = Vec::new();
    let nr = match rng.below(6) {
        0..=2 => 0,
        3 | 4 => 1,
        _ => 2,
    };
    for _ in 0..nr {
        let id = if !known.is_empty() && rng.chance(5, 6) { *rng.pick(known) } else { rng.below(max_id as u64) as u32 };
        if !removed.contains(&id) {
            removed.push(id);
        }
    }
    known.retain(|k| !removed.contains(k));
    let mut recreated: Vec<String> = Vec::new();
    let nc = match rng.below(6) {
        0..=2 => 0,
        3 | 4 => 1,
        _ => 2,
    };
    for _ in 0..nc {
        let id = if !known.is_empty() && rng.chance(5, 6) { *rng.pick(known) } else { rng.below(max_id as u64) as u32 };
        recreated.push(if rng.chance(1, 8) { format!("{}", id) } else { format!("{}@{}", id, rng.pick(&DCS)) });
    }
    (removed.iter().map(|x| x.to_string()).collect::<Vec<_>>().join(","), recreated.join(","))
}

fn random_history(rng: &mut Rng, len: usize, ill_formed: bool) -> String {
    let pool = token_pool(rng);
    let max_id = 3 + rng.below(6) as u32;
    let mut known: Vec<u32> = Vec::new();
    let mut ops: Vec<String> = Vec::new();
    let start_nodes = rng.below(max_id as u64 + 1) as u32;
    for id in 0..start_nodes {
        known.push(id);
        ops.push(if rng.chance(1, 10) { format!("n{}", id) } else { format!("n{}@{}", id, rng.pick(&DCS)) });
    }
    let mut last_range = (0i64, 0i64);
    while ops.len() < len {
        match rng.below(100) {
            0..=44 => {
                let (mut f, mut l) = gen_range(rng, &pool);
                if ill_formed && rng.chance(1, 6) {
                    // malformed stream: first > last, or `i64::MIN` (normalised to MAX) as a bound
                    match rng.below(3) {
                        0 => std::mem::swap(&mut f, &mut l),
                        1 => f = i64::MIN,
                        _ => l = i64::MIN,
                    }
                }
                last_range = (f, l);
                ops.push(format!("a{}:{}:{}", f, l, gen_reps(rng, max_id)));
            }
            45..=64 => {
                let t = match rng.below(5) {
                    0 => last_range.0,
                    1 => last_range.1,
                    2 => last_range.0.saturating_sub(1),
                    3 => last_range.1.saturating_add(1),
                    _ => *rng.pick(&pool),
                };
                ops.push(format!("q{}", if rng.chance(1, 40) { i64::MIN } else { t }));
            }
            65..=76 => {
                let t = if rng.bool() { last_range.0 } else { *rng.pick(&pool) };
                ops.push(format!("d{}@{}", t, if rng.chance(1, 10) { "dcx" } else { *rng.pick(&DCS) }));
            }
            77..=86 => {
                let (rm, rc) = gen_topology(rng, &mut known, max_id);
                ops.push(format!("m{}/{}", rm, rc));
            }
            87..=92 => {
                // a node that is not known (never: replacing a known node behind the tablets' back)
                let id = rng.below(max_id as u64) as u32;
                if !known.contains(&id) {
                    known.push(id);
                    ops.push(format!("n{}@{}", id, rng.pick(&DCS)));
                }
            }
            93..=96 => ops.push("t".to_owned()),
            _ => {
                let lo = pool[rng.below(pool.len() as u64) as usize];
                let lo = lo.min(i64::MAX - 8);
                ops.push(format!("s{}:{}", lo, lo + rng.range(0, 8)));
            }
        }
    }
    ops.push("t".to_owned());
    format!("tab {}", ops.join(";"))
}

fn info_history(rng: &mut Rng, len: usize) -> String {
    let kss = ["ka", "kb", "kc"];
    let tbs = ["t1", "t2", "t3"];
    let pool = token_pool(rng);
    let max_id = 4u32;
    let mut known: Vec<u32> = vec![0, 1];
    let mut ops: Vec<String> = vec!["n0@dc0".into(), "n1@dc1".into()];
    while ops.len() < len {
        match rng.below(100) {
            0..=44 => {
                let (f, l) = gen_range(rng, &pool);
                ops.push(format!("A{}.{}:{}:{}:{}", rng.pick(&kss), rng.pick(&tbs), f, l, gen_reps(rng, max_id)));
            }
            45..=56 => ops.push(format!("Q{}.{}:{}", rng.pick(&kss), rng.pick(&tbs), rng.pick(&pool))),
            57..=64 => ops.push(format!(
                "D{}.{}:{}@{}",
                rng.pick(&kss),
                rng.pick(&tbs),
                rng.pick(&pool),
                if rng.chance(1, 10) { "dcx" } else { *rng.pick(&DCS) }
            )),
            65..=84 => {
                let mut ks_items: Vec<String> = Vec::new();
                for k in kss.iter() {
                    if rng.chance(3, 4) {
                        // each name: a table, a materialized view, or gone
                        let mut tables: Vec<&str> = Vec::new();
                        let mut views: Vec<&str> = Vec::new();
                        for n in tbs.iter() {
                            match rng.below(6) {
                                0 | 1 | 2 => tables.push(n),
                                3 | 4 => views.push(n),
                                _ => {}
                            }
                        }
                        let flag = if rng.chance(3, 4) { 1 } else { 0 };
                        if views.is_empty() && rng.bool() {
                            ks_items.push(format!("{}:{}:{}", k, flag, tables.join("+")));
                        } else {
                            ks_items.push(format!("{}:{}:{}:{}", k, flag, tables.join("+"), views.join("+")));
                        }
                    }
                }
                if rng.chance(1, 10) && !ks_items.is_empty() {
                    // a keyspace listed twice (the last entry wins)
                    let again = format!("{}:{}:{}", rng.pick(&kss), rng.below(2), tbs[rng.below(3) as usize]);
                    ks_items.push(again);
                }
                let (rm, rc) = if rng.chance(1, 2) { (String::new(), String::new()) } else { gen_topology(rng, &mut known, max_id) };
                ops.push(format!("M{}/{}/{}", ks_items.join("&"), rm, rc));
            }
            85..=90 => {
                let id = rng.below(max_id as u64) as u32;
                if !known.contains(&id) {
                    known.push(id);
                    ops.push(format!("n{}@{}", id, rng.pick(&DCS)));
                }
            }
            _ => ops.push("T".to_owned()),
        }
    }
    ops.push("T".to_owned());
    format!("tab {}", ops.join(";"))
}

fn cell(b: Option<&[u8]>) -> Vec<u8> {
    match b {
        None => (-1i32).to_be_bytes().to_vec(),
        Some(b) => {
            let mut v = (b.len() as i32).to_be_bytes().to_vec();
            v.extend_from_slice(b);
            v
        }
    }
}

fn gen_payload(rng: &mut Rng) -> String {
    let bound = |rng: &mut Rng| -> i64 {
        match rng.below(4) {
            0 => *rng.pick(&[i64::MIN, i64::MIN + 1, -1, 0, 1, i64::MAX - 1, i64::MAX]),
            1 => rng.range(-3, 3),
            _ => rng.i64_boundary(),
        }
    };
    let a = bound(rng);
    let b = match rng.below(10) {
        0 => a,
        1 | 2 => a.saturating_add(1),
        3 => a.saturating_sub(1),
        4 | 5 => bound(rng),
        _ => {
            let x = bound(rng);
            if x > a { x } else { a.saturating_add(rng.range(1, 1000)) }
        }
    };
    let n = *rng.pick(&[0usize, 1, 1, 2, 3, 3, 5]);
    let mut list: Vec<u8> = (n as i32).to_be_bytes().to_vec();
    let neg_shard = rng.chance(1, 8);
    for k in 0..n {
        let id: u128 = if rng.bool() { rng.below(8) as u128 } else { ((rng.next() as u128) << 64) | rng.next() as u128 };
        let shard: i32 = if neg_shard && k + 1 == n { -(rng.range(1, 5) as i32) } else { *rng.pick(&[0, 1, 2, 7, 255, i32::MAX]) };
        let mut t = cell(Some(&id.to_be_bytes()));
        t.extend(cell(Some(&shard.to_be_bytes())));
        list.extend(cell(Some(&t)));
    }
    let mut p = cell(Some(&a.to_be_bytes()));
    p.extend(cell(Some(&b.to_be_bytes())));
    p.extend(cell(Some(&list)));
    // malformed stream
    match rng.below(12) {
        0 => {
            let cut = rng.below(p.len() as u64 + 1) as usize;
            p.truncate(cut);
        }
        1 => {
            let i = rng.below(p.len() as u64) as usize;
            p[i] ^= 1 << rng.below(8);
        }
        2 => {
            // wrong type: (int, int, list) / text / nulls
            p = match rng.below(4) {
                0 => {
                    let mut q = cell(Some(&(a as i32).to_be_bytes()));
                    q.extend(cell(Some(&(b as i32).to_be_bytes())));
                    q.extend(cell(Some(&list)));
                    q
                }
                1 => cell(Some(b"tablet")),
                2 => {
                    let mut q = cell(None);
                    q.extend(cell(Some(&b.to_be_bytes())));
                    q.extend(cell(Some(&list)));
                    q
                }
                _ => {
                    let mut q = cell(Some(&a.to_be_bytes()));
                    q.extend(cell(Some(&b.to_be_bytes())));
                    if rng.bool() {
                        q.extend(cell(None));
                    }
                    q
                }
            };
        }
        3 => {
            // element count larger than the elements present / negative count
            let cnt: i32 = *rng.pick(&[-1, n as i32 + 1, i32::MAX, 1 << 20]);
            let mut l2 = cnt.to_be_bytes().to_vec();
            l2.extend_from_slice(&list[4..]);
            p = cell(Some(&a.to_be_bytes()));
            p.extend(cell(Some(&b.to_be_bytes())));
            p.extend(cell(Some(&l2)));
        }
        4 => p.extend(rng.bytes(3)),
        _ => {}
    }
    format!("payload {}", hex(&p))
}

fn fmt_cs_peers(peers: &[CsPeer]) -> String {
    peers
        .iter()
        .map(|p| {
            let base = match (&p.dc, &p.rack) {
                (None, _) => format!("{}", p.id),
                (Some(d), None) => format!("{}@{}", p.id, d),
                (Some(d), Some(r)) => format!("{}@{}/{}", p.id, d, r),
            };
            if p.accepted { format!("{}*", base) } else { base }
        })
        .collect::<Vec<_>>()
        .join(",")
}

fn fresh_cs_peer(rng: &mut Rng, peers: &[CsPeer], max_id: u32) -> Option<CsPeer> {
    let free: Vec<u32> = (0..max_id).filter(|i| !peers.iter().any(|p| p.id == *i)).collect();
    if free.is_empty() {
        return None;
    }
    let dc = if rng.chance(1, 12) { None } else { Some(rng.pick(&DCS).to_string()) };
    let rack = if dc.is_some() && rng.bool() { Some(format!("r{}", rng.below(2))) } else { None };
    Some(CsPeer { id: *rng.pick(&free), dc, rack, accepted: false })
}

/// one metadata refresh: removals, additions, replacement in ONE refresh (remove k, add >= k), same-size swaps,
/// re-created nodes (datacenter / rack / address changed), and the refresh that changes nothing
fn gen_refresh(rng: &mut Rng, peers: &mut Vec<CsPeer>, max_id: u32) {
    match rng.below(12) {
        // replacement: k hosts leave, k..k+2 new hosts come (the map grows or keeps its size)
        0..=3 => {
            let k = (1 + rng.below(2) as usize).min(peers.len().saturating_sub(1));
            let extra = rng.below(3) as usize;
            let in_place = rng.bool();
            for _ in 0..k {
                let i = rng.below(peers.len() as u64) as usize;
                match fresh_cs_peer(rng, peers, max_id) {
                    Some(n) if in_place => peers[i] = n,
                    Some(n) => {
                        peers.remove(i);
                        peers.push(n);
                    }
                    None => {
                        if peers.len() > 1 {
                            peers.remove(i);
                        }
                    }
                }
            }
            for _ in 0..extra {
                if let Some(n) = fresh_cs_peer(rng, peers, max_id) {
                    peers.push(n);
                }
            }
        }
        // removal only
        4 | 5 => {
            let k = 1 + rng.below(2) as usize;
            for _ in 0..k {
                if peers.len() > 1 {
                    let i = rng.below(peers.len() as u64) as usize;
                    if rng.bool() {
                        peers.remove(i);
                    } else {
                        // the last host takes the place of the removed one (no other address changes)
                        peers.swap_remove(i);
                    }
                }
            }
        }
        // addition only
        6 | 7 => {
            for _ in 0..1 + rng.below(3) {
                if let Some(n) = fresh_cs_peer(rng, peers, max_id) {
                    if rng.bool() {
                        peers.push(n);
                    } else {
                        let i = rng.below(peers.len() as u64 + 1) as usize;
                        peers.insert(i, n);
                    }
                }
            }
        }
        // re-creation: datacenter / rack changed, or the address (position) changed
        8 | 9 => {
            let i = rng.below(peers.len() as u64) as usize;
            match rng.below(3) {
                0 => peers[i].dc = Some(rng.pick(&DCS).to_string()),
                1 => peers[i].rack = if peers[i].dc.is_some() { Some(format!("r{}", rng.below(3))) } else { None },
                _ => {
                    let j = rng.below(peers.len() as u64) as usize;
                    peers.swap(i, j);
                }
            }
        }
        // re-creation and replacement in the same refresh
        10 => {
            let i = rng.below(peers.len() as u64) as usize;
            peers[i].dc = Some(rng.pick(&DCS).to_string());
            let j = rng.below(peers.len() as u64) as usize;
            if let Some(n) = fresh_cs_peer(rng, peers, max_id) {
                peers[j] = n;
            }
        }
        // nothing changes
        _ => {}
    }
}

/// one keyspace's schema config of a `P` op
fn gen_ks_cfg(rng: &mut Rng) -> &'static str {
    *rng.pick(&["x", "-", "e", "e", "e", "t0/", "t1/", "/", "t0/t1", "t1/t0", "/t0+t1", "t0+t1/", "t0+t1/"])
}

/// `csm`: the host filter's verdict on every peer, drawn anew at every refresh (mostly stable, so that nodes are
/// reused; sometimes flipped, so that an enabled node meets a rejecting filter and a disabled one an accepting filter)
fn redraw_verdicts(rng: &mut Rng, peers: &mut [CsPeer], mixed: bool, first: bool) {
    if !mixed {
        return;
    }
    for p in peers.iter_mut() {
        if first || rng.chance(1, 4) {
            p.accepted = rng.bool();
        }
    }
}

fn cs_history(rng: &mut Rng, len: usize) -> String {
    let kind = *rng.pick(&["cs", "csa", "csm"]);
    let mixed = kind == "csm";
    // one or two keyspaces in play
    let two = rng.bool();
    let ntables: u64 = if two { 4 } else { 2 };
    let max_id = 6 + rng.below(5) as u32;
    let mut peers: Vec<CsPeer> = Vec::new();
    for _ in 0..2 + rng.below(4) {
        if let Some(p) = fresh_cs_peer(rng, &peers, max_id) {
            peers.push(p);
        }
    }
    redraw_verdicts(rng, &mut peers, mixed, true);
    let mut ops = vec![if two {
        format!("P{}!{}&{}", fmt_cs_peers(&peers), *rng.pick(&["t0+t1/", "t0+t1/", "t0/t1", "e", "-"]), *rng.pick(&["t0+t1/", "t0/", "-", "e"]))
    } else {
        format!("P{}", fmt_cs_peers(&peers))
    }];
    // token universe: small (every relation often) or the i64 boundary pool
    let pool: Option<Vec<i64>> = if rng.chance(1, 3) { Some(token_pool(rng)) } else { None };
    let universe = 12 + rng.below(12) as i64;
    let pick_range = |rng: &mut Rng| -> (i64, i64) {
        match &pool {
            Some(p) => gen_range(rng, p),
            None => {
                let a = rng.range(0, universe);
                (a, (a + match rng.below(3) { 0 => 0, 1 => rng.range(0, 3), _ => rng.range(0, universe) }).min(universe))
            }
        }
    };
    let scan_op = |rng: &mut Rng, t: u64, last: (i64, i64)| -> String {
        match &pool {
            Some(p) => {
                let c = match rng.below(3) { 0 => last.0, 1 => last.1, _ => *rng.pick(p) };
                let lo = c.saturating_sub(rng.range(0, 3)).min(i64::MAX - 6);
                format!("s{}:{}:{}", t, lo, lo + rng.range(0, 6))
            }
            None => format!("s{}:-1:{}", t, universe + 1),
        }
    };
    let mut last_range = (0i64, 0i64);
    while ops.len() < len {
        match rng.below(100) {
            0..=32 => {
                let (a, b) = pick_range(rng);
                last_range = (a, b);
                // replicas: mostly current peers, sometimes a host not (yet) known
                let n = 1 + rng.below(3);
                let reps: Vec<String> = (0..n)
                    .map(|_| {
                        let id = if rng.chance(1, 7) { rng.below(max_id as u64) as u32 } else { rng.pick(&peers).id };
                        format!("{}.{}", id, rng.below(3))
                    })
                    .collect();
                ops.push(format!("L{}:{}:{}:{}", rng.below(ntables), a, b, reps.join(",")));
            }
            33..=56 => {
                // one `update_tablets` call with 1..=8 tablets: the same range again with other replicas (the tablet
                // migrated between two responses), overlapping ranges, A,B,A patterns, both tables interleaved
                let n = 1 + rng.below(8) as usize;
                let mut items: Vec<(u64, i64, i64)> = Vec::new();
                let mut out: Vec<String> = Vec::new();
                for _ in 0..n {
                    let (t, a, b) = if !items.is_empty() && rng.chance(1, 2) {
                        let prev = items[rng.below(items.len() as u64) as usize];
                        match rng.below(4) {
                            // the very same table and range again
                            0 | 1 => prev,
                            // a range overlapping an earlier one of the batch
                            2 => {
                                let a = rng.range(prev.1, prev.2);
                                (prev.0, a, if pool.is_some() { a.saturating_add(rng.range(0, 4)) } else { (a + rng.range(0, 4)).min(universe) })
                            }
                            // the same range in another table
                            _ => ((prev.0 + 1 + rng.below(ntables - 1)) % ntables, prev.1, prev.2),
                        }
                    } else {
                        let (a, b) = pick_range(rng);
                        (rng.below(ntables), a, b)
                    };
                    last_range = (a, b);
                    items.push((t, a, b));
                    let k = 1 + rng.below(3);
                    let reps: Vec<String> = (0..k)
                        .map(|_| {
                            let id = if rng.chance(1, 8) { rng.below(max_id as u64) as u32 } else { rng.pick(&peers).id };
                            format!("{}.{}", id, rng.below(3))
                        })
                        .collect();
                    out.push(format!("{}:{}:{}:{}", t, a, b, reps.join(",")));
                }
                // A, B, A: repeat the first tablet of the batch at its end, with its own replicas
                if out.len() >= 2 && rng.chance(1, 3) {
                    let first = out[0].clone();
                    out.push(first);
                }
                ops.push(format!("B{}", out.join("|")));
                if rng.chance(1, 2) {
                    let t = rng.below(ntables);
                    ops.push(scan_op(rng, t, last_range));
                }
            }
            57..=69 => {
                gen_refresh(rng, &mut peers, max_id);
                redraw_verdicts(rng, &mut peers, mixed, false);
                match rng.below(10) {
                    // `new_with_updated_topology`: peers only
                    0 | 1 => ops.push(format!("N{}", fmt_cs_peers(&peers))),
                    // the schema changes: keyspace dropped / no longer tablet-based / its fetch fails / a table dropped /
                    // a table becomes a view - independently for the two keyspaces
                    2 | 3 | 4 | 5 => {
                        if two {
                            ops.push(format!("P{}!{}&{}", fmt_cs_peers(&peers), gen_ks_cfg(rng), gen_ks_cfg(rng)));
                        } else {
                            ops.push(format!("P{}!{}", fmt_cs_peers(&peers), gen_ks_cfg(rng)));
                        }
                    }
                    _ => {
                        if two {
                            ops.push(format!("P{}!t0+t1/&t0+t1/", fmt_cs_peers(&peers)));
                        } else {
                            ops.push(format!("P{}", fmt_cs_peers(&peers)));
                        }
                    }
                }
                if rng.chance(2, 3) {
                    let t = rng.below(ntables);
                    ops.push(scan_op(rng, t, last_range));
                }
            }
            70..=84 => {
                let t = rng.below(ntables);
                ops.push(scan_op(rng, t, last_range));
            }
            _ => {
                let tok = match &pool {
                    Some(p) => if rng.bool() { last_range.0 } else { *rng.pick(p) },
                    None => rng.range(0, universe),
                };
                ops.push(format!("d{}:{}@{}", rng.below(ntables), tok, rng.pick(&DCS)));
            }
        }
    }
    ops.push(scan_op(rng, 0, last_range));
    ops.push(scan_op(rng, 1, last_range));
    // half of the histories with an accepting host filter and enabled nodes (the accepted-node arms of
    // calculate_new_topology: reuse, inherit_with_ip_changed, Node::new)
    if two {
        ops.push(scan_op(rng, 2, last_range));
        ops.push(scan_op(rng, 3, last_range));
    }
    format!("{} {}", kind, ops.join(";"))
}

pub fn generate(rng: &mut Rng, tier: Tier, emit: &mut dyn FnMut(String)) {
    let quick = tier == Tier::Quick;
    let mut light: Vec<String> = Vec::new();
    let mut heavy: Vec<String> = Vec::new();

    // 1. exhaustive histories over the 6-token universe, every token queried after every step
    //    (a) as plain `tab` lines (every answer visible in the diff) up to length 3 / 4
    let setup = EXH_SETUP.join(";");
    for (alpha, depth) in [("A", if quick { 3 } else { 4 }), ("B", 3)] {
        let ops = exh_alphabet(alpha).unwrap();
        let mut idx = vec![0usize; depth];
        'outer: loop {
            let mut line = format!("tab {}", setup);
            for i in &idx {
                line.push(';');
                line.push_str(&ops[*i]);
                line.push_str(";s0:5");
                if alpha == "B" {
                    line.push_str(";d2@dc0;d2@dc1;d3@dc1");
                }
            }
            line.push_str(";t");
            light.push(line);
            let mut k = depth;
            loop {
                if k == 0 {
                    break 'outer;
                }
                k -= 1;
                idx[k] += 1;
                if idx[k] < ops.len() {
                    break;
                }
                idx[k] = 0;
            }
        }
    }
    //    (b) as digests of whole subtrees: inserts only to length 5 / 6, with topology steps to length 4 / 5
    let na = exh_alphabet("A").unwrap().len();
    let nb = exh_alphabet("B").unwrap().len();
    for i in 0..na {
        for j in 0..na {
            heavy.push(format!("exh A {} {},{}", if quick { 3 } else { 4 }, i, j));
        }
    }
    for i in 0..nb {
        if quick {
            heavy.push(format!("exh B 3 {}", i));
        } else {
            for j in 0..nb {
                heavy.push(format!("exh B 3 {},{}", i, j));
            }
        }
    }

    // 2. random histories over the full token range (extremes, touching ranges), maintenance included
    let scale = if quick { 1 } else { 6 };
    for _ in 0..4000 * scale {
        let len = match rng.below(4) {
            0 => rng.range(2, 12) as usize,
            1 => rng.range(12, 60) as usize,
            _ => rng.range(60, 200) as usize,
        };
        light.push(random_history(rng, len, false));
    }
    // 3. malformed stream: ill-formed inserts (the oracle stops at the first one; model and code must still agree)
    for _ in 0..600 * scale {
        let len = rng.range(3, 60) as usize;
        light.push(random_history(rng, len, true));
    }
    // 4. TabletsInfo level
    for _ in 0..1500 * scale {
        let len = rng.range(4, 60) as usize;
        light.push(info_history(rng, len));
    }
    // 5. refresh histories on the real ClusterState (how removed / re-created hosts are derived from old vs new peers)
    for _ in 0..2500 * scale {
        let len = match rng.below(3) {
            0 => rng.range(3, 8) as usize,
            1 => rng.range(8, 25) as usize,
            _ => rng.range(25, 60) as usize,
        };
        light.push(cs_history(rng, len));
    }
    // 6. payloads
    light.push("payload absent".to_owned());
    for _ in 0..4000 * scale {
        light.push(gen_payload(rng));
    }

    // heavy cases evenly spread (the runner cuts the case list into contiguous chunks)
    let every = (light.len() / heavy.len().max(1)).max(1);
    let mut h = heavy.into_iter();
    for (i, l) in light.into_iter().enumerate() {
        if i % every == 0 {
            if let Some(x) = h.next() {
                emit(x);
            }
        }
        emit(l);
    }
    for x in h {
        emit(x);
    }
}

//! C15 — the tablet map of a table stays a set of disjoint ranges with latest-wins lookup.
//!
//! Case grammar:
//!   tab <op>;<op>;…       one history on a fresh `VerifTablets` (see lean/ScyllaVerif/Drive/C15.lean for the ops)
//!   payload <hex>         `RawTablet::from_custom_payload` on the cell bytes stored under the tablets key
//!   exh <A|B> <depth> <i,j,…|->   every history of `depth` more operations of a small alphabet over the token
//!                         universe 0..=5 after the given prefix; output = number of histories visited + digest of
//!                         every lookup after every step (the oracle runs on every visited history)
//!
//! ORACLE (independent of the Lean model): a naive shadow keeps every insert ever made as
//! `(seq, first, last, raw replicas, resolved replicas, unknown?, alive?)`; an insert kills the alive entries
//! it overlaps, maintenance kills entries with a replica on a removed node and entries whose unknown replicas
//! still do not resolve.  The answer for a token must be the entry with the greatest `seq` covering it if
//! that entry is alive, else nothing.  The dumped list must be sorted, pairwise disjoint, `first <= last`, and be
//! exactly the alive entries; dc-restricted replicas must be the filter of the full list by the node's
//! datacenter; after maintenance nothing is unresolved or points to a replaced `Node` object.
use crate::rng::Rng;
use crate::util::{hex, unhex};
use crate::{Ctx, Tier};
use bytes::Bytes;
use scylla::verif_hooks::tablets::{TabletView, VerifTablets, raw_tablet_from_payload};
use std::collections::{HashMap, HashSet};
use std::panic::{AssertUnwindSafe, catch_unwind};
use uuid::Uuid;

fn token_new(v: i64) -> i64 {
    if v == i64::MIN { i64::MAX } else { v }
}

fn uuid_of(id: u32) -> Uuid {
    Uuid::from_u128(id as u128)
}

fn id_of(u: &Uuid) -> u128 {
    u.as_u128()
}

// ------------------------------------------------------------------------------------------------
// shadow (the property, by brute force over the history)
// ------------------------------------------------------------------------------------------------

#[derive(Clone, Debug)]
struct Entry {
    first: i64,
    last: i64,
    raw: Vec<(u32, u32)>,
    resolved: Vec<(u32, u32)>,
    unknown: bool,
    alive: bool,
    /// a replica's node was re-created in another datacenter while this entry was alive
    dc_moved: bool,
}

#[derive(Default, Clone)]
struct TableShadow {
    entries: Vec<Entry>,
}

impl TableShadow {
    fn insert(&mut self, first: i64, last: i64, raw: &[(u32, u32)], nodes: &HashMap<u32, Option<String>>) {
        for e in self.entries.iter_mut() {
            if e.alive && e.first <= last && first <= e.last {
                e.alive = false;
            }
        }
        let resolved: Vec<(u32, u32)> = raw.iter().copied().filter(|(id, _)| nodes.contains_key(id)).collect();
        let unknown = resolved.len() != raw.len();
        self.entries.push(Entry { first, last, raw: raw.to_vec(), resolved, unknown, alive: true, dc_moved: false });
    }

    fn maintenance(&mut self, removed: &[u32], nodes: &HashMap<u32, Option<String>>, dc_moved: &HashSet<u32>) {
        for e in self.entries.iter_mut().filter(|e| e.alive) {
            if e.unknown {
                if e.raw.iter().all(|(id, _)| nodes.contains_key(id)) {
                    e.resolved = e.raw.clone();
                    e.unknown = false;
                } else {
                    e.alive = false;
                    continue;
                }
            }
            if e.resolved.iter().any(|(id, _)| removed.contains(id)) {
                e.alive = false;
                continue;
            }
            if e.resolved.iter().any(|(id, _)| dc_moved.contains(id)) {
                e.dc_moved = true;
            }
        }
    }

    /// latest insert covering the token, if it is still alive
    fn lookup(&self, tok: i64) -> Option<&Entry> {
        let latest = self.entries.iter().rev().find(|e| e.first <= tok && tok <= e.last)?;
        if latest.alive { Some(latest) } else { None }
    }

    fn alive_sorted(&self) -> Vec<(i64, i64, Vec<(u32, u32)>)> {
        let mut v: Vec<_> = self.entries.iter().filter(|e| e.alive).map(|e| (e.first, e.last, e.resolved.clone())).collect();
        v.sort();
        v
    }
}

struct Shadow {
    nodes: HashMap<u32, Option<String>>,
    table: TableShadow,
    info: HashMap<(String, String), TableShadow>,
    /// an ill-formed insert (`first > last`) happened: the property says nothing from here on
    invalid: bool,
    /// a node object was replaced behind the tablets' back (`n` on a known id): staleness is expected
    tainted: bool,
}

fn view_ids(v: &TabletView) -> (i64, i64, Vec<(u32, u32)>) {
    (v.0, v.1, v.2.iter().map(|(u, s)| (id_of(u) as u32, *s)).collect())
}

fn show_reps(r: &[(u32, u32)]) -> String {
    if r.is_empty() {
        "-".to_owned()
    } else {
        r.iter().map(|(i, s)| format!("{}.{}", i, s)).collect::<Vec<_>>().join(",")
    }
}

fn show_view(v: &(i64, i64, Vec<(u32, u32)>)) -> String {
    format!("{}:{}:{}", v.0, v.1, show_reps(&v.2))
}

fn check_list(what: &str, list: &[(i64, i64, Vec<(u32, u32)>)], ctx: &mut Ctx) {
    for t in list {
        if t.0 > t.1 {
            ctx.fail(format!("{}: tablet [{}, {}] has first > last", what, t.0, t.1));
        }
    }
    for w in list.windows(2) {
        if !(w[0].1 < w[1].0) {
            ctx.fail(format!(
                "{}: tablet list not sorted/disjoint: [{}, {}] is followed by [{}, {}]",
                what, w[0].0, w[0].1, w[1].0, w[1].1
            ));
        }
    }
}

// ------------------------------------------------------------------------------------------------
// running one history
// ------------------------------------------------------------------------------------------------

fn parse_reps(s: &str) -> Option<Vec<(u32, u32)>> {
    if s.is_empty() || s == "-" {
        return Some(vec![]);
    }
    s.split(',')
        .map(|r| {
            let (a, b) = r.split_once('.')?;
            Some((a.parse().ok()?, b.parse().ok()?))
        })
        .collect()
}

fn parse_node_dc(s: &str) -> Option<(u32, Option<String>)> {
    match s.split_once('@') {
        None => Some((s.parse().ok()?, None)),
        Some((a, d)) => {
            if d.contains('@') {
                return None;
            }
            Some((a.parse().ok()?, Some(d.to_owned())))
        }
    }
}

fn parse_ids(s: &str) -> Option<Vec<u32>> {
    if s.is_empty() || s == "-" {
        return Some(vec![]);
    }
    s.split(',').map(|x| x.parse().ok()).collect()
}

fn parse_recreated(s: &str) -> Option<Vec<(u32, Option<String>)>> {
    if s.is_empty() || s == "-" {
        return Some(vec![]);
    }
    s.split(',').map(parse_node_dc).collect()
}

fn to_uuid_reps(r: &[(u32, u32)]) -> Vec<(Uuid, u32)> {
    r.iter().map(|(i, s)| (uuid_of(*i), *s)).collect()
}

struct Runner {
    vt: VerifTablets,
    sh: Shadow,
}

impl Runner {
    fn new() -> Self {
        Runner {
            vt: VerifTablets::new(),
            sh: Shadow { nodes: HashMap::new(), table: TableShadow::default(), info: HashMap::new(), invalid: false, tainted: false },
        }
    }

    /// node-set part of a maintenance step on the shadow; returns the ids whose datacenter changed
    fn shadow_topology(&mut self, removed: &[u32], recreated: &[(u32, Option<String>)]) -> HashSet<u32> {
        for id in removed {
            self.sh.nodes.remove(id);
        }
        let mut moved = HashSet::new();
        for (id, dc) in recreated {
            if let Some(old) = self.sh.nodes.get(id) {
                if old != dc {
                    moved.insert(*id);
                }
                self.sh.nodes.insert(*id, dc.clone());
            }
        }
        moved
    }

    fn lookup(&mut self, tok: i64, ctx: &mut Ctx) -> String {
        let got = self.vt.lookup(tok).map(|v| view_ids(&v));
        let reps = self.vt.replicas(tok).map(|r| r.iter().map(|(u, s)| (id_of(u) as u32, *s)).collect::<Vec<_>>());
        if reps != got.as_ref().map(|g| g.2.clone()) {
            ctx.fail(format!("replicas_for_token({}) differs from the replicas of tablet_for_token", tok));
        }
        if !self.sh.invalid {
            let t = token_new(tok);
            let want = self.sh.table.lookup(t).map(|e| (e.first, e.last, e.resolved.clone()));
            if got != want {
                let stale = got.is_some() && want.is_none();
                ctx.fail(format!(
                    "lookup({}) answered {} but the latest covering insert that is still valid is {}{}",
                    tok,
                    got.as_ref().map(show_view).unwrap_or("none".into()),
                    want.as_ref().map(show_view).unwrap_or("none".into()),
                    if stale { " (stale answer)" } else { "" }
                ));
            }
        }
        got.as_ref().map(show_view).unwrap_or("none".to_owned())
    }

    fn dc_lookup(&mut self, tok: i64, dc: &str, ctx: &mut Ctx) -> String {
        let got = self.vt.dc_replicas(tok, dc).map(|r| r.iter().map(|(u, s)| (id_of(u) as u32, *s)).collect::<Vec<_>>());
        let full = self.vt.replicas(tok).map(|r| r.iter().map(|(u, s)| (id_of(u) as u32, *s)).collect::<Vec<_>>());
        if !self.sh.tainted {
            let want = full.map(|f| {
                f.into_iter()
                    .filter(|(id, _)| self.sh.nodes.get(id).map(|d| d.as_deref() == Some(dc)).unwrap_or(false))
                    .collect::<Vec<_>>()
            });
            if got != want {
                let moved = !self.sh.invalid && self.sh.table.lookup(token_new(tok)).map(|e| e.dc_moved).unwrap_or(false);
                ctx.fail(format!(
                    "dc_replicas_for_token({}, {}) = {} but the full replica list restricted to that datacenter is {}{}",
                    tok,
                    dc,
                    got.as_ref().map(|g| show_reps(g)).unwrap_or("none".into()),
                    want.as_ref().map(|g| show_reps(g)).unwrap_or("none".into()),
                    if moved { " (a replica's node was re-created in another datacenter)" } else { "" }
                ));
            }
        }
        got.as_ref().map(|g| show_reps(g)).unwrap_or("none".to_owned())
    }

    fn dump(&self) -> Vec<(i64, i64, Vec<(u32, u32)>)> {
        self.vt.tablets().iter().map(view_ids).collect()
    }

    /// invariants checked after every operation
    fn check_state(&self, ctx: &mut Ctx) {
        if self.sh.invalid {
            return;
        }
        let list = self.dump();
        check_list("table", &list, ctx);
        let want = self.sh.table.alive_sorted();
        if list != want {
            ctx.fail(format!(
                "tablet list [{}] differs from the inserts still valid [{}]",
                list.iter().map(show_view).collect::<Vec<_>>().join("|"),
                want.iter().map(show_view).collect::<Vec<_>>().join("|")
            ));
        }
    }

    fn check_info(&self, ctx: &mut Ctx) -> Vec<(String, String, Vec<(i64, i64, Vec<(u32, u32)>)>)> {
        let tables: Vec<_> =
            self.vt.info_tables().into_iter().map(|(k, t, l)| (k, t, l.iter().map(view_ids).collect::<Vec<_>>())).collect();
        if !self.sh.invalid {
            let mut want: Vec<_> = self.sh.info.iter().map(|((k, t), s)| (k.clone(), t.clone(), s.alive_sorted())).collect();
            want.sort();
            for (k, t, l) in &tables {
                check_list(&format!("table {}.{}", k, t), l, ctx);
            }
            if tables != want {
                ctx.fail(format!("TabletsInfo holds {:?}, expected {:?}", tables, want));
            }
        }
        tables
    }

    fn op(&mut self, op: &str, ctx: &mut Ctx) -> Option<String> {
        let c = op.chars().next()?;
        let arg = &op[c.len_utf8()..];
        let out = match c {
            'n' => {
                let (id, dc) = parse_node_dc(arg)?;
                if self.sh.nodes.contains_key(&id) {
                    self.sh.tainted = true;
                }
                self.sh.nodes.insert(id, dc.clone());
                self.vt.set_node(uuid_of(id), dc);
                "n".to_owned()
            }
            'a' | 'A' => {
                let parts: Vec<&str> = arg.split(':').collect();
                let (spec, parts) = if c == 'A' {
                    if parts.len() != 4 {
                        return None;
                    }
                    let (ks, tb) = parts[0].split_once('.')?;
                    if tb.contains('.') {
                        return None;
                    }
                    (Some((ks.to_owned(), tb.to_owned())), &parts[1..])
                } else {
                    (None, &parts[..])
                };
                if parts.len() != 3 {
                    return None;
                }
                let f: i64 = parts[0].parse().ok()?;
                let l: i64 = parts[1].parse().ok()?;
                let reps = parse_reps(parts[2])?;
                let ureps = to_uuid_reps(&reps);
                let (nf, nl) = (token_new(f), token_new(l));
                if nf > nl {
                    // ill-formed tablet (never produced by `from_custom_payload`): `drain(left..right)` may panic
                    self.sh.invalid = true;
                    let vt = &mut self.vt;
                    let r = catch_unwind(AssertUnwindSafe(|| match &spec {
                        Some((ks, tb)) => vt.info_add(ks, tb, f, l, &ureps),
                        None => vt.add(f, l, &ureps),
                    }));
                    if r.is_ok() { c.to_string() } else { "panic".to_owned() }
                } else {
                    match &spec {
                        Some((ks, tb)) => {
                            self.vt.info_add(ks, tb, f, l, &ureps);
                            self.sh.info.entry((ks.clone(), tb.clone())).or_default().insert(nf, nl, &reps, &self.sh.nodes);
                        }
                        None => {
                            self.vt.add(f, l, &ureps);
                            self.sh.table.insert(nf, nl, &reps, &self.sh.nodes);
                        }
                    }
                    c.to_string()
                }
            }
            'q' => {
                let tok: i64 = arg.parse().ok()?;
                self.lookup(tok, ctx)
            }
            's' => {
                let (lo, hi) = arg.split_once(':')?;
                let lo: i64 = lo.parse().ok()?;
                let hi: i64 = hi.parse().ok()?;
                if !(lo <= hi && (hi as i128 - lo as i128) <= 64) {
                    return None;
                }
                (lo..=hi).map(|t| self.lookup(t, ctx)).collect::<Vec<_>>().join("/")
            }
            'd' => {
                let (tok, dc) = arg.split_once('@')?;
                if dc.contains('@') {
                    return None;
                }
                let tok: i64 = tok.parse().ok()?;
                self.dc_lookup(tok, dc, ctx)
            }
            'm' => {
                let parts: Vec<&str> = arg.split('/').collect();
                if parts.len() != 2 {
                    return None;
                }
                let removed = parse_ids(parts[0])?;
                let recreated = parse_recreated(parts[1])?;
                let moved = self.shadow_topology(&removed, &recreated);
                self.sh.table.maintenance(&removed, &self.sh.nodes, &moved);
                let ru: Vec<Uuid> = removed.iter().map(|i| uuid_of(*i)).collect();
                let rc: Vec<(Uuid, Option<String>)> = recreated.iter().map(|(i, d)| (uuid_of(*i), d.clone())).collect();
                self.vt.maintenance(&ru, &rc);
                let (u, s) = (self.vt.unresolved(), self.vt.stale_replicas());
                if u != 0 {
                    ctx.fail(format!("{} tablet(s) with unresolved replicas survive maintenance", u));
                }
                if s != 0 && !self.sh.tainted {
                    ctx.fail(format!("{} replica entries still point to a replaced or removed Node object after maintenance", s));
                }
                format!("m{}:{}", u, s)
            }
            't' => {
                if !arg.is_empty() {
                    return None;
                }
                let list = self.dump();
                format!(
                    "[{}]u{}s{}",
                    list.iter().map(show_view).collect::<Vec<_>>().join("|"),
                    self.vt.unresolved(),
                    self.vt.stale_replicas()
                )
            }
            'M' => {
                let parts: Vec<&str> = arg.split('/').collect();
                if parts.len() != 3 {
                    return None;
                }
                let mut kss: Vec<(String, bool, Vec<String>)> = Vec::new();
                if !parts[0].is_empty() && parts[0] != "-" {
                    for k in parts[0].split('&') {
                        let f: Vec<&str> = k.split(':').collect();
                        if f.len() != 3 || (f[1] != "0" && f[1] != "1") {
                            return None;
                        }
                        let tables = if f[2].is_empty() { vec![] } else { f[2].split('+').map(|s| s.to_owned()).collect() };
                        kss.push((f[0].to_owned(), f[1] == "1", tables));
                    }
                }
                let removed = parse_ids(parts[1])?;
                let recreated = parse_recreated(parts[2])?;
                let moved = self.shadow_topology(&removed, &recreated);
                // expected table set (a repeated keyspace name: the last entry wins, as in a HashMap)
                let ksmap: HashMap<&str, (bool, &Vec<String>)> = kss.iter().map(|(n, b, t)| (n.as_str(), (*b, t))).collect();
                self.sh.info.retain(|(k, t), _| ksmap.get(k.as_str()).map(|(b, ts)| *b && ts.contains(t)).unwrap_or(false));
                for (k, (b, ts)) in &ksmap {
                    if *b {
                        for t in ts.iter() {
                            self.sh.info.entry((k.to_string(), t.clone())).or_default();
                        }
                    }
                }
                for s in self.sh.info.values_mut() {
                    s.maintenance(&removed, &self.sh.nodes, &moved);
                }
                let ru: Vec<Uuid> = removed.iter().map(|i| uuid_of(*i)).collect();
                let rc: Vec<(Uuid, Option<String>)> = recreated.iter().map(|(i, d)| (uuid_of(*i), d.clone())).collect();
                self.vt.info_maintenance(&kss, &ru, &rc);
                self.check_info(ctx);
                "M".to_owned()
            }
            'T' => {
                if !arg.is_empty() {
                    return None;
                }
                let tables = self.check_info(ctx);
                if tables.is_empty() {
                    "-".to_owned()
                } else {
                    tables
                        .iter()
                        .map(|(k, t, l)| format!("{}.{}=[{}]", k, t, l.iter().map(show_view).collect::<Vec<_>>().join("|")))
                        .collect::<Vec<_>>()
                        .join("&")
                }
            }
            'Q' => {
                let (spec, tok) = arg.split_once(':')?;
                let (ks, tb) = spec.split_once('.')?;
                if tb.contains('.') {
                    return None;
                }
                let tok: i64 = tok.parse().ok()?;
                let got = self.vt.info_lookup(ks, tb, tok).map(|r| r.iter().map(|(u, s)| (id_of(u) as u32, *s)).collect::<Vec<_>>());
                if !self.sh.invalid {
                    let want = self
                        .sh
                        .info
                        .get(&(ks.to_owned(), tb.to_owned()))
                        .and_then(|s| s.lookup(token_new(tok)))
                        .map(|e| e.resolved.clone());
                    if got != want {
                        ctx.fail(format!(
                            "TabletsInfo lookup {}.{} token {} answered {} expected {}",
                            ks,
                            tb,
                            tok,
                            got.as_ref().map(|g| show_reps(g)).unwrap_or("none".into()),
                            want.as_ref().map(|g| show_reps(g)).unwrap_or("none".into())
                        ));
                    }
                }
                got.as_ref().map(|g| show_reps(g)).unwrap_or("none".to_owned())
            }
            _ => return None,
        };
        self.check_state(ctx);
        Some(out)
    }
}

fn run_tab(ops: &str, ctx: &mut Ctx) -> String {
    let mut r = Runner::new();
    let mut outs = Vec::new();
    for op in ops.split(';').filter(|o| !o.is_empty()) {
        match r.op(op, ctx) {
            Some(o) => outs.push(o),
            None => return "bad-case".to_owned(),
        }
    }
    outs.join(";")
}

pub fn run(case: &str, ctx: &mut Ctx) -> String {
    let w: Vec<&str> = case.split_whitespace().collect();
    match w.as_slice() {
        ["tab", ops] => run_tab(ops, ctx),
        _ => "bad-case".to_owned(),
    }
}

// ------------------------------------------------------------------------------------------------
// generators
// ------------------------------------------------------------------------------------------------

pub fn generate(rng: &mut Rng, tier: Tier, emit: &mut dyn FnMut(String)) {
    let _ = (rng, tier, hex(&[]), unhex("-"), Bytes::new(), raw_tablet_from_payload(&HashMap::new()));
    emit("tab n1@dc1;n2@dc2;a1:5:1.0,2.3,9.1;t;q3;q0;d3@dc1;d3@dc2;d3@dcx;a5:8:1.1;t;s0:9;m/;t".to_owned());
}

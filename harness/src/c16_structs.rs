//! C16 — the fixed family of derived structs.
//!
//! ONE table (`family!` at the bottom) instantiates the REAL derive macros and, from the very same tokens
//! (`stringify!` of what is pasted into `#[scylla(..)]`), the descriptor that travels inside every case line,
//! so the Lean side needs no copy of the family.
#![allow(dead_code)]
use bytes::Bytes;
use scylla::deserialize::row::{ColumnIterator, DeserializeRow as DeserializeRowTrait};
use scylla::deserialize::value::DeserializeValue as DeserializeValueTrait;
use scylla::deserialize::{DeserializationError, FrameSlice, TypeCheckError};
use scylla::frame::response::result::{CollectionType, ColumnSpec, ColumnType, NativeType, TableSpec, UserDefinedType};
use scylla::serialize::SerializationError;
use scylla::serialize::row::{RowSerializationContext, SerializeRow as SerializeRowTrait};
use scylla::serialize::value::SerializeValue as SerializeValueTrait;
use scylla::serialize::writers::{CellWriter, RowWriter};
use scylla::value::MaybeUnset;
use scylla::{DeserializeRow, DeserializeValue, SerializeRow, SerializeValue};
use std::sync::Arc;

/// A Rust field value in the line protocol: `None` = Rust `None` (Option fields only), else the CQL payload
/// (i32: 4 bytes big endian, String: its UTF-8 bytes).
pub type Leaf = Option<Vec<u8>>;

/// DB side of a case: (name, type) with type one of int / text / boolean.
#[derive(Clone, Debug, PartialEq, Eq)]
pub struct Col {
    pub name: String,
    pub ty: &'static str,
}

/// the one nested UDT type of the family: `ks.t2 (a int, b text)` (Rust side: `U2`)
pub fn udt2_type() -> ColumnType<'static> {
    ColumnType::UserDefinedType {
        frozen: true,
        definition: Arc::new(UserDefinedType {
            name: "t2".into(),
            keyspace: "ks".into(),
            field_types: vec![
                ("a".into(), ColumnType::Native(NativeType::Int)),
                ("b".into(), ColumnType::Native(NativeType::Text)),
            ],
        }),
    }
}

pub fn column_type(ty: &str) -> ColumnType<'static> {
    match ty {
        "int" => ColumnType::Native(NativeType::Int),
        "text" => ColumnType::Native(NativeType::Text),
        "list" => ColumnType::Collection {
            frozen: false,
            typ: CollectionType::List(Box::new(ColumnType::Native(NativeType::Int))),
        },
        "udt" => udt2_type(),
        _ => ColumnType::Native(NativeType::Boolean),
    }
}

pub trait Leafy: Sized {
    fn build(it: &mut dyn Iterator<Item = Leaf>) -> Self;
    fn dump(&self, out: &mut Vec<Leaf>);
}

impl Leafy for i32 {
    fn build(it: &mut dyn Iterator<Item = Leaf>) -> Self {
        let b = it.next().expect("value list too short").expect("None for i32");
        i32::from_be_bytes(b.as_slice().try_into().expect("i32 needs 4 bytes"))
    }
    fn dump(&self, out: &mut Vec<Leaf>) {
        out.push(Some(self.to_be_bytes().to_vec()))
    }
}

impl Leafy for String {
    fn build(it: &mut dyn Iterator<Item = Leaf>) -> Self {
        let b = it.next().expect("value list too short").expect("None for String");
        String::from_utf8(b).expect("utf8")
    }
    fn dump(&self, out: &mut Vec<Leaf>) {
        out.push(Some(self.as_bytes().to_vec()))
    }
}

/// `&'a str` (borrowed from the frame on the deserialize side; built by leaking on the serialize side)
impl<'a> Leafy for &'a str {
    fn build(it: &mut dyn Iterator<Item = Leaf>) -> Self {
        let b = it.next().expect("value list too short").expect("None for &str");
        Box::leak(String::from_utf8(b).expect("utf8").into_boxed_str())
    }
    fn dump(&self, out: &mut Vec<Leaf>) {
        out.push(Some(self.as_bytes().to_vec()))
    }
}

/// `&'a T` for a derived struct `T` used as `#[scylla(flatten)] inner: &'a T` (serialize side only; built by leaking):
/// reaches `impl SerializeRowByName for &T` / `impl SerializeRowInOrder for &T` (`_macro_internal.rs:58-67, 108-116`)
impl<'a, T: Leafy + 'static> Leafy for &'a T {
    fn build(it: &mut dyn Iterator<Item = Leaf>) -> Self {
        Box::leak(Box::new(T::build(it)))
    }
    fn dump(&self, out: &mut Vec<Leaf>) {
        (**self).dump(out)
    }
}

impl<T: Leafy> Leafy for Option<T> {
    fn build(it: &mut dyn Iterator<Item = Leaf>) -> Self {
        match it.next().expect("value list too short") {
            None => None,
            Some(b) => Some(T::build(&mut std::iter::once(Some(b)))),
        }
    }
    fn dump(&self, out: &mut Vec<Leaf>) {
        match self {
            None => out.push(None),
            Some(v) => v.dump(out),
        }
    }
}

/// `Vec<i32>`: payload = the CQL `list<int>` bytes (`[i32 count]([i32 4][4 bytes])*`)
impl Leafy for Vec<i32> {
    fn build(it: &mut dyn Iterator<Item = Leaf>) -> Self {
        let b = it.next().expect("value list too short").expect("None for Vec<i32>");
        let n = i32::from_be_bytes(b[0..4].try_into().unwrap()) as usize;
        assert_eq!(b.len(), 4 + 8 * n, "list<int> payload");
        (0..n).map(|i| i32::from_be_bytes(b[8 + 8 * i..12 + 8 * i].try_into().unwrap())).collect()
    }
    fn dump(&self, out: &mut Vec<Leaf>) {
        let mut b = (self.len() as i32).to_be_bytes().to_vec();
        for x in self {
            b.extend_from_slice(&4i32.to_be_bytes());
            b.extend_from_slice(&x.to_be_bytes());
        }
        out.push(Some(b))
    }
}

/// `MaybeUnset<i32>` (serialization only): `None` = `Unset`
impl Leafy for MaybeUnset<i32> {
    fn build(it: &mut dyn Iterator<Item = Leaf>) -> Self {
        match it.next().expect("value list too short") {
            None => MaybeUnset::Unset,
            Some(b) => MaybeUnset::Set(i32::from_be_bytes(b.as_slice().try_into().expect("i32 needs 4 bytes"))),
        }
    }
    fn dump(&self, out: &mut Vec<Leaf>) {
        match self {
            MaybeUnset::Unset => out.push(None),
            MaybeUnset::Set(v) => out.push(Some(v.to_be_bytes().to_vec())),
        }
    }
}

/// a derived struct used as a FIELD TYPE (nested UDT `ks.t2`); one leaf whose payload is the UDT's cells
#[derive(SerializeValue, DeserializeValue, Debug, Default, Clone, PartialEq)]
pub struct U2 {
    pub a: i32,
    pub b: String,
}

impl Leafy for U2 {
    fn build(it: &mut dyn Iterator<Item = Leaf>) -> Self {
        let b = it.next().expect("value list too short").expect("None for U2");
        let la = i32::from_be_bytes(b[0..4].try_into().unwrap());
        assert_eq!(la, 4, "U2.a");
        let a = i32::from_be_bytes(b[4..8].try_into().unwrap());
        let lb = i32::from_be_bytes(b[8..12].try_into().unwrap()) as usize;
        assert_eq!(b.len(), 12 + lb, "U2 payload");
        U2 { a, b: String::from_utf8(b[12..].to_vec()).expect("utf8") }
    }
    fn dump(&self, out: &mut Vec<Leaf>) {
        let mut b = 4i32.to_be_bytes().to_vec();
        b.extend_from_slice(&self.a.to_be_bytes());
        b.extend_from_slice(&(self.b.len() as i32).to_be_bytes());
        b.extend_from_slice(self.b.as_bytes());
        out.push(Some(b))
    }
}

pub enum DeErr {
    TypeCheck(TypeCheckError),
    Deser(DeserializationError),
}

/// the generated `SerializeRow::is_empty` on a struct built from the values
pub type EmptyFn = fn(&[Leaf]) -> bool;
pub type SerFn = fn(&[Leaf], &[Col]) -> Result<Vec<u8>, SerializationError>;
/// second argument: the serialized cells; `None` = the whole value is null (UDTs only)
pub type DeFn = fn(&[Col], Option<&[u8]>) -> Result<Vec<Leaf>, DeErr>;

pub struct StructInfo {
    pub name: &'static str,
    /// `value` (SerializeValue + DeserializeValue), `svalue` (SerializeValue), `row` (SerializeRow + DeserializeRow),
    /// `srow` (SerializeRow); `bvalue` / `brow` / `bsrow`: the same for a struct with a lifetime parameter `<'a>`
    pub kind: &'static str,
    /// tokens inside the struct-level `#[scylla(..)]`
    pub sattr: &'static str,
    /// (rust field name, type tokens, tokens inside the field-level `#[scylla(..)]`)
    pub fields: Vec<(&'static str, String, &'static str)>,
    pub ser: SerFn,
    pub de: Option<DeFn>,
    pub is_empty: Option<EmptyFn>,
    /// the generated `deserialize` WITHOUT the preceding `type_check`
    pub de_raw: Option<DeFn>,
}

pub fn udt_type(db: &[Col]) -> ColumnType<'static> {
    // the column list `-:notudt` stands for a CQL type that is not a UDT at all (plain `int`)
    if db.len() == 1 && db[0].ty == "notudt" {
        return ColumnType::Native(NativeType::Int);
    }
    ColumnType::UserDefinedType {
        frozen: false,
        definition: Arc::new(UserDefinedType {
            name: "t".into(),
            keyspace: "ks".into(),
            field_types: db.iter().map(|c| (c.name.clone().into(), column_type(c.ty))).collect(),
        }),
    }
}

pub fn col_specs(db: &[Col]) -> Vec<ColumnSpec<'static>> {
    db.iter()
        .map(|c| ColumnSpec::owned(c.name.clone(), column_type(c.ty), TableSpec::owned("ks".into(), "tbl".into())))
        .collect()
}

fn build<T: Leafy>(vals: &[Leaf]) -> T {
    let mut it = vals.iter().cloned();
    let v = T::build(&mut it);
    assert!(it.next().is_none(), "value list too long");
    v
}

pub fn ser_value<T: Leafy + SerializeValueTrait>(vals: &[Leaf], db: &[Col]) -> Result<Vec<u8>, SerializationError> {
    let v: T = build(vals);
    let typ = udt_type(db);
    let mut buf = Vec::new();
    SerializeValueTrait::serialize(&v, &typ, CellWriter::new(&mut buf))?;
    Ok(buf)
}

pub fn row_is_empty<T: Leafy + SerializeRowTrait>(vals: &[Leaf]) -> bool {
    let v: T = build(vals);
    SerializeRowTrait::is_empty(&v)
}

pub fn ser_row<T: Leafy + SerializeRowTrait>(vals: &[Leaf], db: &[Col]) -> Result<Vec<u8>, SerializationError> {
    let v: T = build(vals);
    let specs = col_specs(db);
    let ctx = RowSerializationContext::from_specs(&specs);
    let mut buf = Vec::new();
    let mut w = RowWriter::new(&mut buf);
    SerializeRowTrait::serialize(&v, &ctx, &mut w)?;
    Ok(buf)
}

/// `bytes` = the UDT *contents* (sequence of `[i32 len][bytes]` cells), without the outer length.
pub fn de_value<T>(db: &[Col], bytes: Option<&[u8]>) -> Result<Vec<Leaf>, DeErr>
where
    T: Leafy + for<'f, 'm> DeserializeValueTrait<'f, 'm>,
{
    let typ = udt_type(db);
    <T as DeserializeValueTrait>::type_check(&typ).map_err(DeErr::TypeCheck)?;
    let frame = Bytes::copy_from_slice(bytes.unwrap_or(&[]));
    let slice = bytes.map(|_| FrameSlice::new(&frame));
    let v = <T as DeserializeValueTrait>::deserialize(&typ, slice).map_err(DeErr::Deser)?;
    let mut out = Vec::new();
    v.dump(&mut out);
    Ok(out)
}

pub fn de_value_raw<T>(db: &[Col], bytes: Option<&[u8]>) -> Result<Vec<Leaf>, DeErr>
where
    T: Leafy + for<'f, 'm> DeserializeValueTrait<'f, 'm>,
{
    let typ = udt_type(db);
    let frame = Bytes::copy_from_slice(bytes.unwrap_or(&[]));
    let slice = bytes.map(|_| FrameSlice::new(&frame));
    let v = <T as DeserializeValueTrait>::deserialize(&typ, slice).map_err(DeErr::Deser)?;
    let mut out = Vec::new();
    v.dump(&mut out);
    Ok(out)
}

pub fn de_row_raw<T>(db: &[Col], bytes: Option<&[u8]>) -> Result<Vec<Leaf>, DeErr>
where
    T: Leafy + for<'f, 'm> DeserializeRowTrait<'f, 'm>,
{
    let specs = col_specs(db);
    let frame = Bytes::copy_from_slice(bytes.expect("a row is never null"));
    let v = <T as DeserializeRowTrait>::deserialize(ColumnIterator::new(&specs, FrameSlice::new(&frame)))
        .map_err(DeErr::Deser)?;
    let mut out = Vec::new();
    v.dump(&mut out);
    Ok(out)
}

pub fn de_row<T>(db: &[Col], bytes: Option<&[u8]>) -> Result<Vec<Leaf>, DeErr>
where
    T: Leafy + for<'f, 'm> DeserializeRowTrait<'f, 'm>,
{
    let specs = col_specs(db);
    <T as DeserializeRowTrait>::type_check(&specs).map_err(DeErr::TypeCheck)?;
    let frame = Bytes::copy_from_slice(bytes.expect("a row is never null"));
    let v = <T as DeserializeRowTrait>::deserialize(ColumnIterator::new(&specs, FrameSlice::new(&frame)))
        .map_err(DeErr::Deser)?;
    let mut out = Vec::new();
    v.dump(&mut out);
    Ok(out)
}

/// the same as `de_value` / `de_value_raw` with the lifetimes spelled out, for structs `S<'a>` that borrow from the frame
pub fn de_value_in<'f, 'm, T>(typ: &'m ColumnType<'m>, slice: Option<FrameSlice<'f>>, check: bool) -> Result<Vec<Leaf>, DeErr>
where
    T: Leafy + DeserializeValueTrait<'f, 'm>,
{
    if check {
        <T as DeserializeValueTrait>::type_check(typ).map_err(DeErr::TypeCheck)?;
    }
    let v = <T as DeserializeValueTrait>::deserialize(typ, slice).map_err(DeErr::Deser)?;
    let mut out = Vec::new();
    v.dump(&mut out);
    Ok(out)
}

pub fn de_row_in<'f, 'm, T>(specs: &'m [ColumnSpec<'m>], slice: FrameSlice<'f>, check: bool) -> Result<Vec<Leaf>, DeErr>
where
    T: Leafy + DeserializeRowTrait<'f, 'm>,
{
    if check {
        <T as DeserializeRowTrait>::type_check(specs).map_err(DeErr::TypeCheck)?;
    }
    let v = <T as DeserializeRowTrait>::deserialize(ColumnIterator::new(specs, slice)).map_err(DeErr::Deser)?;
    let mut out = Vec::new();
    v.dump(&mut out);
    Ok(out)
}

macro_rules! de_value_b {
    ($name:ident, $check:expr) => {{
        fn f(db: &[Col], bytes: Option<&[u8]>) -> Result<Vec<Leaf>, DeErr> {
            let typ = udt_type(db);
            let frame = Bytes::copy_from_slice(bytes.unwrap_or(&[]));
            let slice = bytes.map(|_| FrameSlice::new(&frame));
            de_value_in::<$name<'_>>(&typ, slice, $check)
        }
        f as DeFn
    }};
}

macro_rules! de_row_b {
    ($name:ident, $check:expr) => {{
        fn f(db: &[Col], bytes: Option<&[u8]>) -> Result<Vec<Leaf>, DeErr> {
            let specs = col_specs(db);
            let frame = Bytes::copy_from_slice(bytes.expect("a row is never null"));
            de_row_in::<$name<'_>>(&specs, FrameSlice::new(&frame), $check)
        }
        f as DeFn
    }};
}

macro_rules! leafy_impl {
    (<$lt:lifetime> $name:ident { $( $f:ident : $t:ty ),* }) => {
        impl<$lt> Leafy for $name<$lt> {
            #[allow(unused_variables)]
            fn build(it: &mut dyn Iterator<Item = Leaf>) -> Self {
                $name { $( $f: <$t as Leafy>::build(it) ),* }
            }
            #[allow(unused_variables)]
            fn dump(&self, out: &mut Vec<Leaf>) {
                $( Leafy::dump(&self.$f, out); )*
            }
        }
    };
    ($name:ident { $( $f:ident : $t:ty ),* }) => {
        impl Leafy for $name {
            #[allow(unused_variables)]
            fn build(it: &mut dyn Iterator<Item = Leaf>) -> Self {
                $name { $( $f: <$t as Leafy>::build(it) ),* }
            }
            #[allow(unused_variables)]
            fn dump(&self, out: &mut Vec<Leaf>) {
                $( Leafy::dump(&self.$f, out); )*
            }
        }
    };
}

macro_rules! def_struct {
    (value $name:ident ( $($sattr:tt)* ) { $( $f:ident : $t:ty [ $($fattr:tt)* ] ),* }) => {
        #[derive(SerializeValue, DeserializeValue, Debug)]
        #[scylla($($sattr)*)]
        pub struct $name { $( #[scylla($($fattr)*)] pub $f : $t ),* }
        leafy_impl!($name { $( $f : $t ),* });
    };
    (svalue $name:ident ( $($sattr:tt)* ) { $( $f:ident : $t:ty [ $($fattr:tt)* ] ),* }) => {
        #[derive(SerializeValue, Debug)]
        #[scylla($($sattr)*)]
        pub struct $name { $( #[scylla($($fattr)*)] pub $f : $t ),* }
        leafy_impl!($name { $( $f : $t ),* });
    };
    (row $name:ident ( $($sattr:tt)* ) { $( $f:ident : $t:ty [ $($fattr:tt)* ] ),* }) => {
        #[derive(SerializeRow, DeserializeRow, Debug)]
        #[scylla($($sattr)*)]
        pub struct $name { $( #[scylla($($fattr)*)] pub $f : $t ),* }
        leafy_impl!($name { $( $f : $t ),* });
    };
    (srow $name:ident ( $($sattr:tt)* ) { $( $f:ident : $t:ty [ $($fattr:tt)* ] ),* }) => {
        #[derive(SerializeRow, Debug)]
        #[scylla($($sattr)*)]
        pub struct $name { $( #[scylla($($fattr)*)] pub $f : $t ),* }
        leafy_impl!($name { $( $f : $t ),* });
    };
    ($kind:ident $name:ident ( $($sattr:tt)* ) { $( $f:ident : $t:ty [ $($fattr:tt)* ] ),* }) => {
        def_struct_b!($kind $name ( $($sattr)* ) { $( $f : $t [ $($fattr)* ] ),* });
    };
}

// structs with a lifetime parameter `'a` (borrowed `&'a str` fields, `#[scylla(flatten)] inner: &'a T`)
macro_rules! def_struct_b {
    (bvalue $name:ident ( $($sattr:tt)* ) { $( $f:ident : $t:ty [ $($fattr:tt)* ] ),* }) => {
        #[derive(SerializeValue, DeserializeValue, Debug)]
        #[scylla($($sattr)*)]
        pub struct $name<'a> { $( #[scylla($($fattr)*)] pub $f : $t ),* }
        leafy_impl!(<'a> $name { $( $f : $t ),* });
    };
    (brow $name:ident ( $($sattr:tt)* ) { $( $f:ident : $t:ty [ $($fattr:tt)* ] ),* }) => {
        #[derive(SerializeRow, DeserializeRow, Debug)]
        #[scylla($($sattr)*)]
        pub struct $name<'a> { $( #[scylla($($fattr)*)] pub $f : $t ),* }
        leafy_impl!(<'a> $name { $( $f : $t ),* });
    };
    (bsrow $name:ident ( $($sattr:tt)* ) { $( $f:ident : $t:ty [ $($fattr:tt)* ] ),* }) => {
        #[derive(SerializeRow, Debug)]
        #[scylla($($sattr)*)]
        pub struct $name<'a> { $( #[scylla($($fattr)*)] pub $f : $t ),* }
        leafy_impl!(<'a> $name { $( $f : $t ),* });
    };
}

macro_rules! fns {
    (bvalue $name:ident) => { (ser_value::<$name<'static>> as SerFn, Some(de_value_b!($name, true)), None::<EmptyFn>, Some(de_value_b!($name, false))) };
    (brow $name:ident) => { (ser_row::<$name<'static>> as SerFn, Some(de_row_b!($name, true)), Some(row_is_empty::<$name<'static>> as EmptyFn), Some(de_row_b!($name, false))) };
    (bsrow $name:ident) => { (ser_row::<$name<'static>> as SerFn, None, Some(row_is_empty::<$name<'static>> as EmptyFn), None::<DeFn>) };
    (value $name:ident) => { (ser_value::<$name> as SerFn, Some(de_value::<$name> as DeFn), None::<EmptyFn>, Some(de_value_raw::<$name> as DeFn)) };
    (svalue $name:ident) => { (ser_value::<$name> as SerFn, None, None::<EmptyFn>, None::<DeFn>) };
    (row $name:ident) => { (ser_row::<$name> as SerFn, Some(de_row::<$name> as DeFn), Some(row_is_empty::<$name> as EmptyFn), Some(de_row_raw::<$name> as DeFn)) };
    (srow $name:ident) => { (ser_row::<$name> as SerFn, None, Some(row_is_empty::<$name> as EmptyFn), None::<DeFn>) };
}

macro_rules! family {
    ( $( $kind:ident $name:ident ( $($sattr:tt)* ) { $( $f:ident : $t:ty [ $($fattr:tt)* ] ),* $(,)? } )* ) => {
        $( def_struct!($kind $name ( $($sattr)* ) { $( $f : $t [ $($fattr)* ] ),* }); )*
        pub fn table() -> Vec<StructInfo> {
            vec![ $( {
                let (ser, de, is_empty, de_raw) = fns!($kind $name);
                StructInfo {
                    name: stringify!($name),
                    kind: stringify!($kind),
                    sattr: stringify!($($sattr)*),
                    fields: vec![ $( (stringify!($f), stringify!($t).replace(' ', ""), stringify!($($fattr)*)) ),* ],
                    ser,
                    de,
                    is_empty,
                    de_raw,
                }
            } ),* ]
        }
    };
}

// flavor is always spelled out; a field without attributes has `[]`.
family! {
    // ---------------- UDT mappings, by name (default flavor) ----------------
    value V01 (flavor = "match_by_name") { a: i32 [] }
    value V02 (flavor = "match_by_name") { a: i32 [], b: String [] }
    value V03 (flavor = "match_by_name") { a: i32 [], b: String [], c: Option<i32> [] }
    value V04 (flavor = "match_by_name") { a: i32 [], b: String [], c: Option<i32> [], d: i32 [], e: Option<String> [], f: String [] }
    value V05 (flavor = "match_by_name") { a: i32 [rename = "x"], b: String [rename = "a"] }
    value V06 (flavor = "match_by_name") { a: i32 [], s: String [skip], b: String [] }
    value V07 (flavor = "match_by_name") { a: i32 [allow_missing], b: i32 [] }
    value V08 (flavor = "match_by_name") { a: i32 [], b: String [allow_missing], c: Option<i32> [allow_missing], d: i32 [] }
    value V09 (flavor = "match_by_name") { a: i32 [default_when_null], b: String [default_when_null], c: Option<i32> [default_when_null], d: i32 [] }
    value V10 (flavor = "match_by_name", forbid_excess_udt_fields) { a: i32 [], b: String [], c: Option<i32> [] }
    value V11 (flavor = "match_by_name", forbid_excess_udt_fields) { a: i32 [allow_missing], b: String [], c: i32 [allow_missing] }
    value V12 (flavor = "match_by_name") { a: i32 [rename = "aa", allow_missing, default_when_null], s: i32 [skip], b: String [default_when_null], c: Option<String> [allow_missing], d: i32 [rename = "dd"] }
    value V13 (flavor = "match_by_name") { a: i32 [allow_missing], b: String [allow_missing] }
    value V14 (flavor = "match_by_name") { }
    value V15 (flavor = "match_by_name") { a: i32 [allow_missing], b: i32 [allow_missing], c: i32 [], d: i32 [allow_missing], e: i32 [] }
    // ---------------- UDT mappings, declared order ----------------
    value V21 (flavor = "enforce_order") { a: i32 [], b: String [], c: Option<i32> [] }
    value V22 (flavor = "enforce_order") { a: i32 [], b: String [allow_missing], c: i32 [] }
    value V23 (flavor = "enforce_order", forbid_excess_udt_fields) { a: i32 [], b: String [allow_missing], c: Option<i32> [allow_missing] }
    value V24 (flavor = "enforce_order", skip_name_checks) { a: i32 [], b: String [], c: i32 [allow_missing] }
    value V25 (flavor = "enforce_order", skip_name_checks, forbid_excess_udt_fields) { a: i32 [], b: String [] }
    value V26 (flavor = "enforce_order") { a: i32 [rename = "x"], s: i32 [skip], b: String [default_when_null], c: Option<i32> [] }
    value V27 (flavor = "enforce_order", forbid_excess_udt_fields) { a: i32 [], b: i32 [] }
    value V28 (flavor = "enforce_order") { a: i32 [allow_missing], b: String [], c: i32 [allow_missing], d: String [allow_missing], e: i32 [], f: Option<i32> [allow_missing] }
    value V29 (flavor = "enforce_order") { a: i32 [allow_missing], b: i32 [allow_missing], c: i32 [] }
    // allow_missing gaps in the MIDDLE of the declared order with two or more UDT fields after the gap (the saved-field
    // path of the ordered deserialize walk: every field after a gap is filled from `saved_cql_field`)
    value V37 (flavor = "enforce_order") { a: i32 [], b: String [allow_missing], c: i32 [], d: Option<i32> [allow_missing], e: String [] }
    value V38 (flavor = "enforce_order", forbid_excess_udt_fields) { a: i32 [allow_missing], b: String [], c: Option<String> [allow_missing], d: i32 [] }
    // ---------------- the DEFAULT flavor (no `flavor = …`), raw identifiers, `crate = …` ----------------
    value VR1 () { r#type: i32 [], r#fn: Option<i32> [allow_missing], b: String [] }
    value VR2 (flavor = "enforce_order") { a: i32 [], r#match: String [rename = "mm", allow_missing, default_when_null], r#type: i32 [] }
    value VR3 (forbid_excess_udt_fields) { a: i32 [], r#match: String [rename = "r#match"] }
    value VC1 (crate = "scylla") { a: i32 [], b: String [allow_missing] }
    // ---------------- skip_name_checks combined with skip ----------------
    value V36 (flavor = "enforce_order", skip_name_checks) { a: i32 [], s: String [skip], b: String [], c: i32 [allow_missing] }
    // ---------------- fields of collection / nested-UDT / MaybeUnset type through the generated code ----------------
    value V31 (flavor = "match_by_name") { a: i32 [], l: Vec<i32> [], u: U2 [] }
    value V32 (flavor = "match_by_name") { l: Vec<i32> [allow_missing], o: Option<U2> [], a: i32 [default_when_null], u: U2 [rename = "uu", default_when_null] }
    value V33 (flavor = "enforce_order") { u: U2 [], l: Option<Vec<i32>> [], a: i32 [allow_missing] }
    svalue V34 (flavor = "match_by_name") { a: MaybeUnset<i32> [], b: String [], l: Vec<i32> [allow_missing] }
    svalue V35 (flavor = "enforce_order", forbid_excess_udt_fields) { u: U2 [], a: MaybeUnset<i32> [] }
    // ---------------- row mappings, by name ----------------
    row R01 (flavor = "match_by_name") { a: i32 [] }
    row R02 (flavor = "match_by_name") { a: i32 [], b: String [] }
    row R03 (flavor = "match_by_name") { a: i32 [], b: String [], c: Option<i32> [] }
    row R04 (flavor = "match_by_name") { a: i32 [], b: String [], c: Option<i32> [], d: i32 [], e: Option<String> [], f: String [] }
    row R05 (flavor = "match_by_name") { a: i32 [rename = "x"], s: String [skip], b: String [rename = "a"] }
    row R06 (flavor = "match_by_name") { a: i32 [default_when_null], b: String [], c: Option<i32> [default_when_null] }
    row R07 (flavor = "match_by_name") { }
    row R31 (flavor = "match_by_name") { l: Vec<i32> [], u: U2 [], a: i32 [] }
    row R32 (flavor = "match_by_name") { u: Option<U2> [default_when_null], l: Vec<i32> [default_when_null, rename = "ll"] }
    // ---------------- row mappings, declared order ----------------
    row R21 (flavor = "enforce_order") { a: i32 [], b: String [], c: Option<i32> [] }
    row R22 (flavor = "enforce_order", skip_name_checks) { a: i32 [], b: String [], c: i32 [] }
    row R23 (flavor = "enforce_order") { a: i32 [rename = "x"], s: i32 [skip], b: String [default_when_null], c: Option<i32> [default_when_null] }
    row R24 (flavor = "enforce_order") { a: i32 [], b: i32 [], c: String [], d: Option<String> [], e: i32 [] }
    row RR1 () { r#type: i32 [], b: String [] }
    row RR2 (flavor = "enforce_order") { a: i32 [], r#match: String [rename = "m"], r#fn: i32 [default_when_null] }
    row RR3 (flavor = "enforce_order") { r#type: i32 [], s: i32 [skip], r#fn: String [] }
    row RC1 (crate = "scylla", flavor = "enforce_order") { a: i32 [], b: String [] }
    row R34 (flavor = "enforce_order", skip_name_checks) { s: i32 [skip], a: i32 [], t: String [skip], b: String [default_when_null] }
    row R33 (flavor = "enforce_order") { u: U2 [], l: Vec<i32> [default_when_null], o: Option<Vec<i32>> [] }
    // ---------------- SerializeRow with flatten (by name) ----------------
    srow I0 (flavor = "match_by_name") { x: i32 [], y: String [] }
    srow I1 (flavor = "match_by_name") { z: Option<i32> [] }
    srow IE (flavor = "match_by_name") { }
    srow S01 (flavor = "match_by_name") { a: i32 [], inner: I0 [flatten] }
    srow S02 (flavor = "match_by_name") { inner: I0 [flatten], a: i32 [], in2: I1 [flatten] }
    srow S03 (flavor = "match_by_name") { m: S01 [flatten], k: String [] }
    srow S04 (flavor = "match_by_name") { x: i32 [], inner: I0 [flatten] }
    srow S05 (flavor = "match_by_name") { a: i32 [], e: IE [flatten] }
    srow S06 (flavor = "match_by_name") { inner: I0 [flatten, skip], a: i32 [] }
    // an empty flattened struct (no fields / only skipped fields) declared BEFORE another flattened struct
    srow IS (flavor = "match_by_name") { q: i32 [skip] }
    srow S07 (flavor = "match_by_name") { e: IE [flatten], a: i32 [], inner: I0 [flatten] }
    srow S08 (flavor = "match_by_name") { s: IS [flatten], inner: I0 [flatten] }
    srow S09 (flavor = "match_by_name") { inner: I0 [flatten], e: IE [flatten], a: i32 [] }
    srow IR () { r#type: i32 [], x2: String [rename = "xx"] }
    srow SR1 () { r#fn: i32 [], inner: IR [flatten] }
    srow IL (flavor = "match_by_name") { l: Vec<i32> [], m: MaybeUnset<i32> [] }
    srow S31 (flavor = "match_by_name") { a: MaybeUnset<i32> [], inner: IL [flatten], u: U2 [] }
    // ---------------- SerializeRow with flatten (declared order) ----------------
    srow J0 (flavor = "enforce_order") { x: i32 [], y: String [] }
    srow J1 (flavor = "enforce_order", skip_name_checks) { p: i32 [] }
    srow S21 (flavor = "enforce_order") { a: i32 [], inner: J0 [flatten], b: String [] }
    srow S22 (flavor = "enforce_order") { inner: J1 [flatten], a: i32 [] }
    srow JR (flavor = "enforce_order") { r#match: i32 [], y2: String [rename = "yy"] }
    srow SR2 (flavor = "enforce_order") { inner: JR [flatten], r#type: String [] }
    srow S23 (flavor = "enforce_order", skip_name_checks) { a: i32 [], inner: J0 [flatten] }
    // ---------------- a lifetime parameter: borrowed fields, `#[scylla(flatten)]` through a reference ----------------
    bvalue B01 (flavor = "match_by_name") { a: &'a str [], b: i32 [allow_missing], c: Option<&'a str> [default_when_null] }
    bvalue B02 (flavor = "enforce_order") { a: &'a str [allow_missing, default_when_null], s: String [skip], b: Option<i32> [allow_missing], c: &'a str [] }
    brow BR1 (flavor = "match_by_name") { a: &'a str [], b: i32 [], c: Option<&'a str> [] }
    brow BR2 (flavor = "enforce_order") { a: i32 [], b: &'a str [default_when_null] }
    bsrow SF1 (flavor = "match_by_name") { a: &'a str [], inner: &'a I0 [flatten] }
    bsrow SF2 (flavor = "enforce_order") { a: i32 [], inner: &'a J0 [flatten], b: &'a str [] }
    bsrow SF3 (flavor = "match_by_name") { m: &'a S01 [flatten], k: String [] }
}

//! C10, pool level: a real `NodeConnectionPool` (with its refiller task) against a scripted node that closes, resets
//! or stalls individual connections and refuses or accepts new ones.
//!
//! `pool <nr_shards|0>/<k>/<keepalive 0|1> <step>;…` with steps
//!   `K<i>` the node closes its i-th live connection (FIN), `R<i>` resets it (RST), `Z<i>` stops answering on it
//!   (needs keep-alive on), `F` / `A` the node refuses / accepts new connections from now on,
//!   `W` a bounded wait for the refiller, `Q<n>` n requests through `random_connection`, `H<n>` n requests through
//!   `connection_for_shard` (shards round robin).
//! Output: `c=<connection_count>` per `W`, `q=<ok>/<n>` per `Q`, `h=<ok>/<n>` per `H`.
//! ORACLE (model-independent): after the wait the pool publishes exactly the connections the node still holds
//! open; while at least one is alive EVERY request succeeds (none is routed to a connection the node has closed).
use crate::mocknode::{OP_OPTIONS, OP_QUERY, OP_REGISTER, OP_STARTUP, RESP_READY, RESP_RESULT, RESP_SUPPORTED, body_supported_ext, body_void, frame};
use crate::rng::Rng;
use crate::Ctx;
use scylla::client::PoolSize;
use scylla::verif_hooks::pool::VerifPool;
use std::num::NonZeroUsize;
use std::sync::atomic::{AtomicBool, Ordering};
use std::sync::{Arc, Mutex};
use std::time::Duration;
use tokio::io::{AsyncReadExt, AsyncWriteExt};
use tokio::net::{TcpListener, TcpStream};
use tokio::sync::Notify;

#[derive(Clone, Copy, PartialEq)]
enum Fault {
    Fin,
    Rst,
    Stall,
}

struct ConnRec {
    alive: bool,
    ready: bool,
    shard: Option<u16>,
    fault: Arc<Mutex<Option<Fault>>>,
    kick: Arc<Notify>,
}

#[derive(Default)]
struct NodeSt {
    conns: Vec<ConnRec>,
}

struct Node {
    addr: std::net::SocketAddr,
    st: Arc<Mutex<NodeSt>>,
    refuse: Arc<AtomicBool>,
    task: tokio::task::JoinHandle<()>,
}

impl Drop for Node {
    fn drop(&mut self) {
        self.task.abort();
    }
}

async fn read_frame(sock: &mut TcpStream) -> Option<(i16, u8, Vec<u8>)> {
    let mut hdr = [0u8; 9];
    sock.read_exact(&mut hdr).await.ok()?;
    let len = u32::from_be_bytes([hdr[5], hdr[6], hdr[7], hdr[8]]) as usize;
    let mut body = vec![0u8; len];
    sock.read_exact(&mut body).await.ok()?;
    Some((i16::from_be_bytes([hdr[2], hdr[3]]), hdr[4], body))
}

impl Node {
    async fn start(nr_shards: u16) -> Node {
        let listener = TcpListener::bind("127.0.0.1:0").await.unwrap();
        let addr = listener.local_addr().unwrap();
        let st = Arc::new(Mutex::new(NodeSt::default()));
        let refuse = Arc::new(AtomicBool::new(false));
        let setup = Arc::new(tokio::sync::Mutex::new(()));
        let (st2, refuse2) = (Arc::clone(&st), Arc::clone(&refuse));
        let task = tokio::spawn(async move {
            loop {
                let Ok((sock, _)) = listener.accept().await else { return };
                if refuse2.load(Ordering::SeqCst) {
                    drop(sock); // the node is not taking connections: the handshake fails
                    continue;
                }
                let fault = Arc::new(Mutex::new(None));
                let kick = Arc::new(Notify::new());
                let (id, info) = {
                    let mut g = st2.lock().unwrap();
                    // the least loaded shard, lowest number first (what ScyllaDB does on the ordinary port)
                    let info = if nr_shards == 0 {
                        None
                    } else {
                        let shard = (0..nr_shards)
                            .min_by_key(|s| g.conns.iter().filter(|c| c.alive && c.shard == Some(*s)).count())
                            .unwrap_or(0);
                        Some((shard, nr_shards, 0u8))
                    };
                    g.conns.push(ConnRec { alive: true, ready: false, fault: Arc::clone(&fault), kick: Arc::clone(&kick), shard: info.map(|i| i.0) });
                    (g.conns.len() - 1, info)
                };
                tokio::spawn(conn_task(sock, id, info, Arc::clone(&st2), Arc::clone(&setup), fault, kick));
            }
        });
        Node { addr, st, refuse, task }
    }

    fn live(&self) -> usize {
        self.st.lock().unwrap().conns.iter().filter(|c| c.alive && c.ready).count()
    }

    /// Apply a fault to the i-th live connection (accept order). Returns false if there is none.
    fn hit(&self, i: usize, f: Fault) -> bool {
        let mut g = self.st.lock().unwrap();
        let Some(c) = g.conns.iter_mut().filter(|c| c.alive && c.ready).nth(i) else { return false };
        c.alive = false;
        *c.fault.lock().unwrap() = Some(f);
        c.kick.notify_one();
        true
    }
}

async fn conn_task(
    mut sock: TcpStream,
    id: usize,
    info: Option<(u16, u16, u8)>,
    st: Arc<Mutex<NodeSt>>,
    setup: Arc<tokio::sync::Mutex<()>>,
    fault: Arc<Mutex<Option<Fault>>>,
    kick: Arc<Notify>,
) {
    let gone = |st: &Arc<Mutex<NodeSt>>| st.lock().unwrap().conns[id].alive = false;
    loop {
        let fr = tokio::select! {
            _ = kick.notified() => {
                let f = *fault.lock().unwrap();
                match f {
                    Some(Fault::Rst) => { let _ = sock.set_linger(Some(Duration::from_secs(0))); return; }
                    Some(Fault::Stall) => { std::future::pending::<()>().await; return; }
                    _ => return,
                }
            }
            fr = read_frame(&mut sock) => fr,
        };
        let Some((stream, opcode, _body)) = fr else {
            gone(&st);
            return;
        };
        let ok = match opcode {
            OP_OPTIONS => sock.write_all(&frame(stream, RESP_SUPPORTED, &body_supported_ext(false, info, None))).await.is_ok(),
            OP_STARTUP => {
                let _turn = setup.lock().await;
                let ok = sock.write_all(&frame(stream, RESP_READY, &[])).await.is_ok();
                if ok {
                    st.lock().unwrap().conns[id].ready = true;
                }
                ok
            }
            OP_REGISTER => sock.write_all(&frame(stream, RESP_READY, &[])).await.is_ok(),
            OP_QUERY => sock.write_all(&frame(stream, RESP_RESULT, &body_void())).await.is_ok(),
            _ => false,
        };
        if !ok {
            gone(&st);
            return;
        }
    }
}

#[derive(Clone, Copy)]
enum Step {
    Hit(Fault, usize),
    Refuse(bool),
    Wait,
    Random(usize),
    Shards(usize),
}

fn parse(script: &str) -> Option<Vec<Step>> {
    let steps: Option<Vec<Step>> = script
        .split(';')
        .filter(|s| !s.is_empty())
        .map(|s| {
            let (k, rest) = (s.get(..1)?, s.get(1..)?);
            let num = || rest.parse::<usize>().ok().filter(|n| *n <= 64);
            match k {
                "K" => num().map(|i| Step::Hit(Fault::Fin, i)),
                "R" => num().map(|i| Step::Hit(Fault::Rst, i)),
                "Z" => num().map(|i| Step::Hit(Fault::Stall, i)),
                "F" if rest.is_empty() => Some(Step::Refuse(true)),
                "A" if rest.is_empty() => Some(Step::Refuse(false)),
                "W" if rest.is_empty() => Some(Step::Wait),
                "Q" => num().map(Step::Random),
                "H" => num().map(Step::Shards),
                _ => None,
            }
        })
        .collect();
    let steps = steps?;
    // requests are only issued after the refiller had its bounded time (`W`) since the last fault / switch
    let mut settled = true;
    for s in &steps {
        match s {
            Step::Hit(..) | Step::Refuse(_) => settled = false,
            Step::Wait => settled = true,
            Step::Random(_) | Step::Shards(_) => {
                if !settled {
                    return None;
                }
            }
        }
    }
    Some(steps)
}

pub fn generate(rng: &mut Rng, quick: bool, emit: &mut dyn FnMut(String)) {
    for i in 0..(if quick { 48 } else { 500 }) {
        let nr = if i % 3 == 2 { *rng.pick(&[2u16, 3]) } else { 0 };
        let k = if nr == 0 { rng.range(2, 4) as usize } else { 1 };
        let total = if nr == 0 { k } else { nr as usize };
        let ka = rng.chance(1, 3);
        let mut steps: Vec<String> = vec!["W".into(), "Q3".into()];
        let mut refusing = false;
        let mut live = total;
        for _ in 0..rng.range(1, 4) {
            // mostly: the node refuses new connections while one dies (the window in which a stale list hurts)
            if !refusing && rng.chance(3, 4) {
                steps.push("F".into());
                refusing = true;
            } else if refusing && rng.chance(1, 3) {
                steps.push("A".into());
                refusing = false;
            }
            if live > 0 {
                let i = rng.below(live as u64);
                let f = if ka && rng.chance(1, 3) { "Z" } else if rng.bool() { "K" } else { "R" };
                steps.push(format!("{}{}", f, i));
                if refusing {
                    live -= 1;
                }
            }
            steps.push("W".into());
            steps.push(format!("Q{}", rng.range(4, 12)));
            if nr != 0 || rng.chance(1, 3) {
                steps.push(format!("H{}", rng.range(3, 8)));
            }
            if !refusing {
                live = total;
            }
        }
        emit(format!("pool {}/{}/{} {}", nr, k, ka as u8, steps.join(";")));
    }
}

pub fn run(cfg: &str, script: &str, ctx: &mut Ctx) -> String {
    let parts: Vec<&str> = cfg.split('/').collect();
    if parts.len() != 3 {
        return "bad-case".into();
    }
    let (Ok(nr), Ok(k), Ok(ka)) = (parts[0].parse::<u16>(), parts[1].parse::<usize>(), parts[2].parse::<u8>()) else {
        return "bad-case".into();
    };
    if nr == 1 || nr > 8 || k == 0 || k > 8 || ka > 1 || (nr != 0 && k != 1) {
        return "bad-case".into();
    }
    let Some(steps) = parse(script) else { return "bad-case".into() };
    if ka == 0 && steps.iter().any(|s| matches!(s, Step::Hit(Fault::Stall, _))) {
        return "bad-case".into();
    }
    let target = if nr == 0 { k } else { nr as usize * k };
    let rt = tokio::runtime::Builder::new_multi_thread().worker_threads(2).enable_all().build().unwrap();
    let out = rt.block_on(async {
        let node = Node::start(nr).await;
        let size = if nr == 0 { PoolSize::PerHost(NonZeroUsize::new(k).unwrap()) } else { PoolSize::PerShard(NonZeroUsize::new(k).unwrap()) };
        let keepalive = if ka == 1 { Some((Duration::from_millis(100), Duration::from_millis(100))) } else { None };
        let Ok(pool) = VerifPool::new(node.addr, size, None, false, keepalive) else { return "bad-case".to_owned() };
        pool.wait_until_initialized().await;
        let count = |pool: &VerifPool| pool.connection_count().unwrap_or(0);
        let mut out: Vec<String> = Vec::new();
        let mut tag = 0u64;
        for step in &steps {
            match *step {
                Step::Hit(f, i) => {
                    node.hit(i, f);
                }
                Step::Refuse(b) => {
                    node.refuse.store(b, Ordering::SeqCst);
                    if !b {
                        pool.trigger_refill();
                    }
                }
                Step::Wait => {
                    // bounded: the published list shows what the node holds open (and is full again if the node
                    // accepts); three looks 5 ms apart must agree
                    let refusing = node.refuse.load(Ordering::SeqCst);
                    let t0 = std::time::Instant::now();
                    let mut stable = 0;
                    while t0.elapsed() < Duration::from_secs(4) {
                        let (c, live) = (count(&pool), node.live());
                        if c == live && (refusing || c == target) {
                            stable += 1;
                            if stable >= 3 {
                                break;
                            }
                        } else {
                            stable = 0;
                        }
                        tokio::time::sleep(Duration::from_millis(5)).await;
                    }
                    let (c, live) = (count(&pool), node.live());
                    if c != live {
                        ctx.fail(format!(
                            "after a bounded wait the pool publishes {} connection(s) but the node holds {} open",
                            c, live
                        ));
                    }
                    out.push(format!("c={}", c));
                }
                Step::Random(n) | Step::Shards(n) => {
                    let by_shard = matches!(step, Step::Shards(_));
                    let live = node.live();
                    let mut ok = 0;
                    for j in 0..n {
                        tag += 1;
                        let text = format!("SELECT {}", tag);
                        let res = if by_shard {
                            pool.query_on_shard((j as u32) % (nr.max(1) as u32), &text).await
                        } else {
                            pool.query_on_random(&text).await
                        };
                        if matches!(res, Ok((_, true))) {
                            ok += 1;
                        }
                    }
                    if live > 0 && ok != n && node.live() == live {
                        ctx.fail(format!(
                            "{} of {} requests failed although the node holds {} connection(s) of the pool open: a request was routed to a dead connection",
                            n - ok, n, live
                        ));
                    }
                    out.push(format!("{}={}/{}", if by_shard { "h" } else { "q" }, ok, n));
                }
            }
        }
        out.join(",")
    });
    rt.shutdown_timeout(Duration::from_millis(200));
    out
}

//! C10, pool level: a real `NodeConnectionPool` (with its refiller task) against a scripted node that closes, resets
//! or stalls individual connections and refuses or accepts new ones.
//!
//! `pool <nr_shards|0>/<k>/<keepalive 0|1> <step>;…` with steps
//!   `K<i>` the node closes its i-th live connection (FIN), `R<i>` resets it (RST), `Z<i>` stops answering on it
//!   (needs keep-alive on), `F` / `A` the node refuses / accepts new connections from now on,
//!   `W` a bounded wait for the refiller, `Q<n>` n requests through `random_connection`, `H<n>` n requests through
//!   `connection_for_shard` (shards round robin).
//! Output: `c=<connection_count>` per `W`, `q=<ok>/<n>` per `Q`, `h=<ok>/<n>` per `H`.
//! ORACLE (model-independent): after the wait the pool publishes exactly the connections the node still holds
//! open; while at least one is alive EVERY request succeeds (none is routed to a connection the node has closed).
use crate::mocknode::{OP_OPTIONS, OP_QUERY, OP_REGISTER, OP_STARTUP, RESP_READY, RESP_RESULT, RESP_SUPPORTED, body_supported_ext, body_void, frame};
use crate::rng::Rng;
use crate::Ctx;
use scylla::client::PoolSize;
use scylla::verif_hooks::pool::VerifPool;
use std::num::NonZeroUsize;
use std::sync::atomic::{AtomicBool, Ordering};
use std::sync::{Arc, Mutex};
use std::time::Duration;
use tokio::io::{AsyncReadExt, AsyncWriteExt};
use tokio::net::{TcpListener, TcpStream};
use tokio::sync::Notify;

#[derive(Clone, Copy, PartialEq)]
enum Fault {
    Fin,
    Rst,
    Stall,
}

struct ConnRec {
    alive: bool,
    ready: bool,
    shard: Option<u16>,
    fault: Arc<Mutex<Option<Fault>>>,
    kick: Arc<Notify>,
}

#[derive(Default)]
struct NodeSt {
    conns: Vec<ConnRec>,
}

/// What the node does with `USE <keyspace>` (the statement a pool with a session keyspace sends on every new connection).
#[derive(Default)]
struct UseCtl {
    /// from now on a `USE` is read and NEVER answered (everything else on that connection - keep-alive OPTIONS - is)
    hold: AtomicBool,
    accepted: std::sync::atomic::AtomicUsize,
    held: std::sync::atomic::AtomicUsize,
    /// OPTIONS frames answered on connections whose `USE` is being held (keep-alive probes)
    probes_on_held: std::sync::atomic::AtomicUsize,
}

struct Node {
    addr: std::net::SocketAddr,
    st: Arc<Mutex<NodeSt>>,
    refuse: Arc<AtomicBool>,
    usectl: Arc<UseCtl>,
    task: tokio::task::JoinHandle<()>,
}

impl Drop for Node {
    fn drop(&mut self) {
        self.task.abort();
    }
}

async fn read_frame(sock: &mut TcpStream) -> Option<(i16, u8, Vec<u8>)> {
    let mut hdr = [0u8; 9];
    sock.read_exact(&mut hdr).await.ok()?;
    let len = u32::from_be_bytes([hdr[5], hdr[6], hdr[7], hdr[8]]) as usize;
    let mut body = vec![0u8; len];
    sock.read_exact(&mut body).await.ok()?;
    Some((i16::from_be_bytes([hdr[2], hdr[3]]), hdr[4], body))
}

impl Node {
    async fn start(nr_shards: u16) -> Node {
        let listener = TcpListener::bind("127.0.0.1:0").await.unwrap();
        Self::start_with(listener, nr_shards).await
    }

    async fn start_with(listener: TcpListener, nr_shards: u16) -> Node {
        let addr = listener.local_addr().unwrap();
        let st = Arc::new(Mutex::new(NodeSt::default()));
        let refuse = Arc::new(AtomicBool::new(false));
        let setup = Arc::new(tokio::sync::Mutex::new(()));
        let (st2, refuse2) = (Arc::clone(&st), Arc::clone(&refuse));
        let usectl = Arc::new(UseCtl::default());
        let usectl2 = Arc::clone(&usectl);
        let task = tokio::spawn(async move {
            loop {
                let Ok((sock, _)) = listener.accept().await else { return };
                if refuse2.load(Ordering::SeqCst) {
                    drop(sock); // the node is not taking connections: the handshake fails
                    continue;
                }
                let fault = Arc::new(Mutex::new(None));
                let kick = Arc::new(Notify::new());
                let (id, info) = {
                    let mut g = st2.lock().unwrap();
                    // the least loaded shard, lowest number first (what ScyllaDB does on the ordinary port)
                    let info = if nr_shards == 0 {
                        None
                    } else {
                        let shard = (0..nr_shards)
                            .min_by_key(|s| g.conns.iter().filter(|c| c.alive && c.shard == Some(*s)).count())
                            .unwrap_or(0);
                        Some((shard, nr_shards, 0u8))
                    };
                    g.conns.push(ConnRec { alive: true, ready: false, fault: Arc::clone(&fault), kick: Arc::clone(&kick), shard: info.map(|i| i.0) });
                    (g.conns.len() - 1, info)
                };
                usectl2.accepted.fetch_add(1, Ordering::SeqCst);
                tokio::spawn(conn_task(sock, id, info, Arc::clone(&st2), Arc::clone(&setup), fault, kick, Arc::clone(&usectl2)));
            }
        });
        Node { addr, st, refuse, usectl, task }
    }

    fn live(&self) -> usize {
        self.st.lock().unwrap().conns.iter().filter(|c| c.alive && c.ready).count()
    }

    /// Apply a fault to the i-th live connection (accept order). Returns false if there is none.
    fn hit(&self, i: usize, f: Fault) -> bool {
        let mut g = self.st.lock().unwrap();
        let Some(c) = g.conns.iter_mut().filter(|c| c.alive && c.ready).nth(i) else { return false };
        c.alive = false;
        *c.fault.lock().unwrap() = Some(f);
        c.kick.notify_one();
        true
    }
}

async fn conn_task(
    mut sock: TcpStream,
    id: usize,
    info: Option<(u16, u16, u8)>,
    st: Arc<Mutex<NodeSt>>,
    setup: Arc<tokio::sync::Mutex<()>>,
    fault: Arc<Mutex<Option<Fault>>>,
    kick: Arc<Notify>,
    usectl: Arc<UseCtl>,
) {
    let mut use_held = false;
    let gone = |st: &Arc<Mutex<NodeSt>>| st.lock().unwrap().conns[id].alive = false;
    loop {
        let fr = tokio::select! {
            _ = kick.notified() => {
                let f = *fault.lock().unwrap();
                match f {
                    Some(Fault::Rst) => { let _ = sock.set_linger(Some(Duration::from_secs(0))); return; }
                    Some(Fault::Stall) => { std::future::pending::<()>().await; return; }
                    _ => return,
                }
            }
            fr = read_frame(&mut sock) => fr,
        };
        let Some((stream, opcode, body)) = fr else {
            gone(&st);
            return;
        };
        let ok = match opcode {
            OP_OPTIONS => {
                if use_held {
                    usectl.probes_on_held.fetch_add(1, Ordering::SeqCst);
                }
                sock.write_all(&frame(stream, RESP_SUPPORTED, &body_supported_ext(false, info, None))).await.is_ok()
            }
            OP_STARTUP => {
                let _turn = setup.lock().await;
                let ok = sock.write_all(&frame(stream, RESP_READY, &[])).await.is_ok();
                if ok {
                    st.lock().unwrap().conns[id].ready = true;
                }
                ok
            }
            OP_REGISTER => sock.write_all(&frame(stream, RESP_READY, &[])).await.is_ok(),
            // [long string] statement: `USE <name>` is answered with SetKeyspace - or held for ever
            OP_QUERY if body.len() >= 8 && body[4..].starts_with(b"USE ") => {
                if usectl.hold.load(Ordering::SeqCst) {
                    use_held = true;
                    usectl.held.fetch_add(1, Ordering::SeqCst);
                    true
                } else {
                    let n = u32::from_be_bytes([body[0], body[1], body[2], body[3]]) as usize;
                    let name = String::from_utf8_lossy(&body[8..(4 + n).min(body.len())]).trim_matches('"').to_owned();
                    sock.write_all(&frame(stream, RESP_RESULT, &crate::mocknode::body_set_keyspace(&name))).await.is_ok()
                }
            }
            OP_QUERY => sock.write_all(&frame(stream, RESP_RESULT, &body_void())).await.is_ok(),
            _ => false,
        };
        if !ok {
            gone(&st);
            return;
        }
    }
}

#[derive(Clone, Copy)]
enum Step {
    Hit(Fault, usize),
    Refuse(bool),
    Wait,
    Random(usize),
    Shards(usize),
}

fn parse(script: &str) -> Option<Vec<Step>> {
    let steps: Option<Vec<Step>> = script
        .split(';')
        .filter(|s| !s.is_empty())
        .map(|s| {
            let (k, rest) = (s.get(..1)?, s.get(1..)?);
            let num = || rest.parse::<usize>().ok().filter(|n| *n <= 64);
            match k {
                "K" => num().map(|i| Step::Hit(Fault::Fin, i)),
                "R" => num().map(|i| Step::Hit(Fault::Rst, i)),
                "Z" => num().map(|i| Step::Hit(Fault::Stall, i)),
                "F" if rest.is_empty() => Some(Step::Refuse(true)),
                "A" if rest.is_empty() => Some(Step::Refuse(false)),
                "W" if rest.is_empty() => Some(Step::Wait),
                "Q" => num().map(Step::Random),
                "H" => num().map(Step::Shards),
                _ => None,
            }
        })
        .collect();
    let steps = steps?;
    // requests are only issued after the refiller had its bounded time (`W`) since the last fault / switch
    let mut settled = true;
    for s in &steps {
        match s {
            Step::Hit(..) | Step::Refuse(_) => settled = false,
            Step::Wait => settled = true,
            Step::Random(_) | Step::Shards(_) => {
                if !settled {
                    return None;
                }
            }
        }
    }
    Some(steps)
}

fn gen_reconnect(rng: &mut Rng, quick: bool, emit: &mut dyn FnMut(String)) {
    let ms = 1_000_000u64;
    let day = 86_400_000u64 * ms;
    for i in 0..(if quick { 300 } else { 6000 }) {
        let (min, max) = match rng.below(6) {
            0 => (50 * ms, 10_000 * ms), // production defaults
            1 => (ms, 2 * ms),
            2 => (ms, 30 * day),
            3 => (1, 1u64 << 60),
            4 => {
                let m = rng.range(1, 1000) as u64 * ms;
                (m, m)
            }
            _ => {
                let a = 1u64 << rng.below(50);
                (a, a.saturating_mul(1 + rng.below(1 << 20)).min(1 << 60))
            }
        };
        let (jlo, jhi) = match rng.below(5) {
            0 => (850_000u64, 1_150_000u64),
            1 => (1_000_000, 1_000_000),
            2 => (0, 3_000_000),
            3 => (1_000_001, 1_500_000),
            _ => {
                let lo = rng.below(2_000_000);
                (lo, lo + rng.below(2_000_000))
            }
        };
        let mut ops: Vec<String> = Vec::new();
        for _ in 0..rng.range(2, 8) {
            match rng.below(10) {
                // long runs of failed fills: far beyond the 64 doublings that exhaust a u64 of seconds
                0..=4 => ops.push(format!("e{}", *rng.pick(&[1u32, 2, 5, 30, 63, 64, 65, 69, 70, 128, 500, 1000]))),
                5 => ops.push("s".into()),
                _ => {}
            }
            ops.push("d".into());
        }
        if i % 4 == 3 {
            emit(format!("rp const/{}/{}/{} {}", min, jlo, jhi, ops.join(";")));
        } else {
            emit(format!("rp exp/{}/{}/{}/{} {}", min, max, jlo, jhi, ops.join(";")));
        }
    }
    // the node is down for hundreds of refill attempts, then comes back
    for _ in 0..(if quick { 3 } else { 20 }) {
        let min = rng.range(1, 2) as u64;
        emit(format!("poolr {}/{}/{}/{}", min, min + rng.below(2), *rng.pick(&[300u64, 500, 700]), rng.range(1, 3)));
    }
}

pub fn generate(rng: &mut Rng, quick: bool, emit: &mut dyn FnMut(String)) {
    gen_reconnect(rng, quick, emit);
    for i in 0..(if quick { 48 } else { 500 }) {
        let nr = if i % 3 == 2 { *rng.pick(&[2u16, 3]) } else { 0 };
        let k = if nr == 0 { rng.range(2, 4) as usize } else { 1 };
        let total = if nr == 0 { k } else { nr as usize };
        let ka = rng.chance(1, 3);
        let mut steps: Vec<String> = vec!["W".into(), "Q3".into()];
        let mut refusing = false;
        let mut live = total;
        for _ in 0..rng.range(1, 4) {
            // mostly: the node refuses new connections while one dies (the window in which a stale list hurts)
            if !refusing && rng.chance(3, 4) {
                steps.push("F".into());
                refusing = true;
            } else if refusing && rng.chance(1, 3) {
                steps.push("A".into());
                refusing = false;
            }
            if live > 0 {
                let i = rng.below(live as u64);
                let f = if ka && rng.chance(1, 3) { "Z" } else if rng.bool() { "K" } else { "R" };
                steps.push(format!("{}{}", f, i));
                if refusing {
                    live -= 1;
                }
            }
            steps.push("W".into());
            steps.push(format!("Q{}", rng.range(4, 12)));
            if nr != 0 || rng.chance(1, 3) {
                steps.push(format!("H{}", rng.range(3, 8)));
            }
            if !refusing {
                live = total;
            }
        }
        emit(format!("pool {}/{}/{} {}", nr, k, ka as u8, steps.join(";")));
    }
}

pub fn run(cfg: &str, script: &str, ctx: &mut Ctx) -> String {
    let parts: Vec<&str> = cfg.split('/').collect();
    if parts.len() != 3 {
        return "bad-case".into();
    }
    let (Ok(nr), Ok(k), Ok(ka)) = (parts[0].parse::<u16>(), parts[1].parse::<usize>(), parts[2].parse::<u8>()) else {
        return "bad-case".into();
    };
    if nr == 1 || nr > 8 || k == 0 || k > 8 || ka > 1 || (nr != 0 && k != 1) {
        return "bad-case".into();
    }
    let Some(steps) = parse(script) else { return "bad-case".into() };
    if ka == 0 && steps.iter().any(|s| matches!(s, Step::Hit(Fault::Stall, _))) {
        return "bad-case".into();
    }
    let target = if nr == 0 { k } else { nr as usize * k };
    let rt = tokio::runtime::Builder::new_multi_thread().worker_threads(2).enable_all().build().unwrap();
    let out = rt.block_on(async {
        let node = Node::start(nr).await;
        let size = if nr == 0 { PoolSize::PerHost(NonZeroUsize::new(k).unwrap()) } else { PoolSize::PerShard(NonZeroUsize::new(k).unwrap()) };
        let keepalive = if ka == 1 { Some((Duration::from_millis(100), Duration::from_millis(100))) } else { None };
        let Ok(pool) = VerifPool::new(node.addr, size, None, false, keepalive) else { return "bad-case".to_owned() };
        pool.wait_until_initialized().await;
        let count = |pool: &VerifPool| pool.connection_count().unwrap_or(0);
        let mut out: Vec<String> = Vec::new();
        let mut tag = 0u64;
        for step in &steps {
            match *step {
                Step::Hit(f, i) => {
                    node.hit(i, f);
                }
                Step::Refuse(b) => {
                    node.refuse.store(b, Ordering::SeqCst);
                    if !b {
                        pool.trigger_refill();
                    }
                }
                Step::Wait => {
                    // bounded: the published list shows what the node holds open (and is full again if the node
                    // accepts); three looks 5 ms apart must agree
                    let refusing = node.refuse.load(Ordering::SeqCst);
                    let t0 = std::time::Instant::now();
                    let mut stable = 0;
                    while t0.elapsed() < Duration::from_secs(4) {
                        let (c, live) = (count(&pool), node.live());
                        if c == live && (refusing || c == target) {
                            stable += 1;
                            if stable >= 3 {
                                break;
                            }
                        } else {
                            stable = 0;
                        }
                        tokio::time::sleep(Duration::from_millis(5)).await;
                    }
                    let (c, live) = (count(&pool), node.live());
                    if c != live {
                        ctx.fail(format!(
                            "after a bounded wait the pool publishes {} connection(s) but the node holds {} open",
                            c, live
                        ));
                    }
                    out.push(format!("c={}", c));
                }
                Step::Random(n) | Step::Shards(n) => {
                    let by_shard = matches!(step, Step::Shards(_));
                    let live = node.live();
                    let mut ok = 0;
                    for j in 0..n {
                        tag += 1;
                        let text = format!("SELECT {}", tag);
                        let res = if by_shard {
                            pool.query_on_shard((j as u32) % (nr.max(1) as u32), &text).await
                        } else {
                            pool.query_on_random(&text).await
                        };
                        if matches!(res, Ok((_, true))) {
                            ok += 1;
                        }
                    }
                    if live > 0 && ok != n && node.live() == live {
                        ctx.fail(format!(
                            "{} of {} requests failed although the node holds {} connection(s) of the pool open: a request was routed to a dead connection",
                            n - ok, n, live
                        ));
                    }
                    out.push(format!("{}={}/{}", if by_shard { "h" } else { "q" }, ok, n));
                }
            }
        }
        out.join(",")
    });
    rt.shutdown_timeout(Duration::from_millis(200));
    out
}


// ------------------------------------------------------------------------------------------------
// reconnect policies (C10: the refiller keeps trying for ever, so connections are re-established)
// ------------------------------------------------------------------------------------------------

/// `rp exp/<min ns>/<max ns>/<jitter lo ppm>/<jitter hi ppm> <op>;…` and `rp const/<delay ns>/<lo ppm>/<hi ppm> <op>;…`
/// with ops `e<n>` (n failed fills), `s` (a successful fill), `d` (get_delay): the REAL policy session, every call
/// under `catch_unwind`. Output: the delays observed by the `d` ops in ns, `PANIC@<op index>` if a call panicked.
/// ORACLE (from the property: the refiller must be able to go on for ever): no call panics, and an exponential
/// session's delay lies within its limits - whatever the history.
pub fn run_rp(cfg: &str, script: &str, ctx: &mut Ctx) -> String {
    use scylla::verif_hooks::reconnect::{ConstantReconnectPolicy, ExponentialReconnectPolicy, ReconnectPolicy};
    let parts: Vec<&str> = cfg.split('/').collect();
    let nums: Option<Vec<u64>> = parts.iter().skip(1).map(|x| x.parse::<u64>().ok()).collect();
    let Some(nums) = nums else { return "bad-case".into() };
    let dur = |ns: u64| Duration::from_nanos(ns);
    let (policy, limits): (Box<dyn ReconnectPolicy>, Option<(u64, u64)>) = match (parts.first().copied(), nums.as_slice()) {
        (Some("exp"), [min, max, jlo, jhi]) if min <= max && jlo <= jhi && *max <= 1u64 << 60 && *jhi <= 100_000_000 => (
            Box::new(
                ExponentialReconnectPolicy::new()
                    .with_backoff_limits(dur(*min), dur(*max))
                    .with_jitter_range(*jlo as f64 / 1e6..=*jhi as f64 / 1e6),
            ),
            Some((*min, *max)),
        ),
        (Some("const"), [delay, jlo, jhi]) if jlo <= jhi && *delay <= 1u64 << 60 && *jhi <= 100_000_000 => (
            Box::new(ConstantReconnectPolicy::new(dur(*delay)).with_jitter_range(*jlo as f64 / 1e6..=*jhi as f64 / 1e6)),
            None,
        ),
        _ => return "bad-case".into(),
    };
    let mut session = policy.new_session();
    let mut out: Vec<String> = Vec::new();
    for (idx, op) in script.split(';').filter(|o| !o.is_empty()).enumerate() {
        let (k, rest) = (op.get(..1).unwrap_or(""), op.get(1..).unwrap_or(""));
        let res = match k {
            "e" => {
                let Some(n) = rest.parse::<u32>().ok().filter(|n| *n <= 100_000) else { return "bad-case".into() };
                std::panic::catch_unwind(std::panic::AssertUnwindSafe(|| {
                    for _ in 0..n {
                        session.on_fill_error();
                    }
                    None
                }))
            }
            "s" if rest.is_empty() => std::panic::catch_unwind(std::panic::AssertUnwindSafe(|| {
                session.on_successful_fill();
                None
            })),
            "d" if rest.is_empty() => std::panic::catch_unwind(std::panic::AssertUnwindSafe(|| Some(session.get_delay()))),
            _ => return "bad-case".into(),
        };
        match res {
            Err(_) => {
                ctx.fail(format!(
                    "the reconnect policy session panicked in op {} (`{}`): the pool's refiller task would die and the node would never be reconnected",
                    idx, op
                ));
                out.push(format!("PANIC@{}", idx));
                break;
            }
            Ok(Some(d)) => {
                let ns = d.as_nanos();
                if let Some((min, max)) = limits {
                    if ns < min as u128 || ns > max as u128 {
                        ctx.fail(format!("get_delay answered {} ns outside the configured limits [{}, {}]", ns, min, max));
                    }
                }
                out.push(ns.to_string());
            }
            Ok(None) => {}
        }
    }
    if out.is_empty() { "-".into() } else { out.join(",") }
}

/// `poolr <min ms>/<max ms>/<down ms>/<k>`: a real pool (PerHost(k), exponential reconnect policy scaled to
/// min..max ms, jitter 0.85..1.15 as in production) whose node is DOWN - nothing listens on its address - for
/// `down ms` (hundreds of refill attempts), then the node appears.
/// ORACLE (the property's clause "the session keeps working through ... re-established connections"): within a
/// bounded time after the node is back the pool is connected again and every request is served.
pub fn run_poolr(cfg: &str, ctx: &mut Ctx) -> String {
    use scylla::verif_hooks::reconnect::ExponentialReconnectPolicy;
    let nums: Option<Vec<u64>> = cfg.split('/').map(|x| x.parse::<u64>().ok()).collect();
    let Some(nums) = nums else { return "bad-case".into() };
    let [min, max, down, k] = nums.as_slice() else { return "bad-case".into() };
    let (min, max, down, k) = (*min, *max, *down, *k as usize);
    if min == 0 || min > max || max > 1000 || down > 5000 || k == 0 || k > 8 {
        return "bad-case".into();
    }
    let rt = tokio::runtime::Builder::new_multi_thread().worker_threads(2).enable_all().build().unwrap();
    let out = rt.block_on(async {
        // an address where nothing listens: the port is BOUND (so that nobody else on this machine can take it) but
        // not listening - connections to it are refused
        let sock = tokio::net::TcpSocket::new_v4().unwrap();
        sock.bind("127.0.0.1:0".parse().unwrap()).unwrap();
        let addr = sock.local_addr().unwrap();
        let policy = Arc::new(
            ExponentialReconnectPolicy::new().with_backoff_limits(Duration::from_millis(min), Duration::from_millis(max)),
        );
        let Ok(pool) = VerifPool::new_with(
            addr,
            PoolSize::PerHost(NonZeroUsize::new(k).unwrap()),
            None,
            false,
            None,
            Some(Duration::from_millis(500)),
            Some(policy),
        ) else {
            return "bad-case".to_owned();
        };
        pool.wait_until_initialized().await;
        tokio::time::sleep(Duration::from_millis(down)).await;
        let c_down = pool.connection_count().unwrap_or(0);
        // the node comes up on that very address
        let listener = sock.listen(1024).unwrap();
        let node = Node::start_with(listener, 0).await;
        let t0 = std::time::Instant::now();
        while t0.elapsed() < Duration::from_secs(6) {
            if pool.connection_count().unwrap_or(0) == k && node.live() == k {
                break;
            }
            tokio::time::sleep(Duration::from_millis(5)).await;
        }
        let c = pool.connection_count().unwrap_or(0);
        if c != k {
            ctx.fail(format!(
                "the node has been back for 6 s after {} ms of refused connections, but the pool holds {} of {} connections: connections are not re-established",
                down, c, k
            ));
        }
        let mut ok = 0;
        for j in 0..5 {
            if matches!(pool.query_on_random(&format!("SELECT {}", j)).await, Ok((_, true))) {
                ok += 1;
            }
        }
        if c > 0 && ok != 5 {
            ctx.fail(format!("{} of 5 requests failed after the node came back", 5 - ok));
        }
        format!("down={},c={},q={}/5", c_down, c, ok)
    });
    rt.shutdown_timeout(Duration::from_millis(200));
    out
}


// ------------------------------------------------------------------------------------------------
// a new connection whose `USE <session keyspace>` is never answered (connection_pool.rs 1336-1358: no timeout)
// ------------------------------------------------------------------------------------------------

/// `poolk <k>`: a pool of k connections (PerHost) with a session keyspace, keep-alive 150 / 150 ms, refills paced at
/// 20 ms. History: the pool fills (every `USE` answered); from then on the node reads `USE` on NEW connections and
/// never answers it (it keeps answering keep-alive OPTIONS); the node closes one pool connection; 1.5 s later it closes
/// another one; 1.5 s later `trigger_refill`; 0.5 s later the observation ends.
/// Output (OBSERVATION, compared with `Model/PoolKeyspace.lean`): per phase the published connection count and the
/// number of connections the node accepted during the phase; and whether keep-alive probes were answered on the
/// connection whose `USE` is held.
pub fn run_poolk(cfg: &str, ctx: &mut Ctx) -> String {
    let Some(k) = cfg.parse::<usize>().ok().filter(|k| (2..=6).contains(k)) else { return "bad-case".into() };
    let _ = ctx;
    let rt = tokio::runtime::Builder::new_multi_thread().worker_threads(2).enable_all().build().unwrap();
    let out = rt.block_on(async {
        use scylla::verif_hooks::reconnect::ConstantReconnectPolicy;
        let node = Node::start(0).await;
        let Ok(pool) = VerifPool::new_with(
            node.addr,
            PoolSize::PerHost(NonZeroUsize::new(k).unwrap()),
            Some(("ks", false)),
            false,
            Some((Duration::from_millis(150), Duration::from_millis(150))),
            Some(Duration::from_millis(500)),
            Some(Arc::new(ConstantReconnectPolicy::new(Duration::from_millis(20)))),
        ) else {
            return "bad-case".to_owned();
        };
        pool.wait_until_initialized().await;
        let count = |pool: &VerifPool| pool.connection_count().unwrap_or(0);
        let t0 = std::time::Instant::now();
        while count(&pool) < k {
            if t0.elapsed() > Duration::from_secs(6) {
                return format!("e2e-skip pool-not-full {}/{}", count(&pool), k);
            }
            tokio::time::sleep(Duration::from_millis(5)).await;
        }
        let acc = |n: &Node| n.usectl.accepted.load(Ordering::SeqCst);
        let mut phases: Vec<String> = Vec::new();
        node.usectl.hold.store(true, Ordering::SeqCst);
        let mut a0 = acc(&node);
        node.hit(0, Fault::Fin);
        tokio::time::sleep(Duration::from_millis(1500)).await;
        phases.push(format!("c={},acc={},held={}", count(&pool), acc(&node) - a0, node.usectl.held.load(Ordering::SeqCst)));
        a0 = acc(&node);
        node.hit(0, Fault::Fin);
        tokio::time::sleep(Duration::from_millis(1500)).await;
        phases.push(format!("c={},acc={},held={}", count(&pool), acc(&node) - a0, node.usectl.held.load(Ordering::SeqCst)));
        a0 = acc(&node);
        pool.trigger_refill();
        tokio::time::sleep(Duration::from_millis(500)).await;
        phases.push(format!("c={},acc={},held={}", count(&pool), acc(&node) - a0, node.usectl.held.load(Ordering::SeqCst)));
        let probes = node.usectl.probes_on_held.load(Ordering::SeqCst);
        format!("{} | probes={}", phases.join(" | "), if probes >= 3 { "answered" } else { "few" })
    });
    rt.shutdown_timeout(Duration::from_millis(200));
    out
}

//! C07 — paged iteration yields every row exactly once, in order, then ends.
//!
//! The real single-connection pager (`Connection::execute_iter` -> `QueryPager` -> `rows_stream`) runs
//! against the scripted mock node: the case line is the server's page script (rows per page, paging state
//! returned with each page, faults injected before a page is served) and the consumer's behaviour.
//!
//! Case: `pg <skip 0|1> <eager|slow|drop<k>> <page> <page> ...`, page = `<rows>:<state>:<faults>`;
//! state `.` = none (no more pages), `-` = empty byte string, else hex; rows are numbered 0,1,2,...
//! across the pages (one `int` column). Faults (letters, consumed one per incoming EXECUTE of that page,
//! `d` excepted): `u` UNPREPARED, `o` Overloaded, `r` ReadTimeout, `s` ServerError, `c` close the
//! connection, `T` answer later than the request timeout, `v` RESULT/Void, `d` short delay then go on.
//!
//! Output: `rows=<delivered> fin=<end | err:<e>+end | ctor:<e> | dropped> log=<paging state of every EXECUTE>`.
use crate::mocknode::*;
use crate::rng::Rng;
use crate::util::{hex, nat_list, unhex};
use crate::{Ctx, Tier};
use futures::StreamExt;
use scylla::errors::{NextPageError, NextRowError, RequestAttemptError, RequestError};
use scylla_cql_core::serialize::row::SerializedValues;
use scylla::statement::prepared::PreparedStatement;
use scylla::statement::unprepared::Statement;
use scylla::verif_hooks::connection::{VerifConn, VerifConnOptions};
use std::cell::RefCell;
use std::collections::VecDeque;
use std::sync::{Arc, Mutex};
use std::time::Duration;

const REQUEST_TIMEOUT: Duration = Duration::from_millis(700);
const LATE: Duration = Duration::from_millis(2500);
const QUERY: &str = "SELECT a FROM ks.t";

// ---------------------------------------------------------------------------------------------
// case syntax
// ---------------------------------------------------------------------------------------------

#[derive(Clone, Debug)]
struct PageSpec {
    rows: usize,
    state: Option<Vec<u8>>,
    faults: Vec<char>,
}

#[derive(Clone, Copy, Debug, PartialEq)]
enum Consumer {
    Eager,
    Slow,
    Drop(usize),
}

struct Case {
    skip: bool,
    consumer: Consumer,
    pages: Vec<PageSpec>,
}

fn fmt_state(s: &Option<Vec<u8>>) -> String {
    match s {
        None => ".".to_owned(),
        Some(b) => hex(b),
    }
}

fn fmt_page(p: &PageSpec) -> String {
    let f: String = if p.faults.is_empty() { "-".into() } else { p.faults.iter().collect() };
    format!("{}:{}:{}", p.rows, fmt_state(&p.state), f)
}

fn fmt_case(skip: bool, consumer: Consumer, pages: &[PageSpec]) -> String {
    let c = match consumer {
        Consumer::Eager => "eager".to_owned(),
        Consumer::Slow => "slow".to_owned(),
        Consumer::Drop(k) => format!("drop{}", k),
    };
    format!("pg {} {} {}", skip as u8, c, pages.iter().map(fmt_page).collect::<Vec<_>>().join(" "))
}

fn parse_case(line: &str) -> Option<Case> {
    let w: Vec<&str> = line.split_whitespace().collect();
    if w.len() < 4 || w[0] != "pg" {
        return None;
    }
    let skip = match w[1] {
        "0" => false,
        "1" => true,
        _ => return None,
    };
    let consumer = match w[2] {
        "eager" => Consumer::Eager,
        "slow" => Consumer::Slow,
        s if s.starts_with("drop") => Consumer::Drop(s[4..].parse().ok()?),
        _ => return None,
    };
    let mut pages = Vec::new();
    for pw in &w[3..] {
        let parts: Vec<&str> = pw.split(':').collect();
        if parts.len() != 3 {
            return None;
        }
        let rows: usize = parts[0].parse().ok()?;
        let state = if parts[1] == "." { None } else { Some(unhex(parts[1])?) };
        let faults: Vec<char> = if parts[2] == "-" { vec![] } else { parts[2].chars().collect() };
        pages.push(PageSpec { rows, state, faults });
    }
    Some(Case { skip, consumer, pages })
}

// ---------------------------------------------------------------------------------------------
// the scripted server
// ---------------------------------------------------------------------------------------------

#[derive(Default)]
struct Script {
    pages: Vec<PageSpec>,
    faults: Vec<VecDeque<char>>,
    /// index of the next page to serve = number of pages served
    pos: usize,
    /// first row number of the next page
    next_row: usize,
    /// rows of the pages actually sent, page by page
    sent: Vec<Vec<i32>>,
    /// (position when the EXECUTE arrived, paging state it carried)
    execs: Vec<(usize, Option<Vec<u8>>)>,
}

fn cols() -> Vec<Col> {
    vec![Col { name: "a".into(), type_id: 0x0009 }]
}

fn handler(script: Arc<Mutex<Script>>) -> Handler {
    Box::new(move |req: &Request| match &req.parsed {
        Parsed::Prepare { text } => {
            let rm = ResultMeta { cols: Some(cols()), col_count: 1, ..Default::default() };
            vec![Action::Respond(RESP_RESULT, body_prepared(&md5ish(text), None, &[], &[], &rm))]
        }
        Parsed::Execute { id, params, .. } => {
            let mut s = script.lock().unwrap();
            let pos = s.pos;
            s.execs.push((pos, params.paging_state.clone()));
            let mut actions = Vec::new();
            loop {
                let fault = s.faults.get_mut(pos).and_then(|q| q.pop_front());
                match fault {
                    Some('d') => actions.push(Action::Delay(Duration::from_millis(2))),
                    Some('u') => {
                        actions.push(Action::Respond(RESP_ERROR, body_unprepared(id)));
                        return actions;
                    }
                    Some('o') => {
                        actions.push(Action::Respond(RESP_ERROR, body_error(0x1001, "overloaded", &[])));
                        return actions;
                    }
                    Some('r') => {
                        // <cl><received><blockfor><data_present>
                        let mut extra = Vec::new();
                        w_short(&mut extra, 0x0001);
                        w_int(&mut extra, 0);
                        w_int(&mut extra, 1);
                        extra.push(0);
                        actions.push(Action::Respond(RESP_ERROR, body_error(0x1200, "read timeout", &extra)));
                        return actions;
                    }
                    Some('s') => {
                        actions.push(Action::Respond(RESP_ERROR, body_error(0x0000, "server error", &[])));
                        return actions;
                    }
                    Some('c') => {
                        actions.push(Action::Close);
                        return actions;
                    }
                    Some('T') => {
                        actions.push(Action::Delay(LATE));
                        actions.push(Action::Close);
                        return actions;
                    }
                    Some('v') => {
                        actions.push(Action::Respond(RESP_RESULT, body_void()));
                        return actions;
                    }
                    Some(_) => {}
                    None => break,
                }
            }
            // serve the page (beyond the script: an empty last page)
            let (n, state) = match s.pages.get(pos) {
                Some(p) => (p.rows, p.state.clone()),
                None => (0, None),
            };
            let first = s.next_row;
            let values: Vec<i32> = (first..first + n).map(|v| v as i32).collect();
            let rows: Vec<Vec<Option<Vec<u8>>>> = values.iter().map(|v| vec![Some(v.to_be_bytes().to_vec())]).collect();
            s.next_row += n;
            s.pos += 1;
            s.sent.push(values);
            let rm = ResultMeta {
                cols: if params.skip_metadata { None } else { Some(cols()) },
                col_count: 1,
                paging_state: state,
                new_metadata_id: None,
            };
            actions.push(Action::Respond(RESP_RESULT, body_rows(&rm, &rows)));
            actions
        }
        _ => vec![Action::Respond(RESP_ERROR, body_error(0x2200, "invalid", &[]))],
    })
}

// ---------------------------------------------------------------------------------------------
// environment kept across cases (one runtime, one mock node, one connection per hx process)
// ---------------------------------------------------------------------------------------------

struct Env {
    node: MockNode,
    script: Arc<Mutex<Script>>,
    conn: Option<(VerifConn, PreparedStatement)>,
}

thread_local! {
    static RT: tokio::runtime::Runtime = tokio::runtime::Builder::new_current_thread().enable_all().build().unwrap();
    static ENV: RefCell<Option<Env>> = const { RefCell::new(None) };
}

fn error_label(e: &NextRowError) -> String {
    match e {
        NextRowError::NextPageError(NextPageError::RequestFailure(r)) => match r {
            RequestError::RequestTimeout(_) => "Timeout".to_owned(),
            RequestError::EmptyPlan => "EmptyPlan".to_owned(),
            RequestError::ConnectionPoolError(_) => "ConnectionPoolError".to_owned(),
            RequestError::LastAttemptError(a) => match a {
                RequestAttemptError::DbError(db, _) => format!("DbError:{}", db.code(&Default::default())),
                RequestAttemptError::BrokenConnectionError(_) => "Broken".to_owned(),
                RequestAttemptError::UnexpectedResponse(_) => "UnexpectedResponse".to_owned(),
                RequestAttemptError::UnableToAllocStreamId => "UnableToAllocStreamId".to_owned(),
                RequestAttemptError::CqlResultParseError(_) => "CqlResultParseError".to_owned(),
                RequestAttemptError::CqlErrorParseError(_) => "CqlErrorParseError".to_owned(),
                RequestAttemptError::BodyExtensionsParseError(_) => "BodyExtensionsParseError".to_owned(),
                RequestAttemptError::RepreparedIdChanged { .. } => "RepreparedIdChanged".to_owned(),
                _ => "OtherAttemptError".to_owned(),
            },
            #[allow(unreachable_patterns)]
            _ => "OtherRequestError".to_owned(),
        },
        NextRowError::NextPageError(NextPageError::TypeCheckError(_)) => "TypeCheck".to_owned(),
        NextRowError::NextPageError(NextPageError::PartitionKeyError(_)) => "PartitionKey".to_owned(),
        NextRowError::NextPageError(NextPageError::ResultMetadataParseError(_)) => "ResultMetadataParse".to_owned(),
        NextRowError::NextPageError(_) => "OtherNextPageError".to_owned(),
        NextRowError::RowDeserializationError(_) => "RowDeserialization".to_owned(),
        #[allow(unreachable_patterns)]
        _ => "OtherNextRowError".to_owned(),
    }
}

struct Observed {
    delivered: Vec<i32>,
    fin: String,
    dropped_at_execs: Option<usize>,
}

async fn run_case(case: &Case, ctx: &mut Ctx) -> String {
    // (re)build what is missing
    let mut env = ENV.with(|e| e.borrow_mut().take());
    if env.is_none() {
        let script = Arc::new(Mutex::new(Script::default()));
        let node = MockNode::start(false, None, handler(Arc::clone(&script))).await;
        env = Some(Env { node, script, conn: None });
    }
    let mut env = env.unwrap();
    {
        let mut s = env.script.lock().unwrap();
        *s = Script {
            pages: case.pages.clone(),
            faults: case.pages.iter().map(|p| p.faults.iter().copied().collect()).collect(),
            ..Default::default()
        };
    }
    env.node.log.lock().unwrap().clear();
    if env.conn.is_none() {
        let conn = match VerifConn::open(env.node.addr, VerifConnOptions::default()).await {
            Ok(c) => c,
            Err(e) => {
                ctx.fail(format!("harness: cannot open connection: {e}"));
                return "HARNESS-ERROR".to_owned();
            }
        };
        let mut st = Statement::new(QUERY);
        st.set_page_size(5000);
        let prepared = match conn.prepare(&st).await {
            Ok(p) => p,
            Err(e) => {
                ctx.fail(format!("harness: cannot prepare: {e}"));
                return "HARNESS-ERROR".to_owned();
            }
        };
        env.conn = Some((conn, prepared));
    }
    let has_timeout_fault = case.pages.iter().any(|p| p.faults.contains(&'T'));
    let dirty = case.pages.iter().any(|p| p.faults.contains(&'T') || p.faults.contains(&'c'));
    let (conn, prepared0) = env.conn.as_ref().unwrap();
    let mut prepared = prepared0.clone();
    prepared.set_use_cached_result_metadata(case.skip);
    prepared.set_request_timeout(if has_timeout_fault { Some(REQUEST_TIMEOUT) } else { None });

    let script = Arc::clone(&env.script);
    let consumer = case.consumer;
    let body = async {
        let mut obs = Observed { delivered: Vec::new(), fin: String::new(), dropped_at_execs: None };
        let pager = match conn.execute_iter(prepared, SerializedValues::new()).await {
            Ok(p) => p,
            Err(label) => {
                obs.fin = format!("ctor:{label}");
                return obs;
            }
        };
        let mut stream = match pager.rows_stream::<(i32,)>() {
            Ok(s) => s,
            Err(_) => {
                obs.fin = "ctor:TypeCheck".to_owned();
                return obs;
            }
        };
        let limit = match consumer {
            Consumer::Drop(k) => Some(k),
            _ => None,
        };
        loop {
            if let Some(k) = limit {
                if obs.delivered.len() >= k {
                    obs.dropped_at_execs = Some(script.lock().unwrap().execs.len());
                    drop(stream);
                    obs.fin = "dropped".to_owned();
                    return obs;
                }
            }
            match stream.next().await {
                Some(Ok((v,))) => {
                    obs.delivered.push(v);
                    if consumer == Consumer::Slow {
                        for _ in 0..3 {
                            tokio::task::yield_now().await;
                        }
                        if obs.delivered.len() % 7 == 3 {
                            tokio::time::sleep(Duration::from_millis(1)).await;
                        }
                    }
                }
                Some(Err(e)) => {
                    obs.fin = format!("err:{}", error_label(&e));
                    // what does the stream say after the error?
                    match stream.next().await {
                        None => obs.fin.push_str("+end"),
                        Some(Ok(_)) => obs.fin.push_str("+row"),
                        Some(Err(e2)) => obs.fin.push_str(&format!("+err:{}", error_label(&e2))),
                    }
                    return obs;
                }
                None => {
                    obs.fin = "end".to_owned();
                    return obs;
                }
            }
        }
    };
    let obs = match tokio::time::timeout(Duration::from_secs(20), body).await {
        Ok(o) => o,
        Err(_) => {
            ctx.fail("the row stream did not finish within 20 s (hang)");
            // the connection may be stuck: start from scratch next time
            return "HANG".to_owned();
        }
    };

    // settle: the producer must stop fetching
    let count = || script.lock().unwrap().execs.len();
    let mut last = count();
    let mut stable = 0;
    let mut waited = 0;
    let need = if obs.fin == "dropped" { 3 } else { 1 };
    while stable < need && waited < 400 {
        if obs.fin == "dropped" {
            tokio::time::sleep(Duration::from_millis(2)).await;
        } else {
            for _ in 0..4 {
                tokio::task::yield_now().await;
            }
        }
        waited += 1;
        let c = count();
        if c == last {
            stable += 1;
        } else {
            stable = 0;
            last = c;
        }
    }
    if stable < need {
        ctx.fail("the node keeps receiving page requests after the stream finished / was dropped");
    }

    // ------------------------------------------------------------------------------------------
    // oracle, from the property statement and what the node saw (no model involved)
    // ------------------------------------------------------------------------------------------
    let s = script.lock().unwrap();
    let sent_flat: Vec<i32> = s.sent.iter().flatten().copied().collect();
    // 1. rows: exactly the rows of the pages the node sent, in order, each once (a prefix when dropped)
    match case.consumer {
        Consumer::Drop(k) if obs.fin == "dropped" => {
            if obs.delivered.len() != k || obs.delivered[..] != sent_flat[..k.min(sent_flat.len())] {
                ctx.fail(format!("dropped after {} rows: delivered {:?} is not the first {} rows the node sent", k, obs.delivered, k));
            }
        }
        _ => {
            if obs.delivered != sent_flat {
                ctx.fail(format!(
                    "delivered rows {} differ from the rows of the pages the node sent {} (fin={})",
                    nat_list(&obs.delivered),
                    nat_list(&sent_flat),
                    obs.fin
                ));
            }
        }
    }
    // 2. paging-state chain: an EXECUTE asking for page k carries the state returned with page k-1
    for (i, (pos, st)) in s.execs.iter().enumerate() {
        let expected = if *pos == 0 { None } else { case.pages.get(pos - 1).and_then(|p| p.state.clone()) };
        if *st != expected {
            ctx.fail(format!(
                "EXECUTE #{} (asking for page {}) carries paging state {} instead of {}",
                i,
                pos,
                fmt_state(st),
                fmt_state(&expected)
            ));
        }
    }
    // 3. the expected end of the story, from the script alone
    let fatal_page = case.pages.iter().position(|p| {
        let f: String = p.faults.iter().filter(|c| **c != 'd').collect();
        f.contains(['o', 'r', 's', 'c', 'T', 'v']) || f.contains("uu")
    });
    let last_page = case.pages.iter().position(|p| p.state.is_none()).unwrap_or(case.pages.len());
    let rows_before = |k: usize| -> Vec<i32> {
        let n: usize = case.pages.iter().take(k).map(|p| p.rows).sum();
        (0..n as i32).collect()
    };
    let fatal_page = fatal_page.filter(|k| *k <= last_page);
    if obs.fin != "dropped" {
        match fatal_page {
            None => {
                let all = rows_before(last_page + 1);
                if obs.delivered != all || obs.fin != "end" {
                    ctx.fail(format!(
                        "no fatal fault injected: expected all {} rows then end, got {} rows, fin={}",
                        all.len(),
                        obs.delivered.len(),
                        obs.fin
                    ));
                }
            }
            Some(k) => {
                let before = rows_before(k);
                let is_err = obs.fin.starts_with("err:") || obs.fin.starts_with("ctor:");
                if !is_err || obs.delivered != before {
                    ctx.fail(format!(
                        "fatal fault on page {}: expected the {} rows of the earlier pages then an error, got {} rows, fin={}",
                        k,
                        before.len(),
                        obs.delivered.len(),
                        obs.fin
                    ));
                }
                if (k == 0) != obs.fin.starts_with("ctor:") {
                    ctx.fail(format!("fatal fault on page {}: fin={}", k, obs.fin));
                }
                if obs.fin.starts_with("err:") && !obs.fin.ends_with("+end") {
                    ctx.fail(format!("the stream did not end after its error: fin={}", obs.fin));
                }
            }
        }
    } else if let Consumer::Drop(k) = case.consumer {
        // 4. early drop: the producer is at most two pages ahead and fetches at most one more
        let mut acc = 0usize;
        let mut cur_page = 0usize;
        for (i, p) in case.pages.iter().enumerate() {
            acc += p.rows;
            if k >= 1 && acc >= k {
                cur_page = i;
                break;
            }
        }
        if s.sent.len() > cur_page + 3 {
            ctx.fail(format!(
                "dropped while consuming page {}: the node served {} pages (more than 2 prefetched + 1 in flight)",
                cur_page,
                s.sent.len()
            ));
        }
    }
    let log: Vec<String> = s.execs.iter().map(|(_, st)| fmt_state(st)).collect();
    drop(s);
    let out = format!(
        "rows={} fin={} log={}",
        nat_list(&obs.delivered),
        obs.fin,
        if log.is_empty() { "-".to_owned() } else { log.join(",") }
    );
    if dirty {
        env.conn = None;
    }
    ENV.with(|e| *e.borrow_mut() = Some(env));
    out
}

pub fn run(case: &str, ctx: &mut Ctx) -> String {
    let Some(case) = parse_case(case) else { return "bad-case".to_owned() };
    if case.pages.is_empty() {
        return "bad-case".to_owned();
    }
    RT.with(|rt| rt.block_on(run_case(&case, ctx)))
}

// ---------------------------------------------------------------------------------------------
// generators
// ---------------------------------------------------------------------------------------------

/// Distinct paging states of length 0..=40 (`repeat`: one state is reused on purpose).
fn states(rng: &mut Rng, n: usize, repeat: bool) -> Vec<Vec<u8>> {
    let mut out: Vec<Vec<u8>> = Vec::new();
    for i in 0..n {
        if repeat && i > 0 && rng.chance(1, 3) {
            let j = rng.below(i as u64) as usize;
            out.push(out[j].clone());
            continue;
        }
        loop {
            let len = match rng.below(8) {
                0 => 0,
                1 => 1,
                2 => 40,
                3 => *rng.pick(&[2usize, 8, 16, 39]),
                _ => rng.below(41) as usize,
            };
            let mut st = rng.bytes(len);
            if len >= 2 && rng.chance(1, 2) {
                // embed the index so that long scripts never collide by accident
                st[0] = (i >> 8) as u8;
                st[1] = i as u8;
            }
            if !out.contains(&st) {
                out.push(st);
                break;
            }
        }
    }
    out
}

fn build(sizes: &[usize], sts: &[Vec<u8>], faults: &[Vec<char>]) -> Vec<PageSpec> {
    let n = sizes.len();
    (0..n)
        .map(|i| PageSpec {
            rows: sizes[i],
            state: if i + 1 == n { None } else { Some(sts[i].clone()) },
            faults: faults.get(i).cloned().unwrap_or_default(),
        })
        .collect()
}

/// All sequences of page sizes of length 1..=max_len over 0..=max_size with at most max_rows rows.
fn compositions(max_len: usize, max_size: usize, max_rows: usize) -> Vec<Vec<usize>> {
    let mut out = Vec::new();
    let mut cur: Vec<Vec<usize>> = vec![vec![]];
    for _ in 0..max_len {
        let mut next = Vec::new();
        for c in &cur {
            for s in 0..=max_size {
                let mut d = c.clone();
                d.push(s);
                if d.iter().sum::<usize>() <= max_rows {
                    next.push(d);
                }
            }
        }
        out.extend(next.iter().cloned());
        cur = next;
    }
    out
}

const FATAL: [&str; 6] = ["o", "r", "s", "c", "v", "uu"];

pub fn generate(rng: &mut Rng, tier: Tier, emit: &mut dyn FnMut(String)) {
    let thorough = tier == Tier::Thorough;
    let mut flip = false;
    let mut skip = || {
        flip = !flip;
        flip
    };
    // 1. exhaustive: every split of <= 6 rows into pages (empty pages, empty last page included)
    let (len1, size1) = if thorough { (6, 6) } else { (5, 3) };
    for sizes in compositions(len1, size1, 6) {
        let sts = states(rng, sizes.len(), false);
        emit(fmt_case(skip(), Consumer::Eager, &build(&sizes, &sts, &[])));
    }
    // all positive compositions of 0..=6 rows exactly
    for sizes in compositions(6, 6, 6) {
        if sizes.iter().all(|s| *s > 0) {
            let sts = states(rng, sizes.len(), false);
            emit(fmt_case(skip(), Consumer::Slow, &build(&sizes, &sts, &[])));
        }
    }
    // 2. exhaustive: one fault of every kind at every page of every small split; every drop point
    let (len2, size2, rows2) = if thorough { (5, 2, 6) } else { (4, 2, 5) };
    for sizes in compositions(len2, size2, rows2) {
        let n = sizes.len();
        let total: usize = sizes.iter().sum();
        for k in 0..n {
            for f in ["u", "o", "c", "v", "uu", "du", "ud", "r", "s"] {
                if !thorough && (f == "r" || f == "s" || f == "ud") && (k + total) % 3 != 0 {
                    continue;
                }
                let mut faults = vec![vec![]; n];
                faults[k] = f.chars().collect();
                let sts = states(rng, n, false);
                emit(fmt_case(skip(), Consumer::Eager, &build(&sizes, &sts, &faults)));
            }
        }
        for k in 0..=total {
            let sts = states(rng, n, false);
            emit(fmt_case(skip(), Consumer::Drop(k), &build(&sizes, &sts, &[])));
        }
    }
    // 3. random: 0..200 rows, random splits, empty pages, long states, repeated states, faults, consumers
    let n_random = if thorough { 60_000 } else { 3_000 };
    for _ in 0..n_random {
        let total = match rng.below(6) {
            0 => rng.below(8) as usize,
            1 => 200,
            2 => *rng.pick(&[1usize, 2, 7, 50, 100, 199]),
            _ => rng.below(201) as usize,
        };
        let mut sizes = Vec::new();
        let mut left = total;
        let max_page = match rng.below(4) {
            0 => 1,
            1 => 3,
            2 => 20,
            _ => 200,
        };
        while left > 0 && sizes.len() < 60 {
            if rng.chance(1, 6) {
                sizes.push(0);
                continue;
            }
            let s = (1 + rng.below(max_page.min(left) as u64) as usize).min(left);
            sizes.push(s);
            left -= s;
        }
        if left > 0 {
            sizes.push(left);
        }
        // empty pages at the end / an empty final page
        match rng.below(4) {
            0 => sizes.push(0),
            1 => {
                sizes.push(0);
                sizes.push(0);
            }
            _ => {}
        }
        if sizes.is_empty() {
            sizes.push(0);
        }
        let n = sizes.len();
        let repeat = rng.chance(1, 8);
        let sts = states(rng, n, repeat);
        let mut faults = vec![vec![]; n];
        match rng.below(10) {
            0..=2 => {}
            3..=5 => {
                // harmless faults only: retried UNPREPARED, delays
                for f in faults.iter_mut() {
                    match rng.below(6) {
                        0 => *f = vec!['u'],
                        1 => *f = vec!['d'],
                        2 => *f = vec!['d', 'u'],
                        _ => {}
                    }
                }
            }
            _ => {
                let k = rng.below(n as u64) as usize;
                for (i, f) in faults.iter_mut().enumerate().take(k) {
                    if rng.chance(1, 5) {
                        *f = if i % 2 == 0 { vec!['u'] } else { vec!['d'] };
                    }
                }
                faults[k] = rng.pick(&FATAL).chars().collect();
                if rng.chance(1, 4) {
                    faults[k].insert(0, 'u');
                    if faults[k] == ['u', 'u', 'u'] {
                        faults[k].pop();
                    }
                }
            }
        }
        let consumer = match rng.below(6) {
            0 | 1 => Consumer::Slow,
            2 => Consumer::Drop(match rng.below(3) {
                0 => rng.below(3) as usize,
                1 => total,
                _ => rng.below(total as u64 + 2) as usize,
            }),
            _ => Consumer::Eager,
        };
        emit(fmt_case(skip(), consumer, &build(&sizes, &sts, &faults)));
    }
    // 4. client-side request timeout on page k (real time: few cases)
    let n_timeout = if thorough { 48 } else { 8 };
    for i in 0..n_timeout {
        let n = 1 + (i % 4);
        let sizes: Vec<usize> = (0..n).map(|_| rng.below(4) as usize).collect();
        let sts = states(rng, n, false);
        let mut faults = vec![vec![]; n];
        faults[i % n] = vec!['T'];
        emit(fmt_case(skip(), if i % 3 == 0 { Consumer::Slow } else { Consumer::Eager }, &build(&sizes, &sts, &faults)));
    }
}
